"""C28 — MPI point-to-point matching and non-overtaking.

Theorems: lean/SgVerif/C28/Props.lean (spec_non_overtaking for all histories; the SMPI two-mailbox mechanism does NOT
refine the spec: counterexample + partial statement).  Tie: generated MPI programs (2..6 ranks) run by the real library;
the Lean driver evaluates the property's predicate (exactness, compatibility, truncation, non-overtaking) on the log of
completed receives, and for "staged" programs (event order forced by sleeps) compares the library's pairing with the
one predicted by the mechanism model.
"""
import json
import os
import subprocess
import time
from concurrent.futures import ThreadPoolExecutor

from vlib import core
from vlib.core import SplitMix

CONFIGS = [(0, 65536), (256, 1024), (256, 256), (1024, 4096), (64, 100000)]   # (async-small-thresh, send-is-detached-thresh)


def sizes_for(rng, thresh, det):
    pool = [16, 17, 40, 5000]
    for t in (thresh, det):
        if t > 20:
            pool += [t - 1, t, t + 1]
    if rng.chance(1, 20):
        pool.append(70000)
    return [s for s in pool if s >= 16]


def filt(mode, m):
    return {"specific": (m["src"], m["tag"]), "any": (-1, -1), "src_anytag": (m["src"], -1), "anysrc_tag": (-1, m["tag"])}[mode]


def gen_phased(rng):
    """phases separated by barriers; deadlock-free by construction (see NOTES.md)"""
    np_ = rng.range(2, 6)
    thresh, det = rng.choice(CONFIGS)
    pool = sizes_for(rng, thresh, det)
    msgs, rcvs = [], []
    script = {r: [] for r in range(np_)}
    sord = {r: 0 for r in range(np_)}
    pord = {r: 0 for r in range(np_)}
    seqs = {}
    for _ in range(rng.range(1, 3)):
        n = rng.range(1, 9)
        ph = []
        for _ in range(n):
            s = rng.below(np_)
            d = (s + 1 + rng.below(np_ - 1)) % np_
            ph.append({"mid": len(msgs) + len(ph), "src": s, "dst": d, "tag": rng.below(3), "size": rng.choice(pool)})
        mode = {d: rng.choice(["specific", "specific", "any", "src_anytag", "anysrc_tag"]) for d in range(np_)}
        pre = {d: rng.chance(1, 2) for d in range(np_)}
        maxsz = max(m["size"] for m in ph)
        mixed = rng.chance(1, 6)      # receive buffers of different sizes (truncation, receives on both sides of the threshold)
        steps = {r: {1: [], 2: [], 3: [], 4: []} for r in range(np_)}
        for m in ph:
            d = m["dst"]
            f = filt(mode[d], m)
            buf = rng.choice([m["size"], maxsz, maxsz, m["size"] + 1, max(16, m["size"] - 1)]) if mixed else maxsz
            r = {"rid": len(rcvs), "rank": d, "src": f[0], "tag": f[1], "buf": buf}
            rcvs.append(r)
            if pre[d]:
                steps[d][1].append(("irecv", r))
                kind = rng.choice(["send", "ssend", "isend", "bsend", "send"])
            else:
                if rng.chance(1, 3):
                    steps[d][1].append(("irecv", r))
                else:
                    steps[d][4].append((rng.choice(["recv", "recv", "precv", "iprecv"]), r))
                kind = rng.choice(["isend", "bsend", "isend"])
            m["kind"] = kind
            steps[m["src"]][2 if kind == "isend" else 3].append((kind, m))
            msgs.append(m)
        for r in range(np_):
            for st in (1, 2, 3, 4):
                ops = steps[r][st]
                rng.shuffle(ops)
                if ops and rng.chance(1, 3):
                    script[r].append("sleep %d" % rng.range(1, 4))
                for (op, x) in ops:
                    if op in ("irecv", "recv", "precv", "iprecv"):
                        x["pord"] = pord[r]
                        pord[r] += 1
                        script[r].append("%s %d %d %d %d" % (op, x["rid"], x["src"], x["tag"], x["buf"]))
                    else:
                        k = (x["src"], x["dst"], x["tag"])
                        x["seq"] = seqs.get(k, 0)
                        seqs[k] = x["seq"] + 1
                        x["sord"] = sord[r]
                        sord[r] += 1
                        script[r].append("%s %d %d %d %d %d" % (op, x["mid"], x["dst"], x["tag"], x["size"], x["seq"]))
            script[r].append("waitall")
            script[r].append("barrier")
    return {"kind": "phased", "np": np_, "thresh": thresh, "det": det, "msgs": msgs, "rcvs": rcvs, "script": script, "h": None}


def gen_staged(rng, planted=None):
    """one destination (rank 0); every send and every post happens in its own 5 ms slot, so the order in which they
    reach the matching engine of rank 0 is known: the mechanism model predicts the pairing."""
    np_ = rng.range(2, 4)
    thresh, det = rng.choice(CONFIGS[1:])
    pool = sizes_for(rng, thresh, det)
    n = rng.range(2, 6)
    mode = rng.choice(["specific", "any", "src_anytag", "anysrc_tag", "src_anytag"])
    msgs, rcvs = [], []
    for i in range(n):
        msgs.append({"mid": i, "src": 1 + rng.below(np_ - 1), "dst": 0, "tag": rng.below(2), "size": rng.choice(pool),
                     "kind": rng.choice(["isend", "isend", "bsend"])})
    if planted:
        np_, thresh, det, mode = 2, 256, 1024, planted[0]
        msgs = [{"mid": i, "src": 1, "dst": 0, "tag": t, "size": s, "kind": "isend"} for i, (t, s) in enumerate(planted[1])]
        n = len(msgs)
    maxsz = max(m["size"] for m in msgs)
    mixed = rng.chance(1, 6)
    for i, m in enumerate(msgs):
        f = filt(mode, m)
        rcvs.append({"rid": i, "rank": 0, "src": f[0], "tag": f[1], "buf": rng.choice([maxsz, maxsz, m["size"], 17]) if mixed and not planted else maxsz})
    rng.shuffle(rcvs) if not planted else None
    # slots: all sends, and each post either interleaved or after the sends
    events = [("s", m) for m in msgs]
    posts = [("p", r) for r in rcvs]
    late = planted is not None or rng.chance(1, 2)
    if late:
        events = events + posts
    else:
        for p in posts:
            events.insert(rng.below(len(events) + 1), p)
        # keep the relative order of the posts = rcvs order
        it = iter(posts)
        events = [e if e[0] == "s" else next(it) for e in events]
    script = {r: [] for r in range(np_)}
    last = {r: 0 for r in range(np_)}
    sord = {r: 0 for r in range(np_)}
    seqs = {}
    pord = 0
    for slot, (k, x) in enumerate(events, 1):
        r = x["src"] if k == "s" else 0
        script[r].append("sleep %d" % ((slot - last[r]) * 5))
        last[r] = slot
        if k == "s":
            key = (x["src"], x["dst"], x["tag"])
            x["seq"] = seqs.get(key, 0)
            seqs[key] = x["seq"] + 1
            x["sord"] = sord[r]
            sord[r] += 1
            script[r].append("%s %d %d %d %d %d" % (x["kind"], x["mid"], 0, x["tag"], x["size"], x["seq"]))
        else:
            x["pord"] = pord
            pord += 1
            script[0].append("irecv %d %d %d %d" % (x["rid"], x["src"], x["tag"], x["buf"]))
    for r in range(np_):
        script[r].append("waitall")
    h = [(k, x["mid"] if k == "s" else x["rid"]) for (k, x) in events]
    return {"kind": "staged", "np": np_, "thresh": thresh, "det": det, "msgs": msgs, "rcvs": rcvs, "script": script, "h": h}


def query(p):
    t = ["%d %d %d" % (p["np"], p["thresh"], p["det"])]
    for m in p["msgs"]:
        t.append("m %d %d %d %d %d %d %d" % (m["mid"], m["src"], m["dst"], m["tag"], m["size"], m["seq"], m["sord"]))
    for r in p["rcvs"]:
        t.append("r %d %d %d %d %d %d" % (r["rid"], r["rank"], r["src"], r["tag"], r["buf"], r["pord"]))
    if p["h"]:
        t.append("h 0 " + " ".join("%s %d" % e for e in p["h"]))
    return " ".join(t)


def trunc_below_thresh(p):
    """a receive whose buffer is below the eager threshold faces a compatible message at or above it"""
    return p["thresh"] > 0 and any(
        r["buf"] < p["thresh"] <= m["size"] and r["rank"] == m["dst"] and r["src"] in (-1, m["src"]) and r["tag"] in (-1, m["tag"])
        for r in p["rcvs"] for m in p["msgs"])


def has_probe(p):
    return any(("iprecv" in l or "precv" in l) for r in range(p["np"]) for l in p["script"][r])


class Runner:
    def __init__(self, ctx, h):
        self.ctx, self.h = ctx, h
        self.dir = os.path.join(ctx.work, "runs-%s-%d" % (ctx.tier, os.getpid()))
        os.makedirs(self.dir, exist_ok=True)
        self.plat = os.path.join(self.dir, "plat.xml")
        with open(self.plat, "w") as fh:
            fh.write("<?xml version='1.0'?>\n<!DOCTYPE platform SYSTEM \"https://simgrid.org/simgrid.dtd\">\n"
                     "<platform version=\"4.1\">\n  <cluster id=\"c\" prefix=\"h\" suffix=\"\" radical=\"0-5\" "
                     "speed=\"1Gf\" bw=\"125MBps\" lat=\"50us\"/>\n</platform>\n")
        self.hosts = os.path.join(self.dir, "hosts")
        with open(self.hosts, "w") as fh:
            fh.write("".join("h%d\n" % i for i in range(6)))
        self.smpimain = os.path.join(core.SGBUILD, "lib", "simgrid", "smpimain")
        self.env = dict(os.environ)
        self.env.update(ctx.sg_env())

    def run(self, k, p, timeout=120):
        rc, logs, errs, err = self.run1(k, p, timeout)
        if rc == -999 and not (trunc_below_thresh(p) and has_probe(p)):
            # a loaded machine is not a livelock: once more with a long timeout (not for the programs that are
            # known to livelock: a stuck truncating receive + a rank polling with Iprobe/Probe, see trunc_below_thresh)
            rc, logs, errs, err = self.run1(k, p, 900)
        return rc, logs, errs, err

    def run1(self, k, p, timeout):
        sf = os.path.join(self.dir, "script-%s.txt" % k)
        with open(sf, "w") as fh:
            # interleave the ranks' scripts line by line (each rank only reads its own lines)
            for r in range(p["np"]):
                for l in p["script"][r]:
                    fh.write("%d %s\n" % (r, l))
        cmd = [self.smpimain, self.h, "--cfg=smpi/privatization:no", "--cfg=smpi/np:%d" % p["np"],
               "--cfg=smpi/hostfile:" + self.hosts, "--cfg=precision/timing:1e-9", "--cfg=network/model:SMPI",
               "--cfg=smpi/async-small-thresh:%d" % p["thresh"], "--cfg=smpi/send-is-detached-thresh:%d" % p["det"],
               "--log=root.thres:critical", self.plat, sf]
        try:
            for attempt in range(180):
                try:      # the shared build may be relinking smpimain/libsimgrid right now (another check's ninja): retry
                    q = subprocess.run(cmd, capture_output=True, text=True, timeout=timeout, env=self.env, cwd=self.dir)
                    if q.returncode == 127 or "error while loading shared libraries" in q.stderr:
                        raise OSError(q.stderr[-200:])
                    break
                except OSError:
                    if attempt == 179:
                        raise core.InfraError("cannot execute smpimain")
                    time.sleep(5)
            rc, out, err = q.returncode, q.stdout, q.stderr
        except subprocess.TimeoutExpired:
            rc, out, err = -999, "", "TIMEOUT"
        os.unlink(sf)
        logs = ["l " + " ".join(l.split()[1:]) for l in out.split("\n") if l.startswith("L ")]
        errs = [l for l in out.split("\n") if l.startswith("E ")]
        return rc, logs, errs, err[-1500:]


def key_of(verdict):
    """classification key from the monitor's message (a predicate on the witness)"""
    w = verdict.split("=>", 1)[1].split()
    if w[0] == "overtake":
        return "overtake-%s-%s-%s" % (w[1], w[2], w[3].rstrip(":"))
    return {"exact:": "exactness", "truncate:": "truncation-not-reported", "match:": "incompatible-match"}.get(w[0], "log-incomplete")


def run(ctx):
    ctx.cov["rule"] = ("one case = one generated MPI program (2..6 ranks, 1..3 barrier-separated phases of 1..9 messages, or a "
                       "'staged' single-destination program with a forced event order); non-trivial = distinct program with "
                       ">= 2 messages to one destination whose log was produced by the library and judged by the monitor")
    ctx.assumptions += ["the order of MPI calls inside a process is its script order (single-threaded ranks)",
                        "staged programs: a send/post reaches the matching engine in its 5 ms slot (transfers are far shorter)",
                        "the mechanism model ignores the done-queue / comm-queue split of the permanent-receiver mailbox (merged into one FIFO)"]
    ctx.ensure_simgrid(["simgrid", "smpimain"])
    ctx.lean_prove()
    drv = ctx.lean_exe()
    h = ctx.build_harness("harness.c", smpi=True, lang="c")
    if not (drv and h):
        return
    R = Runner(ctx, h)
    rng = SplitMix(ctx.seed)
    progs = []
    if ctx.replay:
        progs = [json.load(open(ctx.replay))["case"]["program"]]
        for p in progs:
            p["script"] = {int(k): v for k, v in p["script"].items()}
    else:
        for l in open(os.path.join(ctx.pdir, "corpus.txt")):
            l = l.split("#")[0].strip()
            if l:
                mode, rest = l.split(":", 1)
                pl = [tuple(int(x) for x in t.split("/")) for t in rest.split()]
                progs.append(gen_staged(rng.fork(len(progs)), planted=(mode.strip(), pl)))
        n = 200 if ctx.tier == "quick" else 4000
        if ctx.broken:
            n *= 5
        for i in range(n):
            g = rng.fork(1000 + i)
            progs.append(gen_staged(g) if i % 3 == 0 else gen_phased(g))
    t0 = time.time()
    with ThreadPoolExecutor(8 if ctx.tier == "quick" else 10) as ex:
        outs = list(ex.map(lambda kp: R.run(kp[0], kp[1]), list(enumerate(progs))))
    ctx.timings["harness_runs_s"] = round(time.time() - t0, 2)
    lines, idx = [], []
    kinds, kinds_fail = {}, {}
    for i, (p, (rc, logs, errs, err)) in enumerate(zip(progs, outs)):
        ctx.cov["evaluations"] += 1
        kinds[p["kind"]] = kinds.get(p["kind"], 0) + 1
        if rc != 0 or errs or "eadlock" in err:
            sym = "deadlock" if "eadlock" in err else "timeout" if rc == -999 else "senderror" if errs else "exit%d" % rc
            if sym == "deadlock" and trunc_below_thresh(p):
                sym = "deadlock-truncating-recv-below-eager-thresh"
            elif sym == "timeout" and trunc_below_thresh(p) and has_probe(p):
                # the same defect in its livelock form (diagnosed with gdb on the seed-3 program): the receive posted
                # with a buffer below the threshold sits in the small mailbox, the matching send >= threshold blocks in
                # the large one, and another rank polling with MPI_Iprobe/MPI_Probe keeps the simulation alive (each
                # failed probe sleeps a growing amount), so no deadlock is ever reported
                sym = "deadlock-truncating-recv-below-eager-thresh"
            kinds_fail[sym] = kinds_fail.get(sym, 0) + 1
            ctx.violation("generated (deadlock-free by construction) program did not complete: %s %s" % (sym, (errs or [err[-300:]])[0]),
                          {"program": p, "rc": rc, "stderr": err[-800:]}, key="program-" + sym)
            continue
        lines.append(query(p) + " => " + " ".join(logs))
        idx.append(i)
    rc, verdicts, err = ctx.run_lines([drv], lines, timeout=1200)
    if rc != 0 or not verdicts or verdicts[-1] != "END %d" % len(lines):
        ctx.broken.append({"kind": "driver-run", "rc": rc, "stderr": err[-1500:]})
        return
    seen = set()
    keys = {}
    for i, l, v in zip(idx, lines, verdicts):
        p = progs[i]
        q = l.split(" =>")[0]
        if q not in seen:
            seen.add(q)
            bydst = {}
            for m in p["msgs"]:
                bydst[m["dst"]] = bydst.get(m["dst"], 0) + 1
            if max(bydst.values()) >= 2:
                ctx.cov["distinct_nontrivial"] += 1
        if v == "ok":
            ctx.cov["traces_validated_against_impl"] += 1
        elif v.startswith("MONFAIL"):
            k = key_of(v)
            keys[k] = keys.get(k, 0) + 1
            ctx.violation(v[:700], {"program": p, "line": l[:3000], "verdict": v[:900]}, key=k)
        else:
            # the mechanism model pairs differently from the library although the log satisfies the property
            ctx.broken.append({"kind": "correspondence", "verdict": v[:600], "line": l[:1500]})
    ctx.cov["distribution"] = kinds
    keys.update({"program-" + k: v for k, v in kinds_fail.items()})
    ctx.cov["failing_keys"] = keys
    ctx.cov["configs"] = CONFIGS
    ctx.cov["samples"] = [l[:400] for l in lines[:2] + lines[-2:]]
