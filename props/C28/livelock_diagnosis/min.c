/* D1: SMPI livelock (never-ending simulation) -- minimal form of C28 seed 3 `program-timeout` (violation0-3.json).
 *
 * build: /verif/.cache/sgbuild/smpi_script/bin/smpicc -O1 -g min.c -o min            (add -DBLOCKING for the deadlock variant)
 * run  : cd /tmp/seed-out/D1   (plat.xml = cluster h0..h5 1Gf 125MBps 50us, hosts = h0..h5, as written by props/C28/check.py)
 *        LD_LIBRARY_PATH=/verif/.cache/sgbuild/lib timeout 20 /verif/.cache/sgbuild/lib/simgrid/smpimain /tmp/seed-out/D1/min \
 *          --cfg=smpi/privatization:no --cfg=smpi/np:2 --cfg=smpi/hostfile:/tmp/seed-out/D1/hosts --cfg=precision/timing:1e-9 \
 *          --cfg=network/model:SMPI --cfg=smpi/async-small-thresh:256 --cfg=smpi/send-is-detached-thresh:256 \
 *          --log=root.thres:critical /tmp/seed-out/D1/plat.xml
 *   (equivalently: smpirun -np 2 -hostfile hosts -platform plat.xml --cfg=smpi/async-small-thresh:256
 *                  --cfg=smpi/send-is-detached-thresh:256 ./min)
 *
 * MPI semantics: the Irecv (17-byte buffer) matches the 257-byte message and completes with MPI_ERR_TRUNCATE; the program ends.
 * SMPI: the Irecv (buffer < async-small-thresh) waits in mailbox "small-2"; the 257-byte MPI_Send (>= thresh, and
 *   >= send-is-detached-thresh so it blocks) is queued in the large mailbox "SMPI-2" without looking at the small one: they never meet
 *   (known finding C28 program-deadlock-truncating-recv-below-eager-thresh).  With -DBLOCKING SimGrid reports "Deadlock detected".
 *   With the MPI_Iprobe loop every failed MPI_Iprobe executes nsleeps*1e-4 s of computation (smpi/iprobe, nsleeps grows), so there
 *   is always a running activity: no deadlock is ever detected, the simulated clock runs away (1.6e10 s after 5 min) and the
 *   process spins CPU-bound for ever.  Same behaviour with the build of 2026-09-21 23:36 (/repo/_build, before all suspect fixes).
 */
#include <mpi.h>
#include <stdio.h>
#include <unistd.h>

int main(int argc, char** argv)
{
  int rank;
  static char big[512], small[64], other[64];
  MPI_Init(&argc, &argv);
  MPI_Comm_rank(MPI_COMM_WORLD, &rank);
  MPI_Comm_set_errhandler(MPI_COMM_WORLD, MPI_ERRORS_RETURN);
  if (rank == 0) {
    usleep(2000);                                          /* let rank 1 post its receive first */
    MPI_Send(big, 257, MPI_BYTE, 1, 2, MPI_COMM_WORLD);    /* blocks for ever */
    MPI_Send(other, 40, MPI_BYTE, 1, 0, MPI_COMM_WORLD);
  } else if (rank == 1) {
    MPI_Request r;
    MPI_Status st;
    MPI_Irecv(small, 17, MPI_BYTE, 0, 2, MPI_COMM_WORLD, &r);
#ifndef BLOCKING
    int flag = 0;
    while (!flag) {                                        /* never ends */
      MPI_Iprobe(0, 0, MPI_COMM_WORLD, &flag, &st);
      if (!flag)
        usleep(100);
    }
#endif
    MPI_Recv(other, 41, MPI_BYTE, 0, 0, MPI_COMM_WORLD, &st);
    int rc = MPI_Wait(&r, &st);
    printf("rank 1 done: wait rc=%d (MPI_ERR_TRUNCATE=%d)\n", rc, MPI_ERR_TRUNCATE);
  }
  MPI_Finalize();
  return 0;
}
