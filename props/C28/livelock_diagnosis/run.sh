#!/bin/sh
# usage: run.sh <builddir> <harness> <np> <thresh> <det> <script> [timeout]
B=$1; H=$2; NP=$3; T=$4; D=$5; S=$6; TO=${7:-20}
cd /tmp/seed-out/D1
LD_LIBRARY_PATH=$B/lib timeout $TO $B/lib/simgrid/smpimain $H --cfg=smpi/privatization:no --cfg=smpi/np:$NP --cfg=smpi/hostfile:/tmp/seed-out/D1/hosts --cfg=precision/timing:1e-9 --cfg=network/model:SMPI --cfg=smpi/async-small-thresh:$T --cfg=smpi/send-is-detached-thresh:$D --log=root.thres:critical /tmp/seed-out/D1/plat.xml $S
echo "rc=$?"
