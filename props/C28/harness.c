/* C28 harness: MPI point-to-point interpreter (run by smpimain like smpirun does).
 * argv[1] = script file; every line `<rank> <op> <args>`; a rank executes its own lines in file order.
 *   irecv  rid src tag buf            MPI_Irecv (src/tag -1 = MPI_ANY_SOURCE / MPI_ANY_TAG), buf = buffer size in bytes
 *   isend  mid dst tag size seq       MPI_Isend
 *   send|ssend|bsend mid dst tag size seq
 *   recv   rid src tag buf
 *   precv  rid src tag buf            MPI_Probe(src,tag) then MPI_Recv(status.MPI_SOURCE, status.MPI_TAG)
 *   iprecv rid src tag buf            MPI_Iprobe until flag, then MPI_Recv(status.MPI_SOURCE, status.MPI_TAG)
 *   sendrecv mid dst stag size seq rid src rtag buf
 *   waitall                           MPI_Wait on every outstanding request, in posting order
 *   barrier | sleep <ms>
 * Every message starts with 4 ints (sender, tag, seq = number of earlier messages of this (sender,dest,tag), mid) and
 * is filled with the byte (mid*7+i)&0x7f.  For every completed receive one line:
 *   L rank rid source tag count err psrc ptag pseq pmid pbad probesrc probetag probecount
 * err: 0 | T (MPI_ERR_TRUNCATE) | <code>;  pbad = number of payload bytes that differ from the pattern (within count).
 */
#include <mpi.h>
#include <stdio.h>
#include <stdlib.h>
#include <string.h>
#include <unistd.h>

#define MAXREQ 4096
typedef struct { MPI_Request req; int is_recv; long rid; char* buf; int bufsz; } Pending;

static void fill(char* b, int size, int me, int tag, int seq, int mid)
{
  for (int i = 0; i < size; i++) b[i] = (char)((mid * 7 + i) & 0x7f);
  if (size >= 16) { int h[4] = {me, tag, seq, mid}; memcpy(b, h, 16); }
}

static void logrecv(int rank, long rid, const char* buf, int bufsz, int rc, MPI_Status* st, const int* probe)
{
  int count = -1;
  MPI_Get_count(st, MPI_BYTE, &count);
  int h[4] = {-1, -1, -1, -1};
  if (count >= 16 || (rc != MPI_SUCCESS && bufsz >= 16)) memcpy(h, buf, 16);
  int bad = 0;
  int n = count < bufsz ? count : bufsz;
  for (int i = 16; i < n; i++)
    if (buf[i] != (char)((h[3] * 7 + i) & 0x7f)) bad++;
  char e[16];
  if (rc == MPI_SUCCESS) strcpy(e, "0");
  else if (rc == MPI_ERR_TRUNCATE) strcpy(e, "T");
  else snprintf(e, sizeof e, "%d", rc);
  printf("L %d %ld %d %d %d %s %d %d %d %d %d %d %d %d\n", rank, rid, st->MPI_SOURCE, st->MPI_TAG, count, e, h[0], h[1], h[2],
         h[3], bad, probe ? probe[0] : -2, probe ? probe[1] : -2, probe ? probe[2] : -2);
}

int main(int argc, char** argv)
{
  MPI_Init(&argc, &argv);
  int rank, np;
  MPI_Comm comm = MPI_COMM_WORLD;
  MPI_Comm_rank(comm, &rank);
  MPI_Comm_size(comm, &np);
  MPI_Comm_set_errhandler(comm, MPI_ERRORS_RETURN);
  int bsz   = 4 << 20;
  void* bb  = malloc(bsz);
  MPI_Buffer_attach(bb, bsz);
  Pending* pend = calloc(MAXREQ, sizeof(Pending));
  int npend     = 0;
  FILE* f       = fopen(argv[1], "r");
  if (!f) { fprintf(stderr, "cannot open script\n"); MPI_Abort(comm, 3); }
  char line[512], op[32];
  while (fgets(line, sizeof line, f)) {
    int who, off = 0;
    if (sscanf(line, "%d %31s %n", &who, op, &off) < 2 || who != rank) continue;
    const char* a = line + off;
    long rid, mid;
    int src, dst, tag, size, seq, buf, rtag;
    if (!strcmp(op, "irecv") && sscanf(a, "%ld %d %d %d", &rid, &src, &tag, &buf) == 4) {
      Pending* p = &pend[npend++];
      p->is_recv = 1; p->rid = rid; p->bufsz = buf; p->buf = malloc(buf + 16);
      memset(p->buf, 0x55, buf + 16);
      MPI_Irecv(p->buf, buf, MPI_BYTE, src < 0 ? MPI_ANY_SOURCE : src, tag < 0 ? MPI_ANY_TAG : tag, comm, &p->req);
    } else if (!strcmp(op, "isend") && sscanf(a, "%ld %d %d %d %d", &mid, &dst, &tag, &size, &seq) == 5) {
      Pending* p = &pend[npend++];
      p->is_recv = 0; p->buf = malloc(size + 16);
      fill(p->buf, size, rank, tag, seq, (int)mid);
      MPI_Isend(p->buf, size, MPI_BYTE, dst, tag, comm, &p->req);
    } else if ((!strcmp(op, "send") || !strcmp(op, "ssend") || !strcmp(op, "bsend")) &&
               sscanf(a, "%ld %d %d %d %d", &mid, &dst, &tag, &size, &seq) == 5) {
      char* b = malloc(size + 16);
      fill(b, size, rank, tag, seq, (int)mid);
      int rc = op[0] == 'b' ? MPI_Bsend(b, size, MPI_BYTE, dst, tag, comm)
                            : op[1] == 's' ? MPI_Ssend(b, size, MPI_BYTE, dst, tag, comm) : MPI_Send(b, size, MPI_BYTE, dst, tag, comm);
      if (rc != MPI_SUCCESS) printf("E %d send %ld rc %d\n", rank, mid, rc);
      free(b);
    } else if ((!strcmp(op, "recv") || !strcmp(op, "precv") || !strcmp(op, "iprecv")) &&
               sscanf(a, "%ld %d %d %d", &rid, &src, &tag, &buf) == 4) {
      char* b = malloc(buf + 16);
      memset(b, 0x55, buf + 16);
      MPI_Status st;
      int probe[3], *pp = NULL;
      int s = src < 0 ? MPI_ANY_SOURCE : src, t = tag < 0 ? MPI_ANY_TAG : tag;
      if (op[0] != 'r') {
        MPI_Status ps;
        if (op[0] == 'p') MPI_Probe(s, t, comm, &ps);
        else {
          int flag = 0;
          while (!flag) { MPI_Iprobe(s, t, comm, &flag, &ps); if (!flag) usleep(100); }
        }
        probe[0] = ps.MPI_SOURCE; probe[1] = ps.MPI_TAG;
        MPI_Get_count(&ps, MPI_BYTE, &probe[2]);
        pp = probe; s = ps.MPI_SOURCE; t = ps.MPI_TAG;
      }
      int rc = MPI_Recv(b, buf, MPI_BYTE, s, t, comm, &st);
      logrecv(rank, rid, b, buf, rc, &st, pp);
      free(b);
    } else if (!strcmp(op, "sendrecv") &&
               sscanf(a, "%ld %d %d %d %d %ld %d %d %d", &mid, &dst, &tag, &size, &seq, &rid, &src, &rtag, &buf) == 9) {
      char* sb = malloc(size + 16);
      char* rb = malloc(buf + 16);
      memset(rb, 0x55, buf + 16);
      fill(sb, size, rank, tag, seq, (int)mid);
      MPI_Status st;
      int rc = MPI_Sendrecv(sb, size, MPI_BYTE, dst, tag, rb, buf, MPI_BYTE, src < 0 ? MPI_ANY_SOURCE : src,
                            rtag < 0 ? MPI_ANY_TAG : rtag, comm, &st);
      logrecv(rank, rid, rb, buf, rc, &st, NULL);
      free(sb); free(rb);
    } else if (!strcmp(op, "waitall")) {
      for (int i = 0; i < npend; i++) {
        MPI_Status st;
        int rc = MPI_Wait(&pend[i].req, &st);
        if (pend[i].is_recv) logrecv(rank, pend[i].rid, pend[i].buf, pend[i].bufsz, rc, &st, NULL);
        else if (rc != MPI_SUCCESS) printf("E %d wait-send rc %d\n", rank, rc);
        free(pend[i].buf);
      }
      npend = 0;
    } else if (!strcmp(op, "barrier")) {
      MPI_Barrier(comm);
    } else if (!strcmp(op, "sleep") && sscanf(a, "%d", &size) == 1) {
      usleep(size * 1000);
    } else {
      fprintf(stderr, "rank %d: bad script line: %s", rank, line);
      MPI_Abort(comm, 3);
    }
  }
  fclose(f);
  fflush(stdout);
  int sz;
  MPI_Buffer_detach(&bb, &sz);
  MPI_Finalize();
  return 0;
}
