// C43: one small S4U program per observable simcall kind, run under simgrid-mc by check.py (20 s wall limit).
// usage: prog <kind> <p1> <p2>      p1,p2: small random parameters from the generator (counts, capacities, sizes)
// Every scenario terminates without deadlock when the model checker decodes the transitions correctly: exit code 0.
#include <simgrid/modelchecker.h>
#include <simgrid/s4u.hpp>
#include <string>
#include <vector>

namespace sg4 = simgrid::s4u;
static int P1 = 1, P2 = 1;

static void mutex_kind(bool trylock)
{
  auto mtx = sg4::Mutex::create();
  int shared = 0;
  std::vector<sg4::ActorPtr> as;
  for (int i = 0; i < 2; i++)
    as.push_back(sg4::Actor::create("w", sg4::this_actor::get_host(), [mtx, &shared, trylock]() {
      for (int k = 0; k < P1; k++) {
        if (trylock) {
          if (mtx->try_lock()) {
            shared++;
            mtx->unlock();
          }
        } else {
          mtx->lock();
          shared++;
          mtx->unlock();
        }
      }
    }));
  for (auto& a : as)
    a->join();
}

static void sem_kind()
{
  auto sem = sg4::Semaphore::create(P2);
  std::vector<sg4::ActorPtr> as;
  for (int i = 0; i < 2; i++)
    as.push_back(sg4::Actor::create("w", sg4::this_actor::get_host(), [sem]() {
      for (int k = 0; k < P1; k++) {
        sem->acquire();
        sem->release();
      }
    }));
  for (auto& a : as)
    a->join();
}

static void barrier_kind()
{
  auto bar = sg4::Barrier::create(2);
  auto a   = sg4::Actor::create("w", sg4::this_actor::get_host(), [bar]() {
    for (int k = 0; k < P1; k++)
      bar->wait();
  });
  for (int k = 0; k < P1; k++)
    bar->wait();
  a->join();
}

static void condvar_kind(bool broadcast)
{
  auto mtx  = sg4::Mutex::create();
  auto cv   = sg4::ConditionVariable::create();
  bool flag = false;
  int nw    = broadcast ? 2 : 1;
  std::vector<sg4::ActorPtr> as;
  for (int i = 0; i < nw; i++)
    as.push_back(sg4::Actor::create("waiter", sg4::this_actor::get_host(), [mtx, cv, &flag]() {
      std::unique_lock lock(*mtx);
      while (not flag)
        cv->wait(lock);
    }));
  {
    std::unique_lock lock(*mtx);
    flag = true;
    if (broadcast)
      cv->notify_all();
    else
      cv->notify_one();
  }
  for (auto& a : as)
    a->join();
}

static void comm_kind(const std::string& how)
{
  auto* mb = sg4::Mailbox::by_name("mb" + std::to_string(P2));
  int n    = P1;
  auto r   = sg4::Actor::create("recv", sg4::this_actor::get_host(), [mb, n, how]() {
    if (how == "waitany" || how == "testany") {
      sg4::ActivitySet set;
      std::vector<int*> bufs(n);
      for (int k = 0; k < n; k++)
        set.push(mb->get_async<int>(&bufs[k]));
      while (not set.empty()) {
        if (how == "waitany") {
          set.wait_any();
        } else {
          // bounded polling (an unbounded test loop is an infinite state space), then block
          bool got = false;
          for (int t = 0; t < 2 && not got; t++)
            got = set.test_any() != nullptr;
          if (not got)
            set.wait_any();
        }
      }
      for (auto* b : bufs)
        delete b;
      return;
    }
    for (int k = 0; k < n; k++) {
      int* buf      = nullptr;
      sg4::CommPtr c = mb->get_async<int>(&buf);
      if (how == "test") {
        bool done = false;
        for (int t = 0; t < 2 && not done; t++)
          done = c->test();
        if (not done)
          c->wait();
      } else {
        c->wait();
      }
      delete buf;
    }
  });
  for (int k = 0; k < n; k++) {
    sg4::CommPtr c = mb->put_async(new int(k), 8);
    c->wait();
  }
  r->join();
}

static void actor_kind()
{
  std::vector<sg4::ActorPtr> as;
  for (int i = 0; i < 1 + P1 % 2; i++)
    as.push_back(sg4::Actor::create("child", sg4::this_actor::get_host(), []() {
      sg4::this_actor::sleep_for(1 + P2);
      auto g = sg4::Actor::create("grandchild", sg4::this_actor::get_host(), []() { sg4::this_actor::sleep_for(1); });
      g->join();
    }));
  for (auto& a : as)
    a->join();
}

static void random_kind()
{
  int v = MC_random(0, P1);
  int w = MC_random(-P2, P2);
  MC_assert(v >= 0 && v <= P1 && w >= -P2 && w <= P2);
  auto a = sg4::Actor::create("r", sg4::this_actor::get_host(), []() { MC_assert(MC_random(3, 3 + P1) >= 3); });
  a->join();
}

// One execution that goes through every synchronisation kind, on objects whose ids are all different and non-zero
// (dummy objects are created first: the id counters of mutexes, condvars, semaphores and barriers all start at 0, and
// a checker that mixes up two ids of the same wire type cannot be seen when they are equal).  The main actor ends with
// a failing assertion: simgrid-mc prints the textual trace of that execution (the checker-side description of every
// transition) and its replay path; check.py replays the path in the application (RecordTrace::replay prints the
// application-side observer of every step) and compares the two descriptions step by step.
// p1 = d_mutex + 8 * d_cond + 64 * d_sem + 512 * d_barrier (numbers of dummies), p2 = capacity of the second semaphore
static void synchro_desc_kind()
{
  std::vector<sg4::MutexPtr> dm;
  std::vector<sg4::ConditionVariablePtr> dc;
  std::vector<sg4::SemaphorePtr> ds;
  std::vector<sg4::BarrierPtr> db;
  for (int i = 0; i < (P1 & 7); i++)
    dm.push_back(sg4::Mutex::create());
  for (int i = 0; i < ((P1 >> 3) & 7); i++)
    dc.push_back(sg4::ConditionVariable::create());
  for (int i = 0; i < ((P1 >> 6) & 7); i++)
    ds.push_back(sg4::Semaphore::create(1));
  for (int i = 0; i < ((P1 >> 9) & 7); i++)
    db.push_back(sg4::Barrier::create(2));
  auto mtx  = sg4::Mutex::create();
  auto cv   = sg4::ConditionVariable::create();
  auto sem  = sg4::Semaphore::create(0);
  auto bar  = sg4::Barrier::create(2);
  dc.push_back(sg4::ConditionVariable::create()); // the second round uses yet other ids
  auto mtx2 = sg4::Mutex::create();
  dm.push_back(sg4::Mutex::create());
  auto cv2  = sg4::ConditionVariable::create();
  auto sem2 = sg4::Semaphore::create(P2);
  auto w    = sg4::Actor::create("waiter", sg4::this_actor::get_host(), [=]() {
    mtx->lock();
    sem->release(); // "I hold the mutex": the notifier cannot signal before the wait below is registered
    cv->wait(mtx);
    mtx->unlock();
    bar->wait();
    sem2->acquire();
    mtx2->lock();
    sem->release();
    cv2->wait_for(mtx2, 10.0);
    mtx2->unlock();
    if (mtx->try_lock())
      mtx->unlock();
    sem2->release();
  });
  sem->acquire();
  mtx->lock();
  cv->notify_one();
  mtx->unlock();
  bar->wait();
  sem->acquire();
  mtx2->lock();
  cv2->notify_all();
  mtx2->unlock();
  w->join();
  MC_assert(false); // forces the report of this execution
}

static void mess_kind()
{
  auto* mq = sg4::MessageQueue::by_name("control");
  int n    = P1;
  auto r   = sg4::Actor::create("getter", sg4::this_actor::get_host(), [mq, n]() {
    for (int k = 0; k < n; k++) {
      int* got = mq->get<int>();
      delete got;
    }
  });
  for (int k = 0; k < n; k++)
    mq->put(new int(k));
  r->join();
}

int main(int argc, char* argv[])
{
  sg4::Engine e(&argc, argv);
  xbt_assert(argc >= 4, "usage: prog <kind> <p1> <p2>");
  std::string kind = argv[1];
  P1               = std::stoi(argv[2]);
  P2               = std::stoi(argv[3]);
  auto* zone       = e.get_netzone_root();
  auto* h          = zone->add_host("h0", 1e9);
  zone->seal();
  sg4::Actor::create("main", h, [kind]() {
    if (kind == "mutex")
      mutex_kind(false);
    else if (kind == "trylock")
      mutex_kind(true);
    else if (kind == "sem")
      sem_kind();
    else if (kind == "barrier")
      barrier_kind();
    else if (kind == "condvar_signal")
      condvar_kind(false);
    else if (kind == "condvar_broadcast")
      condvar_kind(true);
    else if (kind == "comm_wait")
      comm_kind("wait");
    else if (kind == "comm_test")
      comm_kind("test");
    else if (kind == "waitany")
      comm_kind("waitany");
    else if (kind == "testany")
      comm_kind("testany");
    else if (kind == "actor")
      actor_kind();
    else if (kind == "random")
      random_kind();
    else if (kind == "mess")
      mess_kind();
    else if (kind == "synchro_desc")
      synchro_desc_kind();
    else
      xbt_die("unknown kind %s", kind.c_str());
  });
  e.run();
  return 0;
}
