"""C43 — checker and application agree on every transition (the serialisation codec).

translator      gen.py: pack<T> sequences of every *Observer::serialize (clang-14 AST for implicit T) and unpack<T>
                sequences of every transition channel-constructor -> lean/SgVerif/C43/Gen.lean
proofs          Props.lean: codec_roundtrip (generic), compatible_transfer / agree_decodes, schemas_agree_partial (table),
                counterexamples for the entries that do not agree
correspondence  (1) harness.cpp: real observers on real kernel objects serialised into a socketpair Channel, real
                deserialize_transition on the other end; the Lean driver decodes the *real bytes* with the generated app
                schema and with the generated checker schema and compares with the real checker's to_string; the
                harness also prints what the application did (ids of the objects the observer was built on, all
                different and non-zero) and the checker's description must say the same, name by name
                (2) prog.cpp: one S4U program per simcall kind under simgrid-mc, 20 s wall limit
                (3) prog.cpp synchro_desc: an execution through every synchronisation kind on objects with pairwise
                different non-zero ids; the textual trace printed by simgrid-mc (checker-side description of every
                transition) against the application-side observers of the same path (RecordTrace::replay), step by step
"""
import json
import os
import re
import shutil
import subprocess
import time
import importlib.util

from vlib import core
from vlib.core import SplitMix, LEAN

_here = os.path.dirname(os.path.abspath(__file__))
_spec = importlib.util.spec_from_file_location("c43_gen", os.path.join(_here, "gen.py"))
gen = importlib.util.module_from_spec(_spec)
_spec.loader.exec_module(gen)
GDIR = os.path.join(LEAN, "SgVerif", "C43")

KEY_MESS = "messqueue-observers-serialised-as-comm"
KEY_SEM = "sem-wait-capacity-signedness"
KEY_TESTANY = "testany-times-considered-indexes-all-members"


def run_translator(ctx):
    cur = os.path.join(GDIR, "Gen.lean")
    acc = os.path.join(GDIR, "accepted", "Gen.lean")
    try:
        text, info = gen.translate(os.environ.get("VERIF_REPO", "/repo"), core.SGBUILD, os.path.join(core.CACHE, "c43-ast"))
        if not os.path.exists(cur) or open(cur).read() != text:
            with open(cur, "w") as fh:
                fh.write(text)
        if os.path.exists(acc) and open(acc).read() != text:
            import difflib
            d = [l for l in difflib.unified_diff(open(acc).read().split("\n"), text.split("\n"), "accepted", "now", lineterm="", n=0)
                 if not l.startswith("@@")]
            ctx.notes.append("Gen.lean differs from the last accepted copy: " + " ; ".join(x[:160] for x in d[:10]))
        ctx.cov["app_entries"] = len(info["app"])
        ctx.cov["checker_kinds_with_schema"] = len([k for k, v in info["checker"].items() if v is not None])
        return info
    except gen.TranslationError as e:
        ctx.broken.append({"kind": "translator", "error": str(e),
                           "meaning": "a serialize body / channel constructor left the subset the translator understands"})
        if os.path.exists(acc) and not os.path.exists(cur):
            shutil.copy(acc, cur)
        return None


# ---- to_string of the decoded transition -> values in wire order ("_" = not printed)
def yn(s):
    return "1" if s in ("yes", "timeout", "sender side") else "0"


def parse_member(s):
    m = re.fullmatch(r"TestComm\(from (-?\d+) to (-?\d+), mbox=(\d+)\)", s)
    if m:
        return ["_", m.group(1), m.group(2), m.group(3)]
    m = re.fullmatch(r"WaitComm\(from (-?\d+) to (-?\d+), mbox=(\d+), (timeout|no timeout), comm=(\d+)\)", s)
    if m:
        return [yn(m.group(4)), m.group(5), m.group(1), m.group(2), m.group(3)]
    return None


def parse_to_string(s):
    s = s.strip()
    m = re.fullmatch(r"MUTEX_\w+\(mutex: ([0-9a-f]+), owner: (-?\d+)\)", s)
    if m:
        return [str(int(m.group(1), 16)), m.group(2)]
    m = re.fullmatch(r"SEM_(?:ASYNC_LOCK|UNLOCK)\(semaphore: (\d+), capacity: (-?\d+)\)", s)
    if m:
        return [m.group(1), "_", m.group(2)]
    m = re.fullmatch(r"SEM_WAIT\(semaphore: (\d+), capacity: (-?\d+), granted: (yes|no)\)", s)
    if m:
        return [m.group(1), yn(m.group(3)), m.group(2)]
    m = re.fullmatch(r"BARRIER_\w+\(barrier: (\d+)\)", s)
    if m:
        return [m.group(1)]
    m = re.fullmatch(r"CONDVAR_ASYNC_LOCK\(cond: (\d+), mutex: (\d+)\)", s)
    if m:
        return [m.group(1), m.group(2)]
    m = re.fullmatch(r"CONDVAR_WAIT\(cond: (\d+), mutex: (\d+), granted: (yes|no), timeout: (yes|none)\)", s)
    if m:
        return [m.group(1), m.group(2), yn(m.group(3)), yn(m.group(4))]
    m = re.fullmatch(r"CONDVAR_(?:SIGNAL|BROADCAST)\(cond: (\d+)\)", s)
    if m:
        return [m.group(1)]
    m = re.fullmatch(r"Random\(\[(-?\d+);(-?\d+)\] ~> \d+\)", s)
    if m:
        return [m.group(1), m.group(2)]
    m = re.fullmatch(r"ActorJoin\(target (-?\d+), (timeout|no timeout)\)", s)
    if m:
        return [m.group(1), yn(m.group(2))]
    if s in ("ActorSleep()", "ActorExit()"):
        return []
    m = re.fullmatch(r"ActorCreate\(child (-?\d+)\)", s)
    if m:
        return [m.group(1)]
    pm = parse_member(s)
    if pm is not None:
        return pm
    m = re.fullmatch(r"TestAny\((?:TRUE|FALSE)\)\{ (.*) \}", s)
    if m:
        out = []
        for part in m.group(1).split("; "):
            part = part.strip().rstrip(";").strip()
            if part:
                pm = parse_member(part)
                if pm is None:
                    return None
                out += ["12"] + pm
        return out
    m = re.fullmatch(r"WaitAny\{ (.*) \} \(times considered = \d+\)", s)
    if m:
        out = []
        for part in re.findall(r"WaitComm\([^)]*\)", m.group(1)):
            out += ["13"] + parse_member(part)
        return out
    return None


def described(to_string):
    """`KIND(name: value, ...)` as printed by the checker -> (KIND, {name: int})  (mutex ids of MUTEX_* are in hex)"""
    m = re.match(r"\s*(\w+)\((.*)\)\s*$", to_string)
    if not m:
        return None, {}
    kind, d = m.group(1), {}
    for name, val in re.findall(r"(\w+): (-?\w+)", m.group(2)):
        if val in ("yes", "no", "none"):
            d[name] = 1 if val == "yes" else 0
        else:
            try:
                d[name] = int(val, 16 if (name == "mutex" and kind.startswith("MUTEX_")) else 10)
            except ValueError:
                d[name] = val
    return kind, d


def truth_mismatch(to_string, truth):
    """truth: `truth k=v k=v` printed by the harness from the objects themselves -> text of the first difference"""
    toks = truth.split()
    if not toks or toks[0] != "truth" or len(toks) == 1:
        return None
    kind, d = described(to_string)
    for t in toks[1:]:
        k, _, v = t.partition("=")
        if k not in d:
            return "the checker's description %r does not show `%s` (the application used %s)" % (to_string, k, v)
        if d[k] != int(v):
            return "the checker describes %s with %s=%s, the application did it on %s=%s" % (kind, k, d[k], k, v)
    return None


def gen_cases(rng, n):
    cs = []
    for _ in range(n):
        k = rng.below(17)
        if k == 14:
            cs.append("condvarwait %d %d" % (rng.below(2), rng.below(2)))
            continue
        if k == 15:
            cs.append("barrierwait %d" % rng.range(1, 4))
            continue
        if k == 16:
            cs.append("condvar ASYNC_LOCK")
            continue
        if k == 0:
            cs.append("mutex %s %d" % (rng.choice(["ASYNC_LOCK", "TRYLOCK", "UNLOCK"]), rng.below(2)))
        elif k == 1:
            cs.append("mutexwait 0")
        elif k == 2:
            cs.append("sem %s %d" % (rng.choice(["ASYNC_LOCK", "UNLOCK"]), rng.choice([0, 1, 2, 7, 2**31 - 1, rng.below(1000)])))
        elif k == 3:
            # boundary on purpose: capacities around 2^31 (the SEM_WAIT observer packs the capacity as unsigned)
            cs.append("semwait %d" % rng.choice([0, 1, 2, 5, 2**31 - 1, 2**31, 2**31 + 1, 3000000000, 2**32 - 1, rng.below(100)]))
        elif k == 4:
            cs.append("barrier %d" % rng.range(1, 5))
        elif k == 5:
            cs.append("condvar " + rng.choice(["ASYNC_LOCK", "SIGNAL", "BROADCAST"]))
        elif k == 6:
            a = rng.choice([-2**31, -5, 0, 3, rng.range(-1000, 1000)])
            cs.append("random %d %d" % (a, rng.choice([a, a + 1, 2**31 - 1, a + rng.below(50)])))
        elif k == 7:
            cs.append("join %d" % rng.below(2))
        elif k == 8:
            # child pids stay below mc::static_config::max_threads - 1 (= 31): above it the checker refuses the pid with
            # "The model-checker assumes that no actor ID will ever be larger than 30" (a documented limit, not a codec matter)
            cs.append(rng.choice(["sleep", "create %d" % rng.choice([-1, 2, 30, rng.below(31)])]))
        elif k == 9:
            cs.append("test %d" % rng.below(2))
        elif k == 10:
            cs.append("wait %d %d" % (rng.below(2), rng.below(2)))
        else:
            n_m = rng.range(1, 4)
            cs.append("%s %d %d %d" % (rng.choice(["testany", "waitany"]), n_m, rng.below(1 << n_m),
                                       rng.below(1 << n_m) if rng.chance(1, 4) else 0))
    return cs


MC_KINDS = ["mutex", "trylock", "sem", "barrier", "condvar_signal", "condvar_broadcast", "comm_wait", "comm_test",
            "waitany", "testany", "actor", "random", "mess"]


def run_mc_programs(ctx, prog, rng):
    """one generated program per simcall kind under simgrid-mc; exit 0 expected; anything else is classified"""
    mc = os.path.join(core.SGBUILD, "bin", "simgrid-mc")
    results = {}
    reps = 1 if ctx.tier == "quick" else 3
    jobs = []
    for kind in MC_KINDS:
        for rep in range(reps):
            # sizes: the point is one exercise of each simcall kind, not a large state space (20 s wall limit on a
            # shared machine); only the comm kinds take 2 messages, and only in the thorough tier the others do
            big = kind in ("comm_wait", "comm_test", "waitany", "testany") or (ctx.tier == "thorough" and rep == 2)
            p1, p2 = (rng.range(1, 2) if big else 1), rng.range(1, 2)
            red = rng.choice(["dpor", "none"]) if rep else "dpor"
            jobs.append((kind, p1, p2, red))

    def one(job):
        kind, p1, p2, red = job
        cmd = [mc, "--cfg=model-check/reduction:" + red, "--log=root.thres:critical", prog, kind, str(p1), str(p2)]
        t = time.time()
        try:
            p = subprocess.run(cmd, capture_output=True, text=True, timeout=20, env=dict(os.environ, **ctx.sg_env()), cwd=ctx.work)
            rc, err = p.returncode, (p.stdout + p.stderr)
        except subprocess.TimeoutExpired as e:
            rc, err = "timeout", ((e.stdout or b"").decode(errors="replace") + (e.stderr or b"").decode(errors="replace"))
        return job, cmd, rc, err, round(time.time() - t, 1)

    from concurrent.futures import ThreadPoolExecutor
    with ThreadPoolExecutor(4) as ex:
        done = list(ex.map(one, jobs))
    for (kind, p1, p2, red), cmd, rc, err, dt in done:
        if rc == "timeout" and kind != "mess":
            # slow exploration on a loaded machine or a hang?  once more, alone, with three times the limit
            try:
                p = subprocess.run(cmd, capture_output=True, text=True, timeout=60, env=dict(os.environ, **ctx.sg_env()), cwd=ctx.work)
                rc, err = p.returncode, (p.stdout + p.stderr)
                ctx.notes.append("%s %d %d (%s) needed more than 20 s in the parallel batch; alone: rc=%s" % (kind, p1, p2, red, rc))
            except subprocess.TimeoutExpired:
                pass
        if rc not in (0, "timeout") and kind != "mess" and not (kind == "testany" and "out_of_range" in err):
            # an unexpected exit (abort while creating the checker's socket, loader error under load) is confirmed by a
            # second, serial run before it becomes an alarm (same rule as props/_shared/mcref/mclib.run_many)
            try:
                p = subprocess.run(cmd, capture_output=True, text=True, timeout=60, env=dict(os.environ, **ctx.sg_env()), cwd=ctx.work)
                ctx.notes.append("%s %d %d (%s) ended with rc=%s in the parallel batch; alone: rc=%s" % (kind, p1, p2, red, rc, p.returncode))
                rc, err = p.returncode, (p.stdout + p.stderr)
            except subprocess.TimeoutExpired:
                pass
        ctx.cov["evaluations"] += 1
        case = {"program": "props/C43/prog.cpp", "args": [kind, p1, p2], "reduction": red, "rc": rc, "wall_s": dt,
                "cmd": " ".join(cmd), "output_tail": err[-600:]}
        results["%s/%s/%d%d" % (kind, red, p1, p2)] = "%s in %ss" % (rc, dt)
        if rc == 0:
            ctx.cov["traces_validated_against_impl"] += 1
            ctx.cov["distinct_nontrivial"] += 1
            continue
        if kind == "mess":
            ctx.violation("verification of a MessageQueue program does not complete (rc=%s): MessIput/MessIget observers are "
                          "serialised under COMM_ASYNC_SEND/RECV with two pointers, the checker reads comm,mbox,tag,string" % rc,
                          case, key=KEY_MESS)
        elif kind == "testany" and "out_of_range" in err:
            ctx.violation("simgrid-mc aborts with an uncaught std::out_of_range on a program using test_any: "
                          "TestAnyTransition::get_current_transition indexes all members with times_considered, the "
                          "application counts only the ready ones (+1 for 'none')", case, key=KEY_TESTANY)
        else:
            ctx.violation("simgrid-mc does not complete on a program using only supported calls: kind=%s rc=%s" % (kind, rc),
                          case, key=None)
    ctx.cov["mc_runs"] = results


# ---- (3) checker-side description of every transition of an execution against the application-side observers
CHK_RE = re.compile(r"Actor (\d+) in (?:.*? ==> simcall: |simcall )(.*)$")
APP_RE = re.compile(r"Path chunk #\d+ '(\d+)/\d+' Actor [^(]*\(pid:\d+\): (.*)$")
ID_NAMES = {"mutex_id": "mutex", "cond_id": "cond", "sem_id": "semaphore", "barrier_id": "barrier"}


def app_described(s):
    """application-side observer to_string: `KIND(mutex_id:2 owner:none)`, `CONDVAR_WAIT(cond_id: 3, mutex_id:2, timeout: no)`
    -> (KIND, {name: int}) for the object ids (and the timeout of CONDVAR_WAIT)"""
    m = re.match(r"\s*(\w+)\((.*)\)\s*$", s)
    if not m:
        return None, {}
    kind, d = m.group(1), {}
    for name, val in re.findall(r"(\w+_id):\s*(\d+)", m.group(2)):
        d[ID_NAMES.get(name, name)] = int(val)
    if kind == "CONDVAR_WAIT":
        mm = re.search(r"timeout: (yes|no)", m.group(2))
        if mm:
            d["timeout"] = 1 if mm.group(1) == "yes" else 0
    return kind, d


SYNCHRO_PREFIXES = ("MUTEX_", "SEM_", "BARRIER_", "CONDVAR_")


def compare_descriptions(chk_lines, app_lines):
    """-> (number of synchro steps compared, first difference or None)"""
    if len(chk_lines) != len(app_lines):
        return 0, "the trace has %d transitions, its replay in the application %d steps" % (len(chk_lines), len(app_lines))
    n = 0
    for step, ((ca, cs), (aa, as_)) in enumerate(zip(chk_lines, app_lines), 1):
        if ca != aa:
            return n, "step %d: actor %s in the trace, actor %s in the replay" % (step, ca, aa)
        ck, cd = described(cs)
        ak, ad = app_described(as_)
        synchro = (ak or "").startswith(SYNCHRO_PREFIXES) or (ck or "").startswith(SYNCHRO_PREFIXES)
        if not synchro:
            continue
        n += 1
        if ck != ak:
            return n, "step %d (actor %s): the checker says %s, the application does %s" % (step, ca, cs, as_)
        for name, v in ad.items():
            if name not in cd:
                return n, "step %d: the checker's %r does not show `%s`" % (step, cs, name)
            if cd[name] != v:
                return n, ("step %d (actor %s): the checker describes %s, the application does %s: %s is %s on the checker "
                           "side and %s in the application" % (step, ca, cs, as_, name, cd[name], v))
    return n, None


def run_desc_programs(ctx, prog, rng, forced=None):
    """prog.cpp synchro_desc under simgrid-mc (ends with a failing assertion: the trace of the execution is printed),
    then the same path replayed in the application; descriptions compared step by step"""
    mc = os.path.join(core.SGBUILD, "bin", "simgrid-mc")
    env = dict(os.environ, **ctx.sg_env())
    jobs = []
    if forced:
        jobs = [forced]
    else:
        for rep in range(2 if ctx.tier == "quick" else 8):
            # numbers of dummy objects: the ids of the mutexes, condvars, semaphores, barriers used are non-zero and
            # (mutex vs condvar: the two ids that travel in one message) different
            dm = rng.range(1, 5)
            dc = rng.choice([x for x in range(1, 7) if x != dm and x + 1 != dm])    # mtx=dm, cv=dc, mtx2=dm+1, cv2=dc+2
            ds, db = rng.range(1, 5), rng.range(1, 5)
            jobs.append(("synchro_desc", dm + 8 * dc + 64 * ds + 512 * db, rng.range(1, 3), rng.choice(["dpor", "none", "odpor"])))
    res = {}
    for kind, p1, p2, red in jobs:
        cmd = [mc, "--cfg=model-check/reduction:" + red, "--log=no_loc", "--cfg=model-check/search-critical:0", prog, kind,
               str(p1), str(p2)]
        case = {"program": "props/C43/prog.cpp", "args": [kind, p1, p2], "reduction": red, "cmd": " ".join(cmd), "mode": "desc"}
        ctx.cov["evaluations"] += 1
        out = None
        for attempt, limit in enumerate((60, 240)):
            try:
                p = subprocess.run(cmd, capture_output=True, text=True, timeout=limit, env=env, cwd=ctx.work)
                out, rc = p.stdout + p.stderr, p.returncode
                if rc == 1 and "Counter-example execution trace" in out:
                    break
            except subprocess.TimeoutExpired:
                out, rc = None, "timeout"
        if out is None or rc != 1 or "Counter-example execution trace" not in out:
            case.update({"rc": rc, "output_tail": (out or "")[-800:]})
            ctx.violation("simgrid-mc does not report the (forced) assertion failure at the end of an execution through all "
                          "synchronisation kinds: rc=%s" % rc, case, key=None)
            continue
        chk = [(m.group(1), m.group(2).strip()) for m in (CHK_RE.search(l) for l in out.split("\n")) if m]
        pm = re.search(r"--cfg=model-check/replay:'([^']*)'", out)
        if not pm or not chk:
            ctx.broken.append({"kind": "trace-format-unknown", "output_tail": out[-800:]})
            continue
        rcmd = [prog, "--cfg=model-check/replay:" + pm.group(1), "--log=no_loc", kind, str(p1), str(p2)]
        try:
            r = subprocess.run(rcmd, capture_output=True, text=True, timeout=120, env=env, cwd=ctx.work)
            rout = r.stdout + r.stderr
        except subprocess.TimeoutExpired:
            rout = ""
        app = [(m.group(1), m.group(2).strip()) for m in (APP_RE.search(l) for l in rout.split("\n")) if m]
        if not app:
            ctx.broken.append({"kind": "replay-format-unknown", "cmd": " ".join(rcmd), "output_tail": rout[-800:]})
            continue
        n, why = compare_descriptions(chk, app)
        case.update({"path": pm.group(1), "steps": len(chk), "synchro_steps_compared": n})
        res["%s/%s/%d/%d" % (kind, red, p1, p2)] = "%d synchro steps of %d agree" % (n, len(chk)) if not why else why
        if why:
            case.update({"checker_trace": ["%s %s" % x for x in chk], "application_replay": ["%s %s" % x for x in app]})
            ctx.violation("the checker's description of a transition differs from what the application did: " + why, case, key=None)
        else:
            kinds_seen = {described(s_)[0] for _, s_ in chk}
            ctx.cov["traces_validated_against_impl"] += 1
            ctx.cov["distinct_nontrivial"] += 1
            ctx.cov["desc_kinds_seen"] = sorted(set(ctx.cov.get("desc_kinds_seen", [])) | {k for k in kinds_seen if k and k.startswith(SYNCHRO_PREFIXES)})
    ctx.cov["desc_runs"] = res


def run(ctx):
    ctx.cov["rule"] = ("(1) in-process: observer cases drawn from splitmix64(VERIF_SEED) over 16 observer classes/kinds with "
                       "boundary parameters (capacities around 2^31, INT_MIN/INT_MAX ranges, members with/without peer, "
                       "non-comm members), on objects with pairwise different non-zero ids; (2) one S4U program per simcall "
                       "kind under simgrid-mc; (3) executions through every synchronisation kind, checker-side description "
                       "against application-side observer step by step. non-trivial = distinct in-process case decoded by "
                       "the real checker + MC runs that completed + description runs that agree")
    ctx.assumptions += [
        "CommIsend/CommIrecv/Iprobe/MessIput/MessIget observers are not built in-process (they are covered by the generated "
        "tables of types and roles and, except iprobe, by the programs under simgrid-mc)",
        "roles: the normalisation table ROLE_SYNONYMS of gen.py (src_actor = sender, other = target, fun_call = call_location, ...) "
        "is read off the code by hand; a literal constant packed by the application is compatible with any checker-side member",
        "step-by-step comparison of descriptions: the application side is the observer's own to_string() (it reads the objects, "
        "not the serialised bytes); only kinds, object ids and the CONDVAR_WAIT timeout flag are compared (owner / granted / "
        "capacity are sampled at different instants on the two sides)",
        "iprobe is only reachable through SMPI (IprobeSimcall dereferences an smpi::Request): no S4U program for it",
        "the memory-access trace appended after the transition (MemoryAccessTrace::serialize) is outside the model"]
    ctx.ensure_simgrid(["simgrid", "simgrid-mc"])
    info = run_translator(ctx)
    ctx.lean_prove()
    drv = ctx.lean_exe()
    h = ctx.build_harness("harness.cpp", flags=("-w",))
    prog = ctx.build_harness("prog.cpp", flags=("-w",))
    rng = SplitMix(ctx.seed)
    corpus = [l.strip() for l in open(ctx.pdir + "/corpus.txt") if l.strip() and not l.startswith("#")]
    if ctx.replay:
        case = json.load(open(ctx.replay))["case"]
        if case.get("mode") == "desc":
            corpus, n = [], 0
            if prog:
                run_desc_programs(ctx, prog, rng, forced=tuple(case["args"]) + (case["reduction"],))
            return
        elif "program" in case:
            corpus, n = [], 0
            global MC_KINDS
            MC_KINDS = [case["args"][0]]
        else:
            corpus, n = [case["query"]], 0
    else:
        n = 30 if ctx.tier == "quick" else 300
        if ctx.broken:
            n *= 5
    cases = corpus + (gen_cases(rng.fork(1), n) if n else [])
    if h and cases:
        rc, out, err = ctx.run_lines([h, "--log=root.thres:critical"], cases, timeout=1500)
        if rc != 0 or len(out) != len(cases):
            ctx.broken.append({"kind": "harness-run", "rc": rc, "stderr": err[-1500:], "lines": len(out)})
        else:
            canon = []
            for l in out:
                q, a = l.split(" => ", 1)
                parts = [x.strip() for x in a.split(" | ")]
                if len(parts) < 2:
                    ctx.broken.append({"kind": "harness-bad-line", "line": l[:300]})
                    canon.append(q + " => bad")
                    continue
                obs, hexs = parts[0].split()
                status = parts[1]
                vals = parse_to_string(parts[2]) if len(parts) > 2 and status in ("ok", "leftover") else []
                if len(parts) > 3 and status == "ok":
                    why = truth_mismatch(parts[2], parts[3])
                    ctx.cov["in_process_described_vs_done"] = ctx.cov.get("in_process_described_vs_done", 0) + 1
                    if why and len([v for v in ctx.violations if v.get("what", "").startswith("in-process")]) < 3:
                        ctx.violation("in-process: " + why, {"query": q, "impl": l[:400]}, key=None)
                if vals is None:
                    ctx.broken.append({"kind": "to_string-format-unknown", "line": l[:300]})
                    vals = ["?"]
                canon.append("%s => %s %s %s %s" % (q, obs, hexs, status, " ".join(vals)))
            verdicts = None
            if drv:
                rc, verdicts, err = ctx.run_lines([drv], canon)
                if rc != 0 or not verdicts or verdicts[-1] != "END %d" % len(canon):
                    ctx.broken.append({"kind": "driver-run", "rc": rc, "stderr": err[-1500:]})
                    verdicts = None
            seen, dist = set(), {}
            for i, (q, l) in enumerate(zip(cases, canon)):
                ctx.cov["evaluations"] += 1
                dist[q.split()[0]] = dist.get(q.split()[0], 0) + 1
                if verdicts is None:
                    continue
                v = verdicts[i]
                if v == "ok":
                    ctx.cov["traces_validated_against_impl"] += 1
                    if q not in seen:
                        seen.add(q)
                        ctx.cov["distinct_nontrivial"] += 1
                elif v.startswith("MONFAIL"):
                    key = KEY_SEM if q.startswith("semwait") else None
                    if key is None or key not in [x.get("key") for x in ctx.violations]:
                        ctx.violation(v, {"query": q, "impl": out[i], "verdict": v}, key=key)
                else:
                    if len([b for b in ctx.broken if b.get("kind") == "codec-differs"]) < 5:
                        ctx.broken.append({"kind": "codec-differs", "query": q, "impl": out[i][:400], "verdict": v[:300]})
            ctx.cov["samples"] = canon[:3] + canon[len(corpus):len(corpus) + 3]
            ctx.cov["distribution"] = dist
    if prog:
        run_mc_programs(ctx, prog, rng.fork(2))
        if not ctx.replay:
            run_desc_programs(ctx, prog, rng.fork(3))
    # the generated table itself decides D14: report it even when no MC run could be made
    if info:
        for obs, lab, k, fs in info["app"]:
            chk = info["checker"].get(k)
            if obs in ("MessIputSimcall", "MessIgetSimcall") and chk is not None and list(fs) != list(chk):
                ctx.cov.setdefault("table_mismatches", []).append("%s under %s packs %s, checker unpacks %s" % (obs, k, fs, chk))
