"""C43 translator: what the application packs per simcall kind vs what the checker unpacks -> lean/SgVerif/C43/Gen.lean

App side    bodies of `*Observer::serialize` / `*Simcall::serialize` (+ static helpers serialize_activity_test/wait) in
            src/kernel/actor/{Comm,Synchro,Simcall,WaitTest}Observer.cpp: the sequence of `channel.pack<T>(..)` /
            `channel.pack(expr)` statements, through `switch (type_)`, `if (dynamic_cast<CommImpl>) .. else ..`,
            range-for over the activities and calls of the helpers.  The type of an implicit `channel.pack(expr)` is
            taken from the clang-14 JSON AST (argument type of the CXXMemberCallExpr at that source offset); explicit
            template arguments are cross-checked with the AST as well.
            Observers that pack their `type_` member get one entry per kind they are constructed with (construction
            sites `XObserver name{issuer, mc::Transition::Type::KIND, ...}` in src/).
Checker side  `deserialize_transition` (kind -> class) and the channel constructors of the transition classes in
            src/mc/transition/Transition*.cpp: the sequence of `channel.unpack<T>()`, through the `if (type == ..)`
            chain of CondvarTransition and the member loop of TestAny/WaitAny.
A statement that mentions the channel and is not understood aborts the translation (TranslationError).

ROLES.  Equal wire TYPES do not make two schemas agree: `pack(mutex id); pack(cond id)` against
`condvar_ = unpack; mutex_ = unpack` has the types right and the meaning wrong.  Every field therefore also carries a
ROLE: on the application side the name of the entity whose id / pid / attribute is packed (taken from the packed
expression: `acquisition_->get_cond()->get_id()` -> cond, `owner->get_pid()` -> owner, `timeout_ > 0` -> timeout ...),
on the checker side the name of the member the unpacked value ends in (`condvar_ = channel.unpack..` -> cond; through
a local when the value is converted first: `auto recv = channel.unpack<aid_t>(); owner_ = recv == -1 ? ..` -> owner).
Names are normalised through ROLE_SYNONYMS; a name that is not in that table, an expression shape that is not
understood, or a local that never reaches a member aborts the translation (a broken tie, not a wildcard).  The only
declared wildcard is a literal constant on the application side (`pack<bool>(false)`): the application gives it no
meaning.
"""
import hashlib
import json
import os
import re
import subprocess
from concurrent.futures import ThreadPoolExecutor


class TranslationError(Exception):
    pass


OBS_FILES = ["CommObserver.cpp", "SynchroObserver.cpp", "SimcallObserver.cpp", "WaitTestObserver.cpp"]
TR_FILES = ["Transition.cpp", "TransitionSynchro.cpp", "TransitionComm.cpp", "TransitionActor.cpp", "TransitionAny.cpp",
            "TransitionRandom.cpp"]

PRIMS = ["u16", "u32", "i32", "i64", "u64", "bool", "str", "ptr"]


def prim_of(cty, where):
    t = cty.strip()
    t = re.sub(r"\bconst\b", "", t).strip()
    if t.endswith("*"):
        return "ptr"
    m = {"unsigned": "u32", "unsigned int": "u32", "int": "i32", "aid_t": "i64", "long": "i64", "bool": "bool",
         "std::string": "str", "std::basic_string<char>": "str", "unsigned short": "u16", "unsigned long": "u64",
         "size_t": "u64", "uintptr_t": "u64"}
    if t in m:
        return m[t]
    if re.fullmatch(r"(simgrid::)?(mc::)?Transition::Type|Type", t):
        return "tag"
    raise TranslationError("%s: C++ type %r has no wire type in the model" % (where, cty))


# ------------------------------------------------------------------------------------------------ roles
ROLE_SYNONYMS = {
    "mutex": "mutex", "cond": "cond", "condvar": "cond", "sem": "sem", "semaphore": "sem", "bar": "barrier",
    "barrier": "barrier", "comm": "comm", "mbox": "mbox", "mailbox": "mbox", "tag": "tag", "fun_call": "call_location",
    "call_location": "call_location", "owner": "owner", "src_actor": "sender", "sender": "sender",
    "dst_actor": "receiver", "receiver": "receiver", "other": "target", "target": "target", "child": "child",
    "timeout": "timeout", "granted": "granted", "is_granted": "granted", "capacity": "capacity", "min": "min",
    "max": "max", "is_sender": "is_sender", "kind==SEND": "is_sender", "activities.size": "count", "size": "count",
    "mess": "mess", "queue": "queue"}
CONST_ROLE = "_const"


class P(str):
    """a wire type (compares as the plain type name) that remembers the role of the field and where it comes from"""
    def __new__(cls, prim, role=None, src=""):
        o = str.__new__(cls, prim)
        o.role, o.src = role, src
        return o


def canon_role(name, where):
    n = name.strip()
    n = re.sub(r"\(\)$", "", n)
    n = re.sub(r"^get_", "", n).rstrip("_")
    if n not in ROLE_SYNONYMS:
        raise TranslationError("%s: no role known for the name %r (extend ROLE_SYNONYMS after reading the code)" % (where, name))
    return ROLE_SYNONYMS[n]


def split_top(expr, seps):
    """split at the first top-level occurrence of one of `seps` (longest first) -> (left, sep, right) or None"""
    depth, i = 0, 0
    while i < len(expr):
        c = expr[i]
        if c in "([{":
            depth += 1
        elif c in ")]}":
            depth -= 1
        elif depth == 0:
            for sp in seps:
                if expr.startswith(sp, i) and not (sp == "-" and expr.startswith("->", i)) and \
                        not (sp in "<>" and (expr.startswith("->", i - 1) or expr.startswith("<<", i))):
                    return expr[:i], sp, expr[i + len(sp):]
        i += 1
    return None


def strip_parens(e):
    e = e.strip()
    while e.startswith("(") and match_close(e, 0, "(", ")") == len(e) - 1:
        e = e[1:-1].strip()
    return e


def app_role(expr, where):
    """role of a packed expression (see the module docstring)"""
    e = strip_parens(expr)
    if re.fullmatch(r"-?\d+|true|false|nullptr", e):
        return CONST_ROLE
    t = split_top(e, ["?"])
    if t:
        rest = split_top(t[2], [":"])
        if not rest:
            raise TranslationError("%s: ternary without ':' in %r" % (where, expr))
        rs = [r for r in (app_role(rest[0], where), app_role(rest[2], where)) if r != CONST_ROLE]
        if not rs or any(r != rs[0] for r in rs):
            raise TranslationError("%s: the two branches of %r do not name the same thing" % (where, expr))
        return rs[0]
    t = split_top(e, ["=="])
    if t:
        return canon_role(t[0].strip().rstrip("_") + "==" + re.split(r"::", t[2].strip())[-1], where)
    t = split_top(e, [">=", "<=", ">", "<"])
    if t:
        if not re.fullmatch(r"-?\d+(\.\d+)?", t[2].strip()):
            raise TranslationError("%s: comparison %r is not against a literal" % (where, expr))
        return app_role(t[0], where)
    t = split_top(e, ["-", "+"])
    if t and t[0].strip():
        return app_role(t[0], where)       # `capacity - ongoing acquisitions`: still the (remaining) capacity
    chain = [c.strip() for c in re.split(r"->|\.", e)]
    if not all(re.fullmatch(r"\w+(\(\))?", c) for c in chain):
        raise TranslationError("%s: packed expression %r is not understood" % (where, expr))
    last = chain[-1]
    if last in ("get_id()", "get_pid()"):
        if len(chain) < 2:
            raise TranslationError("%s: %r: id of what?" % (where, expr))
        return canon_role(chain[-2], where)
    if last == "get_mailbox_id()":
        return "mbox"
    if last == "size()":
        return canon_role(chain[-2].rstrip("_") + ".size", where)
    return canon_role(last, where)


def blank_comments(src):
    """comments -> spaces, offsets preserved"""
    def rep(m):
        return re.sub(r"[^\n]", " ", m.group(0))
    src = re.sub(r"/\*.*?\*/", rep, src, flags=re.S)
    src = re.sub(r"//[^\n]*", rep, src)
    return src


def match_close(src, i, o="{", c="}"):
    depth = 0
    while i < len(src):
        ch = src[i]
        if ch == '"':
            i += 1
            while src[i] != '"':
                i += 2 if src[i] == "\\" else 1
        elif ch == "'":
            i += 1
            while src[i] != "'":
                i += 2 if src[i] == "\\" else 1
        elif ch == o:
            depth += 1
        elif ch == c:
            depth -= 1
            if depth == 0:
                return i
        i += 1
    raise TranslationError("unbalanced %s%s" % (o, c))


# ------------------------------------------------------------------------------------------------ clang AST
def clang_pack_types(repo, sgbuild, path, cache_dir):
    """offset of `channel` in `channel.pack(...)` -> C++ type of the (single) argument, from the clang-14 JSON AST"""
    src = open(path).read()
    # the answer depends on the headers too: key on the preprocessed-dependency list's contents
    inc = ["-I" + repo + "/include", "-I" + sgbuild + "/include", "-I" + repo, "-I" + sgbuild, "-I" + repo + "/src/smpi/include"]
    base = ["clang++-14", "-std=gnu++20", "-DSIMGRID_VERIF"] + inc
    dep = subprocess.run(base + ["-MM", "-MG", path], capture_output=True, text=True)
    if dep.returncode != 0:
        raise TranslationError("clang++-14 cannot preprocess %s: %s" % (path, dep.stderr[-400:]))
    files = [f for f in dep.stdout.replace("\\\n", " ").split(":", 1)[1].split() if f.startswith(repo) or f.startswith(sgbuild)]
    h = hashlib.sha1()
    for f in sorted(files):
        h.update(f.encode())
        h.update(open(f, "rb").read())
    os.makedirs(cache_dir, exist_ok=True)
    cf = os.path.join(cache_dir, os.path.basename(path) + "." + h.hexdigest()[:16] + ".json")
    if os.path.exists(cf):
        return {int(k): v for k, v in json.load(open(cf)).items()}
    p = subprocess.run(base + ["-fsyntax-only", "-Xclang", "-ast-dump=json", "-Xclang", "-ast-dump-filter=serialize", path],
                       capture_output=True, text=True)
    if p.returncode != 0:
        raise TranslationError("clang++-14 cannot parse %s: %s" % (path, p.stderr[-400:]))
    txt, dec, i, res = p.stdout, json.JSONDecoder(), 0, {}

    def walk(n):
        if isinstance(n, dict):
            if n.get("kind") == "CXXMemberCallExpr":
                inner = n.get("inner", [])
                if inner and inner[0].get("kind") == "MemberExpr" and inner[0].get("name") == "pack" and len(inner) == 2:
                    b = n["range"]["begin"]
                    off = b.get("offset", b.get("expansionLoc", {}).get("offset"))
                    ty = inner[1]["type"]
                    if off is not None and src[off:off + 8] == "channel.":
                        res[off] = ty.get("desugaredQualType") or ty["qualType"]
            for v in n.values():
                walk(v)
        elif isinstance(n, list):
            for v in n:
                walk(v)
    while i < len(txt):
        if txt[i] != "{":
            j = txt.find("\n", i)
            i = j + 1 if j >= 0 else len(txt)
            continue
        o, i = dec.raw_decode(txt, i)
        walk(o)
    json.dump(res, open(cf, "w"))
    return res


# ------------------------------------------------------------------------------------------------ statement parser
class Body:
    """Parses a function body (text with preserved offsets) into a schema program:
       ('f', prim)               one packed/unpacked field        ('tag', KIND | None)   the Type tag (None: `type_`)
       ('switch', {KIND: prog})  switch (type_) / if (type == ..) chain
       ('alt', progA, progB)     if (dynamic_cast<CommImpl>) A else B
       ('rep', prog)             loop over the members
       ('call', name)            helper call (app side) / ('any',) deserialize_transition (checker side)"""

    def __init__(self, src, start, end, mode, where, ast=None, helpers=()):
        self.s, self.i, self.end, self.mode, self.where, self.ast, self.helpers = src, start, end, mode, where, ast, helpers
        self.locals = {}        # checker side: local variable -> the field last unpacked into it (role still unknown)

    def name_locals(self, text, role_of_member=None):
        """a statement without channel traffic: `member_ = f(local)` names the field the local came from"""
        m = re.match(r"\s*(\w+_)\s*=\s*(.*)$", text, re.S)
        if not m:
            return
        for name, fld in list(self.locals.items()):
            if re.search(r"\b%s\b" % re.escape(name), m.group(2)):
                fld.role = canon_role(m.group(1), self.where)
                del self.locals[name]

    def err(self, msg):
        raise TranslationError("%s: %s near `%s`" % (self.where, msg, self.s[self.i:self.i + 70].replace("\n", " ")))

    def ws(self):
        while self.i < self.end and self.s[self.i].isspace():
            self.i += 1

    def prog(self, stop=None):
        out = []
        while True:
            self.ws()
            if self.i >= self.end or (stop and self.s.startswith(stop, self.i)):
                return out
            if re.match(r"(case\b|default\s*:)", self.s[self.i:]):
                return out
            out += self.stmt()

    def block_or_stmt(self):
        self.ws()
        if self.s[self.i] == "{":
            e = match_close(self.s, self.i)
            sub = Body(self.s, self.i + 1, e, self.mode, self.where, self.ast, self.helpers)
            sub.locals = self.locals
            r = sub.prog()
            self.i = e + 1
            return r
        return self.stmt()

    def stmt(self):
        s = self.s
        self.ws()
        m = re.match(r"switch\s*\(\s*type_\s*\)\s*", s[self.i:])
        if m:
            self.i += m.end()
            e = match_close(s, self.i)
            sub = Body(s, self.i + 1, e, self.mode, self.where, self.ast, self.helpers)
            sub.locals = self.locals
            cases = {}
            while True:
                sub.ws()
                if sub.i >= sub.end:
                    break
                labels = []
                while True:
                    sub.ws()
                    mm = re.match(r"case\s+(?:mc::)?(?:Transition::)?Type::(\w+)\s*:|default\s*:", s[sub.i:])
                    if not mm:
                        break
                    labels.append(mm.group(1) or "default")
                    sub.i += mm.end()
                if not labels:
                    sub.err("expected case label")
                p = sub.prog()
                sub.ws()
                mm = re.match(r"break\s*;|THROW_UNIMPLEMENTED\s*;", s[sub.i:])
                if mm:
                    if mm.group(0).startswith("THROW"):
                        p = None
                    sub.i += mm.end()
                for lab in labels:
                    cases[lab] = p
            self.i = e + 1
            return [("switch", cases)]
        m = re.match(r"if\s*\(", s[self.i:])
        if m:
            pe = match_close(s, self.i + m.end() - 1, "(", ")")
            cond = s[self.i + m.end():pe]
            self.i = pe + 1
            then = self.block_or_stmt()
            self.ws()
            els = None
            if re.match(r"else\b", s[self.i:]):
                self.i += 4
                els = self.block_or_stmt()
            if "dynamic_cast" in cond:
                return [("alt", then, els or [])]
            kinds = re.findall(r"type\s*==\s*(?:Transition::)?Type::(\w+)", cond)
            if kinds and re.fullmatch(r"\s*type\s*==\s*[\w:]+\s*(\|\|\s*type\s*==\s*[\w:]+\s*)*", cond):
                cases = {k: then for k in kinds}
                if els and len(els) == 1 and els[0][0] == "switch":
                    for k, v in els[0][1].items():
                        cases.setdefault(k, v)
                elif els is not None:
                    cases.setdefault("default", els if els != [("die",)] else None)
                return [("switch", cases)]
            if "channel" in cond or any("channel" in repr(x) for x in (then, els)) or then or els:
                self.err("if-condition not understood around channel traffic: %r" % cond)
            return []
        m = re.match(r"for\s*\(", s[self.i:])
        if m:
            pe = match_close(s, self.i + m.end() - 1, "(", ")")
            for name, fld in list(self.locals.items()):      # `for (i = 0; i < size; i++)`: the local is the member count
                if re.search(r"<\s*%s\b" % re.escape(name), s[self.i:pe]):
                    fld.role = "count"
                    del self.locals[name]
            self.i = pe + 1
            body = self.block_or_stmt()
            return [("rep", body)] if body else []
        if s[self.i] == "{":
            return self.block_or_stmt()
        # simple statement up to ';'
        j = self.i
        depth = 0
        while j < self.end:
            c = s[j]
            if c == '"':
                j += 1
                while s[j] != '"':
                    j += 2 if s[j] == "\\" else 1
            elif c in "([{":
                depth += 1
            elif c in ")]}":
                depth -= 1
            elif c == ";" and depth == 0:
                break
            j += 1
        text = s[self.i:j]
        start = self.i
        self.i = j + 1
        if re.match(r"\s*xbt_die\s*\(", text):
            return [("die",)]
        for hname in self.helpers:
            if re.match(r"\s*%s\s*\(" % hname, text):
                return [("call", hname)]
        if "deserialize_transition" in text and self.mode == "unpack":
            return [("any",)]
        if "channel" not in text:
            if self.mode == "unpack":
                self.name_locals(text)
            return []
        if re.match(r"\s*(XBT_DEBUG|XBT_VERB|XBT_INFO|XBT_CRITICAL|xbt_assert)\s*\(", text):
            return []
        if self.mode == "pack":
            m = re.match(r"\s*channel\.pack\s*(?:<\s*([^>]+?)\s*>)?\s*\((.*)\)\s*$", text, re.S)
            if not m:
                self.err("statement uses the channel in a way the translator does not know")
            off = start + (len(text) - len(text.lstrip()))
            explicit, arg = m.group(1), m.group(2).strip()
            aty = self.ast.get(off) if self.ast is not None else None
            if aty is None:
                self.err("no AST node for this pack call")
            p_ast = prim_of(aty, self.where)
            if explicit and prim_of(explicit, self.where) != p_ast:
                self.err("explicit template argument %s but the AST says %s" % (explicit, aty))
            if p_ast == "tag":
                mm = re.fullmatch(r"(?:mc::)?Transition::Type::(\w+)", arg)
                if mm:
                    return [("tag", mm.group(1))]
                if arg == "type_":
                    return [("tag", None)]
                self.err("Type-valued pack whose argument is neither a literal kind nor type_")
            return [("f", P(p_ast, app_role(arg, self.where), arg))]
        else:
            ms = re.findall(r"channel\.unpack\s*<\s*([^>]+?)\s*>\s*\(\s*\)", text)
            if len(ms) != 1 or text.count("channel") != 1:
                self.err("statement uses the channel in a way the translator does not know")
            p = prim_of(ms[0], self.where)
            if p == "tag":
                self.err("unexpected Type-valued unpack")
            mm = re.match(r"\s*(?:(?:const\s+)?(?:auto|unsigned|int|bool|aid_t|long|std::string)\s+)?(\w+)\s*=[^=]", text)
            if not mm:
                self.err("the unpacked value is not assigned to anything the translator can name")
            fld = P(p, None, text.strip())
            if mm.group(1).endswith("_"):
                fld.role = canon_role(mm.group(1), self.where)
            else:
                self.locals[mm.group(1)] = fld      # named by a later `member_ = f(local)` / loop bound
            return [("f", fld)]


def find_functions(src, pattern):
    """[(match, body_start, body_end)] for definitions whose header matches `pattern` (which must end at the closing
    parenthesis of the parameter list); a constructor initialiser list is skipped; declarations are ignored"""
    res = []
    for m in re.finditer(pattern, src):
        i = m.end()
        mm = re.match(r"\s*(const\b\s*)?(override\b\s*)?", src[i:])
        i += mm.end()
        if src[i] == ":" and src[i + 1] != ":":
            i += 1
            while True:
                mm = re.match(r"\s*[\w:]+\s*", src[i:])
                if not mm:
                    raise TranslationError("initialiser list not understood after " + m.group(0)[:60])
                i += mm.end()
                if src[i] == "(":
                    i = match_close(src, i, "(", ")") + 1
                elif src[i] == "{":
                    i = match_close(src, i) + 1
                else:
                    raise TranslationError("initialiser list not understood after " + m.group(0)[:60])
                mm = re.match(r"\s*,", src[i:])
                if mm:
                    i += mm.end()
                    continue
                break
            i += re.match(r"\s*", src[i:]).end()
        if src[i] != "{":
            continue            # a declaration
        e = match_close(src, i)
        res.append((m, i + 1, e))
    return res


# ------------------------------------------------------------------------------------------------ flattening
def flatten(prog, kind, helpers, where):
    """program -> list of alternatives; an alternative = list of ('f', prim) | ('rep', [alternatives as (tag, [prims])])
    `kind` resolves switch(type_).  Returns [(alt_label, tagkind, fields)]"""
    alts = [("", None, [])]
    for st in prog:
        new = []
        for lab, tk, fs in alts:
            if st[0] == "f":
                new.append((lab, tk, fs + [st[1]]))
            elif st[0] == "tag":
                if tk is not None or fs:
                    raise TranslationError("%s: Type tag is not the first thing packed" % where)
                k = st[1] if st[1] is not None else kind
                if k is None:
                    raise TranslationError("%s: packs type_ but no construction site gives its kinds" % where)
                new.append((lab, k, fs))
            elif st[0] == "switch":
                cases = st[1]
                key = (tk or kind)
                if key in cases:
                    sub = cases[key]
                elif "default" in cases:
                    sub = cases["default"]
                else:
                    sub = None
                if sub is None:
                    new.append((lab + "!dies", tk, fs))       # THROW_UNIMPLEMENTED / xbt_die for this kind
                    continue
                for l2, t2, f2 in flatten(sub, kind, helpers, where):
                    if t2 is not None:
                        raise TranslationError("%s: tag inside a switch" % where)
                    new.append((lab + l2, tk, fs + f2))
            elif st[0] == "alt":
                for name, sub in (("[comm]", st[1]), ("[other]", st[2])):
                    for l2, t2, f2 in flatten(sub, kind, helpers, where):
                        if t2 is not None and (tk is not None or fs):
                            raise TranslationError("%s: second tag" % where)
                        new.append((lab + name + l2, t2 if t2 is not None else tk, fs + f2))
            elif st[0] == "call":
                for l2, t2, f2 in flatten(helpers[st[1]], kind, helpers, where):
                    if t2 is not None and (tk is not None or fs):
                        raise TranslationError("%s: helper packs a tag after fields" % where)
                    new.append((lab + l2, t2 if t2 is not None else tk, fs + f2))
            elif st[0] == "rep" and st[1] == [("any",)]:
                new.append((lab, tk, fs + [("any",)]))     # checker side: each member through deserialize_transition
            elif st[0] == "rep":
                elems = []
                for l2, t2, f2 in flatten(st[1], kind, helpers, where):
                    if t2 is None or any(not isinstance(x, str) for x in f2):
                        raise TranslationError("%s: loop element without its own tag / nested loop" % where)
                    elems.append((t2, f2))
                new.append((lab, tk, fs + [("rep", elems)]))
            elif st[0] == "any":
                raise TranslationError("%s: deserialize_transition outside a member loop" % where)
            elif st[0] == "die":
                new.append((lab + "!dies", tk, fs))
            else:
                raise TranslationError("%s: unknown program node %r" % (where, st))
        alts = new
    return alts


def translate(repo, sgbuild, cache_dir):
    adir = repo + "/src/kernel/actor/"
    tdir = repo + "/src/mc/transition/"
    hdr = open(tdir + "Transition.hpp").read()
    m = re.search(r"XBT_DECLARE_ENUM_CLASS\(\s*Type\s*,(.*?)\);", blank_comments(hdr), re.S)
    kinds = [x.strip() for x in m.group(1).split(",") if x.strip()]

    # ---- construction sites of observers that pack `type_`
    sites = {}
    for root, _, files in os.walk(repo + "/src"):
        for f in files:
            if f.endswith((".cpp", ".hpp")):
                txt = blank_comments(open(os.path.join(root, f), errors="replace").read())
                for mm in re.finditer(r"\b(\w+Observer)\s+\w+\s*\{[^;{}]*?mc::Transition::Type::(\w+)", txt):
                    sites.setdefault(mm.group(1), set()).add(mm.group(2))

    # ---- app side
    with ThreadPoolExecutor(4) as ex:
        asts = list(ex.map(lambda f: clang_pack_types(repo, sgbuild, adir + f, cache_dir), OBS_FILES))
    app = []       # (observer, variant label, kind, fields)
    for f, ast in zip(OBS_FILES, asts):
        src = blank_comments(open(adir + f).read())
        helpers = {}
        for mm, b, e in find_functions(src, r"static\s+void\s+(serialize_\w+)\s*\([^)]*\)"):
            helpers[mm.group(1)] = Body(src, b, e, "pack", f + ":" + mm.group(1), ast, ()).prog()
        for mm, b, e in find_functions(src, r"void\s+(\w+)::serialize\s*\(\s*mc::Channel&\s*channel\s*\)\s*const"):
            obs = mm.group(1)
            where = f + ":" + obs + "::serialize"
            prog = Body(src, b, e, "pack", where, ast, tuple(helpers)).prog()
            uses_type = any(st == ("tag", None) for st in prog)
            for kind in (sorted(sites.get(obs, [])) if uses_type else [None]):
                if kind and kind.endswith("_NOMC"):
                    continue          # never issued under the model checker
                for lab, tk, fs in flatten(prog, kind, helpers, where):
                    if tk is None:
                        raise TranslationError("%s: no Type tag packed" % where)
                    app.append((obs, lab, tk, fs))
            if uses_type and not sites.get(obs):
                raise TranslationError("%s packs type_ but is constructed nowhere with a literal kind" % obs)
    # every serialize() that exists must have been seen
    declared = set()
    for f in OBS_FILES:
        declared |= set(re.findall(r"void\s+(\w+)::serialize\s*\(", blank_comments(open(adir + f).read())))
    if declared != set(o for o, _, _, _ in app):
        raise TranslationError("serialize bodies not translated: %s" % sorted(declared - set(o for o, _, _, _ in app)))

    # ---- checker side
    tsrc = {f: blank_comments(open(tdir + f).read()) for f in TR_FILES}
    body = None
    for mm, b, e in find_functions(tsrc["Transition.cpp"], r"Transition\*\s+deserialize_transition\s*\([^)]*\)"):
        body = tsrc["Transition.cpp"][b:e]
    if body is None:
        raise TranslationError("deserialize_transition not found")
    if not re.search(r"simcall\s*=\s*channel\.unpack<mc::Transition::Type>\(\)", body):
        raise TranslationError("deserialize_transition no longer starts by unpacking the Type")
    kind_class, pending = {}, []
    for mm in re.finditer(r"case\s+Transition::Type::(\w+)\s*:|return\s+new\s+(\w+)\s*\(([^;]*)\)\s*;", body):
        if mm.group(1):
            pending.append(mm.group(1))
        else:
            for k in pending:
                kind_class[k] = (mm.group(2), "channel" in mm.group(3))
            pending = []
    ctors = {}
    for f in TR_FILES:
        for mm, b, e in find_functions(tsrc[f], r"\b(\w+Transition)::\1\s*\([^)]*mc::Channel&[^)]*\)"):
            ctors[mm.group(1)] = Body(tsrc[f], b, e, "unpack", f + ":" + mm.group(1) + " ctor", None, ()).prog()
    checker = {}
    for k in kinds:
        if k not in kind_class:
            checker[k] = None
            continue
        cls, takes_channel = kind_class[k]
        if not takes_channel:
            checker[k] = []
            continue
        if cls not in ctors:
            raise TranslationError("channel constructor of %s not found" % cls)
        # in constructors the switch variable is `type`; flatten resolves on `kind`
        alts = flatten(ctors[cls], k, {}, cls)
        if len(alts) != 1 or alts[0][1] is not None:
            raise TranslationError("%s ctor: unexpected alternatives" % cls)
        checker[k] = None if alts[0][0].endswith("!dies") else alts[0][2]

    return emit(kinds, app, checker), {"kinds": kinds, "app": app, "checker": checker}


def role_of(x, where):
    r = getattr(x, "role", None)
    if r is None:
        raise TranslationError("%s: the field `%s` has no role (an unpacked local that never reaches a member?)" % (
            where, getattr(x, "src", x)))
    return r


def lean_fields(fs, checker, kinds, where="?"):
    """-> (types, roles) as Lean list literals"""
    out, rout = [], []
    # the member count is the `unsigned` packed/unpacked just before the loop: it is part of `.rep` in the Lean schema
    fs = list(fs)
    for i, x in enumerate(fs):
        if not isinstance(x, str):
            if i == 0 or fs[i - 1] != "u32":
                raise TranslationError("member loop not preceded by its unsigned count")
            if role_of(fs[i - 1], where) != "count":
                raise TranslationError("%s: the unsigned before the member loop is `%s`, not the number of members" % (
                    where, fs[i - 1].src))
            fs[i - 1] = None
    for x in fs:
        if x is None:
            continue
        if isinstance(x, str):
            out.append(".prim .%s" % x)
            rout.append('.prim "%s"' % role_of(x, where))
        elif x[0] == "rep":
            out.append(".rep [%s]" % ", ".join("(%d, [%s])" % (kinds.index(t), ", ".join("." + p for p in ps)) for t, ps in x[1]))
            rout.append(".rep [%s]" % ", ".join("(%d, [%s])" % (kinds.index(t), ", ".join('"%s"' % role_of(p, where) for p in ps))
                                                for t, ps in x[1]))
        elif x[0] == "any":
            # the checker accepts any member kind that deserialize_transition accepts and that has a flat schema
            alts = [(kinds.index(k), v, k) for k, v in checker.items() if v is not None and all(isinstance(p, str) for p in v)]
            out.append(".rep [%s]" % ", ".join("(%d, [%s])" % (i, ", ".join("." + p for p in ps)) for i, ps, _ in alts))
            rout.append(".rep [%s]" % ", ".join("(%d, [%s])" % (i, ", ".join('"%s"' % role_of(p, "checker " + k) for p in ps))
                                                for i, ps, k in alts))
    return "[" + ", ".join(out) + "]", "[" + ", ".join(rout) + "]"


def emit(kinds, app, checker):
    o = []
    w = o.append
    w("/- GENERATED by props/C43/gen.py from /repo/src/kernel/actor/*Observer.cpp and /repo/src/mc/transition/Transition*.cpp")
    w("   -- do not edit.  The last accepted copy is accepted/Gen.lean. -/")
    w("import SgVerif.C43.Model")
    w("namespace SgVerif.C43\n")
    w("/-- `Transition::Type` in declaration order; a kind is its index -/")
    w("def kindNames : List String := [%s]\n" % ", ".join('"%s"' % k for k in kinds))
    w("/-- what the checker-side constructor selected by `deserialize_transition` unpacks after the Type tag;")
    w("    `none`: `deserialize_transition` (or the constructor) dies for this kind -/")
    cl = {k: (None if checker[k] is None else lean_fields(checker[k], checker, kinds, "checker " + k)) for k in kinds}
    w("def checkerSchema : Nat → Option (List FieldTy)")
    for i, k in enumerate(kinds):
        w("  | %d => %s   -- %s" % (i, "none" if cl[k] is None else "some " + cl[k][0], k))
    w("  | _ => none\n")
    w("/-- the member each unpacked value ends in (normalised name), same positions as `checkerSchema` -/")
    w("def checkerRoles : Nat → Option (List FieldRole)")
    for i, k in enumerate(kinds):
        w("  | %d => %s   -- %s" % (i, "none" if cl[k] is None else "some " + cl[k][1], k))
    w("  | _ => none\n")
    w("/-- one entry per (observer class, variant, kind it is serialised under): what `serialize` packs after the tag")
    w("    (`app`) and what each packed expression denotes (`roles`) -/")
    names = []
    for obs, lab, k, fs in app:
        nm = "app_%s%s_%s" % (obs, re.sub(r"\W+", "_", lab).rstrip("_"), k)
        names.append(nm)
        ty, ro = lean_fields(fs, checker, kinds, obs + lab)
        w("def %s : Entry := { observer := \"%s%s\", kind := %d, dies := %s, app := %s, roles := %s }   -- %s" % (
            nm, obs, lab, kinds.index(k), "true" if lab.endswith("!dies") else "false", ty, ro, k))
    w("\ndef appTable : List Entry := [%s]\n" % ", ".join(names))
    w("end SgVerif.C43")
    return "\n".join(o) + "\n"
