// C43 harness (in-process part): REAL observers serialised into one end of a socketpair-backed Channel, REAL
// deserialize_transition on the other end.  Runs as a plain (non-MC) S4U simulation: the observers are built inside an
// actor, on real kernel objects (mutexes, semaphores, comms, ...), exactly as the s4u layer builds them.
//
// stdin: one case per line (read before the simulation starts)
//   mutex <ASYNC_LOCK|TRYLOCK|UNLOCK> <held:0|1>      MutexObserver            (held: the issuer owns the mutex)
//   mutexwait <held>                                   MutexAcquisitionObserver (MUTEX_WAIT)
//   sem <ASYNC_LOCK|UNLOCK> <capacity>                 SemaphoreObserver
//   semwait <capacity>                                 SemaphoreAcquisitionObserver (SEM_WAIT)
//   barrier <expected>                                 BarrierObserver (BARRIER_ASYNC_LOCK)
//   condvar <ASYNC_LOCK|SIGNAL|BROADCAST>              ConditionVariableObserver
//   condvarwait <granted01> <timeout01>                ConditionVariableObserver (CONDVAR_WAIT, on a real acquisition)
//   barrierwait <expected>                             BarrierObserver (BARRIER_WAIT, on a real acquisition)
//   random <min> <max> | join <timeout01> | sleep | create <child>
//   test <matched01> | wait <matched01> <timeout01>    ActivityTestSimcall / ActivityWaitSimcall on a comm
//   testany <n> <maskmatched> <maskexec> | waitany <n> <maskmatched> <maskexec>    members: comms (or execs = "other")
// stdout: `<case> => <observer> <hex of the bytes serialize() produced> | <status> | <to_string(true) of the decoded transition> | truth k=v..`
//   status: ok | leftover (bytes unread) | hang (the checker side blocks > 2 s) | die
//   truth: what the application did, read from the objects themselves (ids of the objects the observer was built on,
//   flags), under the names the checker prints them with.  Dummy objects are created first and between cases so that
//   the ids of the objects of one case are non-zero and pairwise different (all id counters start at 0: two ids of
//   the same wire type that are mixed up cannot be seen when they are equal).
#include <cstdio>
#include <fcntl.h>
#include <functional>
#include <iostream>
#include <map>
#include <memory>
#include <sstream>
#include <string>
#include <vector>
#include "src/kernel/activity/BarrierImpl.hpp"
#include "src/kernel/activity/CommImpl.hpp"
#include "src/kernel/activity/ConditionVariableImpl.hpp"
#include "src/kernel/activity/ExecImpl.hpp"
#include "src/kernel/activity/MutexImpl.hpp"
#include "src/kernel/activity/SemaphoreImpl.hpp"
#include "src/kernel/actor/ActorImpl.hpp"
#include "src/kernel/actor/CommObserver.hpp"
#include "src/kernel/actor/SimcallObserver.hpp"
#include "src/kernel/actor/SynchroObserver.hpp"
#include "src/kernel/actor/WaitTestObserver.hpp"
#include "src/mc/remote/Channel.hpp"
#include "src/mc/transition/Transition.hpp"
#include <simgrid/s4u.hpp>

#include <cstdio>
#include <iostream>
#include <memory>
#include <sstream>
#include <sys/socket.h>
#include <sys/wait.h>
#include <unistd.h>
#include <vector>

namespace sg4 = simgrid::s4u;
using namespace simgrid;
using TT = mc::Transition::Type;
static_assert(sizeof(TT) == 4, "the Lean model encodes the Type tag on 4 bytes");
static_assert(sizeof(aid_t) == 8 && sizeof(unsigned) == 4 && sizeof(bool) == 1 && sizeof(void*) == 8 && sizeof(unsigned short) == 2,
              "wire widths of the Lean model");

// the s4u synchronisation objects keep their kernel object in a private `pimpl_` without accessor: reach it through
// the explicit-instantiation rule (access checks do not apply to explicit template instantiation arguments)
template <class Tag, typename Tag::type M> struct Rob {
  friend typename Tag::type get(Tag) { return M; }
};
#define ROB(Tag, Cls, Impl, constq)                                                                                    \
  struct Tag {                                                                                                         \
    using type = kernel::activity::Impl* constq sg4::Cls::*;                                                           \
    friend type get(Tag);                                                                                              \
  };                                                                                                                   \
  template struct Rob<Tag, &sg4::Cls::pimpl_>;
ROB(MutexTag, Mutex, MutexImpl, const)
ROB(SemTag, Semaphore, SemaphoreImpl, const)
ROB(BarTag, Barrier, BarrierImpl, )
ROB(CvTag, ConditionVariable, ConditionVariableImpl, const)
#define PIMPL(ptr, Tag) ((*(ptr)).*get(Tag()))

static std::vector<std::string> cases;

static void emit(const std::string& line, const std::string& obs_name, const kernel::actor::SimcallObserver& obs,
                 const std::string& truth = "")
{
  int sv[2];
  xbt_assert(socketpair(AF_UNIX, SOCK_STREAM, 0, sv) == 0);
  {
    auto a = std::make_unique<mc::Channel>(sv[0]);
    obs.serialize(*a);
    a->send();
    // keep sv[0] open until the child is done: a closed peer would turn a blocking read into EOF
    a->reset_socket(-1);
  }
  static char buf[1 << 16];
  ssize_t n = recv(sv[1], buf, sizeof buf, MSG_PEEK | MSG_DONTWAIT);
  std::string hex;
  for (ssize_t i = 0; i < n; i++) {
    char h[3];
    snprintf(h, sizeof h, "%02x", (unsigned char)buf[i]);
    hex += h;
  }
  int pfd[2];
  xbt_assert(pipe(pfd) == 0);
  fflush(stdout);
  pid_t pid = fork();
  if (pid == 0) {
    close(pfd[0]);
    int dn = open("/dev/null", O_WRONLY);
    dup2(dn, 2);
    alarm(2);
    auto b         = std::make_unique<mc::Channel>(sv[1]);
    auto* t        = mc::deserialize_transition(mc::Aid{(int)obs.get_issuer()->get_pid()}, 0, *b);
    std::string s  = std::string(b->has_pending_data() ? "leftover" : "ok") + " | " + t->to_string(true);
    ssize_t w      = write(pfd[1], s.data(), s.size());
    _exit(w == (ssize_t)s.size() ? 0 : 3);
  }
  close(pfd[1]);
  std::string res;
  char c;
  while (read(pfd[0], &c, 1) == 1)
    res += c;
  close(pfd[0]);
  int st;
  waitpid(pid, &st, 0);
  if (WIFSIGNALED(st) && WTERMSIG(st) == SIGALRM)
    res = "hang | ";
  else if (!(WIFEXITED(st) && WEXITSTATUS(st) == 0))
    res = "die | ";
  close(sv[0]);
  close(sv[1]);
  std::cout << line << " => " << obs_name << " " << hex << " | " << res << " | truth" << truth << "\n";
}

static TT kind_of(const std::string& prefix, const std::string& k)
{
  for (int i = 0; i <= (int)TT::UNKNOWN; i++)
    if (prefix + k == mc::Transition::to_c_str((TT)i))
      return (TT)i;
  xbt_die("bad kind %s%s", prefix.c_str(), k.c_str());
}

static std::string kv(const char* k, long v)
{
  return std::string(" ") + k + "=" + std::to_string(v);
}

static void run_cases()
{
  auto* issuer = kernel::actor::ActorImpl::self();
  auto* host   = sg4::this_actor::get_host();
  int mbn      = 0;
  // dummies: different offsets for the four id counters, none of them 0
  std::vector<sg4::MutexPtr> dummy_m{sg4::Mutex::create(), sg4::Mutex::create()};
  std::vector<sg4::ConditionVariablePtr> dummy_c;
  std::vector<sg4::SemaphorePtr> dummy_s;
  std::vector<sg4::BarrierPtr> dummy_b;
  for (int i = 0; i < 5; i++)
    dummy_c.push_back(sg4::ConditionVariable::create());
  for (int i = 0; i < 3; i++)
    dummy_s.push_back(sg4::Semaphore::create(1));
  for (int i = 0; i < 7; i++)
    dummy_b.push_back(sg4::Barrier::create(2));
  // a mutex whose id differs from the id of `cv`
  auto mutex_unlike = [&dummy_m](const sg4::ConditionVariablePtr& cv) {
    auto m = sg4::Mutex::create();
    while (PIMPL(m, MutexTag)->get_id() == PIMPL(cv, CvTag)->get_id()) {
      dummy_m.push_back(m);
      m = sg4::Mutex::create();
    }
    return m;
  };
  for (auto const& line : cases) {
    std::istringstream in(line);
    std::string cmd;
    in >> cmd;
    if (cmd == "mutex" || cmd == "mutexwait") {
      std::string k = "WAIT";
      int held;
      if (cmd == "mutex")
        in >> k;
      in >> held;
      auto m = sg4::Mutex::create();
      if (held && cmd == "mutex")
        m->lock();
      if (cmd == "mutex") {
        kernel::actor::MutexObserver obs{issuer, kind_of("MUTEX_", k), PIMPL(m, MutexTag)};
        emit(line, "MutexObserver", obs, kv("mutex", PIMPL(m, MutexTag)->get_id()));
        if (held)
          m->unlock();
      } else {
        auto acq = kernel::actor::simcall_answered([&] { return PIMPL(m, MutexTag)->lock_async(issuer); });
        kernel::actor::MutexAcquisitionObserver obs{issuer, TT::MUTEX_WAIT, acq.get(), -1};
        emit(line, "MutexAcquisitionObserver", obs, kv("mutex", PIMPL(m, MutexTag)->get_id()));
        m->unlock(); // the acquisition on a free mutex was granted at once
      }
    } else if (cmd == "sem") {
      std::string k;
      unsigned cap;
      in >> k >> cap;
      auto s = sg4::Semaphore::create(cap);
      kernel::actor::SemaphoreObserver obs{issuer, kind_of("SEM_", k), PIMPL(s, SemTag)};
      emit(line, "SemaphoreObserver", obs, kv("semaphore", PIMPL(s, SemTag)->get_id()));
    } else if (cmd == "semwait") {
      unsigned cap;
      in >> cap;
      auto s   = sg4::Semaphore::create(cap);
      auto acq = kernel::actor::simcall_answered([&] { return PIMPL(s, SemTag)->acquire_async(issuer); });
      kernel::actor::SemaphoreAcquisitionObserver obs{issuer, TT::SEM_WAIT, acq.get(), -1};
      emit(line, "SemaphoreAcquisitionObserver", obs, kv("semaphore", PIMPL(s, SemTag)->get_id()));
      s->release(); // gives the capacity back (or grants the pending acquisition): the semaphore can be destroyed
    } else if (cmd == "barrier") {
      unsigned n;
      in >> n;
      auto b = sg4::Barrier::create(n);
      kernel::actor::BarrierObserver obs{issuer, TT::BARRIER_ASYNC_LOCK, PIMPL(b, BarTag)};
      emit(line, "BarrierObserver", obs, kv("barrier", PIMPL(b, BarTag)->get_id()));
    } else if (cmd == "barrierwait") {
      unsigned n;
      in >> n;
      auto b   = sg4::Barrier::create(n);
      auto acq = kernel::actor::simcall_answered([&] { return PIMPL(b, BarTag)->acquire_async(issuer); });
      kernel::actor::BarrierObserver obs{issuer, TT::BARRIER_WAIT, acq.get(), -1};
      emit(line, "BarrierObserver", obs, kv("barrier", PIMPL(b, BarTag)->get_id()));
    } else if (cmd == "condvar") {
      std::string k;
      in >> k;
      auto cv = sg4::ConditionVariable::create();
      auto m  = mutex_unlike(cv);
      if (k == "ASYNC_LOCK") {
        kernel::actor::ConditionVariableObserver obs{issuer, TT::CONDVAR_ASYNC_LOCK, PIMPL(cv, CvTag), PIMPL(m, MutexTag)};
        emit(line, "ConditionVariableObserver", obs,
             kv("cond", PIMPL(cv, CvTag)->get_id()) + kv("mutex", PIMPL(m, MutexTag)->get_id()));
      } else {
        kernel::actor::ConditionVariableObserver obs{issuer, kind_of("CONDVAR_", k), PIMPL(cv, CvTag)};
        emit(line, "ConditionVariableObserver", obs, kv("cond", PIMPL(cv, CvTag)->get_id()));
      }
    } else if (cmd == "condvarwait") {
      int granted, to;
      in >> granted >> to;
      auto cv = sg4::ConditionVariable::create();
      auto m  = mutex_unlike(cv);
      m->lock();
      // what ConditionVariable::wait_for does under the checker: CONDVAR_ASYNC_LOCK registers the acquisition (and
      // releases the mutex), the CONDVAR_WAIT observer is built on that acquisition
      auto acq = kernel::actor::simcall_answered(
          [&] { return PIMPL(cv, CvTag)->acquire_async(issuer, PIMPL(m, MutexTag)); });
      if (granted)
        cv->notify_one();
      {
        kernel::actor::ConditionVariableObserver obs{issuer, TT::CONDVAR_WAIT, acq.get(), to ? 5.0 : -1.0};
        emit(line, "ConditionVariableObserver", obs,
             kv("cond", PIMPL(cv, CvTag)->get_id()) + kv("mutex", PIMPL(m, MutexTag)->get_id()) + kv("granted", granted) +
                 kv("timeout", to));
      }
      if (not granted)
        cv->notify_one(); // takes the acquisition out of the queue: the condvar can be destroyed
    } else if (cmd == "random") {
      int a, b;
      in >> a >> b;
      kernel::actor::RandomSimcall obs{issuer, a, b};
      emit(line, "RandomSimcall", obs);
    } else if (cmd == "join") {
      int to;
      in >> to;
      auto other = host->add_actor("sleeper", []() { sg4::this_actor::sleep_for(1000); });
      kernel::actor::ActorJoinSimcall obs{issuer, other->get_impl(), to ? 5.0 : -1.0};
      emit(line, "ActorJoinSimcall", obs);
      other->kill();
    } else if (cmd == "sleep") {
      kernel::actor::ActorSleepSimcall obs{issuer};
      emit(line, "ActorSleepSimcall", obs);
    } else if (cmd == "create") {
      long child;
      in >> child;
      kernel::actor::ActorCreateSimcall obs{issuer};
      obs.set_child(child);
      emit(line, "ActorCreateSimcall", obs);
    } else if (cmd == "test" || cmd == "wait" || cmd == "testany" || cmd == "waitany") {
      int n = 1, matched = 0, execs = 0, to = 0;
      if (cmd == "test")
        in >> matched;
      else if (cmd == "wait")
        in >> matched >> to;
      else
        in >> n >> matched >> execs;
      std::vector<sg4::ActivityPtr> keep;
      std::vector<kernel::activity::ActivityImpl*> acts;
      std::vector<void*> bufs(n, nullptr);
      for (int i = 0; i < n; i++) {
        if (execs & (1 << i)) {
          auto e = sg4::this_actor::exec_async(1e12);
          keep.push_back(e);
          acts.push_back(e->get_impl());
          continue;
        }
        auto* mb = sg4::Mailbox::by_name("mb" + std::to_string(mbn++));
        if (matched & (1 << i)) {
          auto r = mb->get_async<void>(&bufs[i]);
          keep.push_back(r);
        }
        auto c = mb->put_async(&bufs, 1e12);
        keep.push_back(c);
        acts.push_back(c->get_impl());
      }
      if (cmd == "test") {
        kernel::actor::ActivityTestSimcall obs{issuer, acts[0], "loc"};
        emit(line, "ActivityTestSimcall", obs);
      } else if (cmd == "wait") {
        kernel::actor::ActivityWaitSimcall obs{issuer, acts[0], to ? 5.0 : -1.0, "loc"};
        emit(line, "ActivityWaitSimcall", obs);
      } else if (cmd == "testany") {
        kernel::actor::ActivityTestanySimcall obs{issuer, acts, "loc"};
        emit(line, "ActivityTestanySimcall", obs);
      } else {
        kernel::actor::ActivityWaitanySimcall obs{issuer, acts, -1, "loc"};
        emit(line, "ActivityWaitanySimcall", obs);
      }
      for (auto& a : keep)
        a->cancel();
    } else {
      std::cout << line << " => badcase\n";
    }
  }
}

int main(int argc, char* argv[])
{
  sg4::Engine e(&argc, argv);
  std::string line;
  while (std::getline(std::cin, line))
    if (!line.empty())
      cases.push_back(line);
  auto* zone = e.get_netzone_root();
  auto* h    = zone->add_host("h0", 1e9);
  zone->seal();
  h->add_actor("main", run_cases);
  e.run();
  return 0;
}
