"""C17 — selective (lazy) solving equals full recomputation.
Theorems: lean/SgVerif/C17/Props.lean (over lean/SgVerif/LmmBook/Model.lean).  Tie: generated histories are applied to a
real selective-update System; after every effective solve a FRESH non-selective system is rebuilt from the live
variables/constraints and solved from scratch: all values must agree (1e-9 relative) — this is the property itself,
evaluated on the implementation.  In addition the whole bookkeeping state (modified set in order, visited marks,
visited_counter_) is compared with the model after EVERY operation."""
import os
import sys

sys.path.insert(0, os.path.join(os.path.dirname(os.path.abspath(__file__)), "..", "_shared", "lmmbook"))
import common  # noqa: E402
from vlib.core import SplitMix  # noqa: E402


def run(ctx):
    ctx.cov["rule"] = ("histories of public System operations drawn from splitmix64(VERIF_SEED) (profiles: tight limits, chains "
                       "of constraints, mixed, force_creation, visited_counter_ preset near the wrap); non-trivial = history with "
                       ">= 2 effective solves of which at least one re-solved a strict non-empty subset of the active "
                       "constraints (observed on the implementation: modified set vs active set before the solve)")
    ctx.assumptions += ["the solver arithmetic (maxmin_solve) is not modelled here: it enters the theorems as the locality "
                        "hypothesis on an abstract solver (C15/C16 model it); values are compared implementation vs implementation",
                        "visited_counter_ is preset through private access to emulate 2^32-k earlier solves (the model proves "
                        "what k solves do to the counter)",
                        "values compared with relative tolerance 1e-9 (absolute 1e-12)"]
    ctx.ensure_simgrid(["simgrid"])
    ctx.lean_prove()
    drv = ctx.lean_exe()
    h = ctx.build_harness(os.path.join(common.HERE, "harness.cpp"), name="lmmbook")
    if not (drv and h):
        return
    quick = ctx.tier == "quick"
    ncases, maxops = (250, 60) if quick else (2500, 400)
    if ctx.broken:
        ncases *= 10
    if ctx.replay:
        cases = common.load_replay(ctx.replay)
    else:
        rng = SplitMix(ctx.seed)
        cases = common.read_corpus(os.path.join(ctx.pdir, "corpus.txt"))
        for i in range(ncases):
            m = maxops if (quick or i % 5 == 0) else 60
            cases.append(common.gen_case(rng.fork(i), i, m, c17=True))
    res = common.run_cases(ctx, h, drv, cases, c17=True)
    if res is None:
        return
    stats = {}
    prof = {}
    for case, _, _, eff, out in common.judge_results(ctx, h, drv, res, True, stats):
        prof[case["profile"]] = prof.get(case["profile"], 0) + 1
        # a solve that re-solved a strict, non-empty subset of the active constraints
        partial, prev = 0, None
        for q, l in zip(case["lines"], out):
            toks = l.split(" => ", 1)[1].split(" ") if " => " in l else []
            if q == "solve" and prev is not None and any(t.startswith("X") for t in toks):
                a = [t for t in prev if t.startswith("A")]
                m = [t for t in prev if t.startswith("M")]
                if a and m:
                    aset = set(a[0][1:].split(";")) - {""}
                    mset = set(m[0][1:].split(";")) - {""}
                    if mset and mset < aset:
                        partial += 1
            prev = toks
        stats["partial_solves"] = stats.get("partial_solves", 0) + partial
        if eff >= 2 and partial >= 1:
            ctx.cov["distinct_nontrivial"] += 1
            if len(ctx.cov["samples"]) < 4:
                ctx.cov["samples"].append(" ; ".join(case["lines"][:14]) + " ...")
    ctx.cov["cases"] = len(cases)
    ctx.cov["profiles"] = prof
    ctx.cov["model_cfg_bits"] = common.CFG_BITS
    ctx.cov.update(stats)
