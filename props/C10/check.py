"""C10 — resource failures are reported to every live participant.
Theorems: lean/SgVerif/C10/Props.lean (over the transition system of Model.lean, all reachable states).
Tie: fault injection.  For each generated communicating program (harness.cpp interprets it through the S4U API):
  step 1  fault-free run -> the distinct event dates;
  step 2  one run per (resource in hosts+links, date in {event date, just before, just after}), the failure being issued
          by a controller actor on a host that never fails or by a state profile, + seeded pairs of failures (incl. turn_on);
every log is replayed on the Lean model (trace acceptance) and the monitor `failureOk` is evaluated on it (Driver.lean)."""
import json
import os
from fractions import Fraction
from vlib.core import SplitMix

EPS = Fraction(1, 1024)
KEY_ASSERT = "comm-start-on-failed-endpoint-aborts"


def hexdate(fr):
    return float(fr).hex()


# ------------------------------------------------------------------ program generator
def gen_program(rng, idx):
    """A program = platform + actors' op lists.  Ops are appended following one global order of "items", so that the
    fault-free run has few application-level deadlocks; a share of programs is deliberately unstructured."""
    nh = rng.range(2, 4)
    nl = rng.range(1, 4)
    routes = []
    for i in range(nh):
        for j in range(i + 1, nh):
            ls = list(range(nl))
            rng.shuffle(ls)
            k = rng.choice([1, 1, 2, 3])           # multi-link routes: a failure in the middle of the route
            routes.append((i, j, ls[:max(1, min(k, nl))]))
    na = rng.range(2, 5)
    hosts = [rng.below(nh) for _ in range(na)]
    if na >= 2 and len(set(hosts)) == 1:           # at least two hosts carry actors
        hosts[1] = (hosts[0] + 1) % nh
    ops = [[] for _ in range(na)]
    slot = [0] * na
    pending = [[] for _ in range(na)]               # slots not waited yet
    nitems = rng.range(2, 7)
    mbn = 0

    def flush_waits(a, force=False):
        # let asynchronous handles pile up now and then, so that wait_any sees several activities one of which fails
        if pending[a] and (force or rng.chance(1, 2 if len(pending[a]) >= 2 else 4)):
            if len(pending[a]) >= 2 and rng.chance(1, 2):
                ops[a].append("wany." + ".".join(str(s) for s in pending[a]))
                if rng.chance(1, 2):
                    for s in pending[a]:
                        ops[a].append("wait.%d" % s)
                    pending[a] = []
            else:
                s = pending[a].pop(0)
                if rng.chance(1, 4):
                    ops[a].append("test.%d" % s)
                ops[a].append("wait.%d" % s)

    for _ in range(nitems):
        kind = rng.below(10)
        if kind <= 5:                                # a communication
            s = rng.below(na)
            r = rng.below(na)
            if r == s:
                r = (s + 1) % na
            if hosts[r] == hosts[s] and rng.chance(3, 4):
                cands = [x for x in range(na) if hosts[x] != hosts[s]]
                if cands:
                    r = rng.choice(cands)
            mb = mbn % 8 if rng.chance(5, 6) else rng.below(8)
            mbn += 1
            size = rng.choice([256, 512, 1024, 2048, 4096])
            ss = rng.choice(["put", "put", "iput", "iput", "iput", "dput"])
            rs = rng.choice(["get", "get", "iget", "iget"])
            first, second = (s, r) if rng.chance(1, 2) else (r, s)
            for a in (first, second):
                if a == s:
                    if ss == "put":
                        ops[a].append("put.%d.%d" % (mb, size))
                    elif ss == "dput":
                        ops[a].append("dput.%d.%d" % (mb, size))
                    else:
                        ops[a].append("iput.%d.%d.%d" % (mb, size, slot[a]))
                        pending[a].append(slot[a])
                        slot[a] += 1
                else:
                    if rs == "get":
                        ops[a].append("get.%d" % mb)
                    else:
                        ops[a].append("iget.%d.%d" % (mb, slot[a]))
                        pending[a].append(slot[a])
                        slot[a] += 1
        elif kind <= 7:                              # an execution, often on another host
            a = rng.below(na)
            h = rng.below(nh)
            fl = rng.choice([256, 512, 1024, 2048])
            if rng.chance(1, 3):
                ops[a].append("iexec.%d.%d.%d" % (h, fl, slot[a]))
                pending[a].append(slot[a])
                slot[a] += 1
            else:
                ops[a].append("exec.%d.%d" % (h, fl))
        elif kind == 8:
            ops[rng.below(na)].append("sleep.%d" % rng.choice([1, 4, 8, 16, 32]))
        else:                                        # host-to-host comm driven by a third party
            a = rng.below(na)
            hf = rng.below(nh)
            ht = (hf + 1 + rng.below(nh - 1)) % nh
            ops[a].append("sendto.%d.%d.%d" % (hf, ht, rng.choice([512, 1024, 2048])))
        for a in range(na):
            flush_waits(a)
    for a in range(na):
        while pending[a]:
            flush_waits(a, True)
        if rng.chance(1, 5):
            ops[a].append("sleep.%d" % rng.choice([4, 16]))
    return {"nh": nh, "nl": nl, "routes": routes, "hosts": hosts, "ops": ops}


def prog_str(p):
    t = ["run", "H%d" % p["nh"], "L%d" % p["nl"]]
    for i, j, ls in p["routes"]:
        t.append("r:%d:%d:%s" % (i, j, ".".join(map(str, ls))))
    for h, o in zip(p["hosts"], p["ops"]):
        t.append("a:%d:%s" % (h, ",".join(o)))
    return " ".join(t)


def fault_str(faults):
    return " ".join("f:%s:%s:%s:%s" % (m, d, r, hexdate(t)) for (m, d, r, t) in faults)


def log_dates(log):
    ds = set()
    for l in log.split(" | "):
        tok = l.split()
        if tok and tok[0].startswith("0x"):
            ds.add(Fraction(float.fromhex(tok[0])))
    return sorted(ds)


def fault_points(p, dates, rng, tier):
    """(resource, date, mode) for every resource and every date in {d, d-eps, d+eps}; quick: a seeded sample of ~40"""
    res = ["h%d" % i for i in range(p["nh"])] + ["l%d" % i for i in range(p["nl"])]
    cand = set()
    for d in dates:
        for x in (d, d - EPS, d + EPS):
            if x > 0:
                cand.add(x)
    cand = sorted(cand)
    pts = []
    for r in res:
        for t in cand:
            pts.append((r, t))
    cases = []
    if tier == "thorough":
        for k, (r, t) in enumerate(pts):
            cases.append([("c" if k % 2 else "p", "off", r, t)])
    else:
        rng.shuffle(pts)
        for k, (r, t) in enumerate(pts[:28]):
            cases.append([("c" if k % 3 else "p", "off", r, t)])
    # pairs of failures, and failure followed by turn_on (then a later comm can succeed)
    npairs = 5 if tier == "quick" else 16
    for k in range(npairs):
        if not pts:
            break
        r1, t1 = rng.choice(pts)
        r2, t2 = rng.choice(pts)
        m = rng.choice(["c", "c", "p"])
        if rng.chance(1, 2):
            t2 = t1 + rng.choice([EPS, Fraction(1, 4), Fraction(1, 2), Fraction(1)])
            cases.append([(m, "off", r1, t1), (m, "on", r1, t2)])
        else:
            a, b = sorted([(t1, r1), (t2, r2)])
            if a[1] == b[1] and m == "p" and a[0] == b[0]:
                continue
            cases.append([(m, "off", a[1], a[0]), (m, "off", b[1], b[0])])
    return cases


KEY_WANY = "waitany-after-failed-simcall-segv"
KEY_ZOMBIE = "host-off-marks-peer-dying-without-exit"


def classify(verdict, impl, query=""):
    if "aborts" in verdict and "CommImpl::start" in verdict:
        return KEY_ASSERT
    if "[zombie:" in verdict:
        # (fixed defect; only the pre-fix model variant `unregisterMarksDying := true` produces this note)
        # an actor of the failed host was marked dying by unregister_first_simcall during the kill of a co-hosted peer;
        # HostImpl::turn_off then skipped it: it never terminated
        return KEY_ZOMBIE
    if "CRASH 11" in impl:
        # SIGSEGV while an actor enters wait_any right after one of its simcalls ended with an exception
        # (Simcall.cpp leaves simcall_.observer_ dangling; ActivityWaitanySimcall's constructor dereferences it)
        lines = [l.split() for l in impl.split(" | ")]
        issues = [l for l in lines if len(l) >= 4 and l[2] == "issue"]
        if issues:
            who, k = issues[-1][1], int(issues[-1][3])
            progs = [t.split(":")[2].split(",") for t in query.split() if t.startswith("a:")]
            a = int(who[1:])
            rets = [l for l in lines if len(l) >= 5 and l[1] == who and l[2] == "ret"]
            if a < len(progs) and k < len(progs[a]) and progs[a][k].startswith("wany") and rets and rets[-1][4] in ("net", "host"):
                return KEY_WANY
    return None


def features(query, impl, cov):
    """which classes of the quantifier domain the run reached (measured on the implementation's log)"""
    ops = {}
    for t in query.split():
        if t.startswith("a:"):
            ai = len(ops)
            ops[ai] = t.split(":")[2].split(",") if t.split(":")[2] else []
    hit = set()
    for l in impl.split(" | "):
        tok = l.split()
        if len(tok) >= 5 and tok[2] == "ret":
            a = int(tok[1][1:])
            k = int(tok[3])
            name = ops.get(a, [""] * (k + 1))[k].split(".")[0] if k < len(ops.get(a, [])) else "?"
            r = tok[4].split(".")[0]
            if r not in ("ok", "true", "false"):
                hit.add("%s:%s" % (name, r))
        elif len(tok) >= 4 and tok[2] == "exit" and tok[3] == "1":
            hit.add("killed")
        elif len(tok) >= 2 and tok[1] == "deadlock":
            hit.add("deadlock" if len(tok) > 2 else "deadlock-empty")
        elif tok and tok[0] == "CRASH":
            hit.add("abort")
    if " on:" in query.replace("f:c:on", " on:").replace("f:p:on", " on:"):
        hit.add("turn_on")
    for h in hit:
        cov[h] = cov.get(h, 0) + 1
    return hit


def run(ctx):
    ctx.cov["rule"] = ("one evaluation = one run of a generated program under one fault schedule, replayed on the model; "
                       "non-trivial = distinct (program, schedule) whose log shows an effect of the failure: an exception, "
                       "a kill (on_exit failed=1), a deadlock report or an abort")
    ctx.assumptions += [
        "dates are not predicted by the model: completion of an action is an event read from the log (isolated durations are C20's business)",
        "sequential context factory: the order of `issue` lines in one scheduling round is the order in which maestro handles the simcalls",
        "equal-date tie between a state-profile link failure and the end of a comm: either order accepted (driver replays the completion first)",
        "the harness reads kernel state (activity states, waiting_synchros_, run list) to name activities and scheduling rounds; it never changes it",
    ]
    ctx.ensure_simgrid(["simgrid"])
    ctx.lean_prove()
    drv = ctx.lean_exe()
    h = ctx.build_harness("harness.cpp")
    if not (drv and h):
        return
    jobs = str(min(8, os.cpu_count() or 4))

    def harness(queries):
        rc, out, err = ctx.run_lines([h, jobs], queries, timeout=3000)
        if rc != 0 or len(out) != len(queries):
            ctx.broken.append({"kind": "harness-run", "rc": rc, "stderr": err[-2000:], "lines": len(out)})
            return None
        return out

    def judge(lines):
        rc, verdicts, err = ctx.run_lines([drv], lines, timeout=3000)
        if rc != 0 or not verdicts or verdicts[-1] != "END %d" % len(lines):
            ctx.broken.append({"kind": "driver-run", "rc": rc, "stderr": err[-2000:]})
            return None
        return verdicts[:-1]

    corpus = [l.strip() for l in open(ctx.pdir + "/corpus.txt") if l.strip() and not l.startswith("#")]
    if ctx.replay:
        queries = [json.load(open(ctx.replay))["case"]["query"]]
    else:
        rng = SplitMix(ctx.seed)
        nprog = int(os.environ.get("VERIF_C10_PROGRAMS", "0")) or (10 if ctx.tier == "quick" else 60)
        if ctx.broken:
            nprog *= 4        # search mode: proof or build broke, look harder for a failing input
        progs = [gen_program(rng.fork(i), i) for i in range(nprog)]
        base = [prog_str(p) for p in progs]
        out = harness(base)
        if out is None:
            return
        queries = list(corpus)
        for i, (p, q, l) in enumerate(zip(progs, base, out)):
            impl = l.split(" => ", 1)[1] if " => " in l else ""
            queries.append(q)
            if "CRASH" in impl or "HANG" in impl:
                continue
            for fs in fault_points(p, log_dates(impl), rng.fork(1000 + i), ctx.tier):
                queries.append(q + " " + fault_str(fs))
        ctx.cov["programs"] = nprog
    out = harness(queries)
    if out is None:
        return
    verdicts = judge(out)
    if verdicts is None:
        return
    dist = {}
    nontrivial = set()
    disagreements = 0
    for q, l, v in zip(queries, out, verdicts):
        ctx.cov["evaluations"] += 1
        impl = l.split(" => ", 1)[1] if " => " in l else ""
        if features(q, impl, dist) and q not in nontrivial:
            nontrivial.add(q)
        if v == "ok":
            ctx.cov["traces_validated_against_impl"] += 1
        elif v.startswith("MONFAIL"):
            what = v.split(" => ", 1)[1] if " => " in v else v
            ctx.violation(what, {"query": q, "impl": impl, "verdict": v}, key=classify(v, impl, q))
        else:
            # the model does not accept the implementation's trace while the monitor holds on it: correspondence broken
            disagreements += 1
            if disagreements <= 5:
                ctx.broken.append({"kind": "trace-not-accepted", "query": q, "verdict": v[:600]})
    ctx.cov["distinct_nontrivial"] = len(nontrivial)
    ctx.cov["distribution"] = dict(sorted(dist.items()))
    ctx.cov["disagreements"] = disagreements
    ctx.cov["samples"] = out[len(corpus):len(corpus) + 2] + out[-2:]
