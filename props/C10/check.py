"""C10 — resource failures are reported to every live participant.
Theorems: lean/SgVerif/C10/Props.lean (over the transition system of Model.lean, all reachable states).
Tie: fault injection.  For each generated communicating program (harness.cpp interprets it through the S4U API):
  step 1  fault-free run -> the distinct event dates;
  step 2  one run per (resource in hosts+links, date in {event date, just before, just after}), the failure being issued
          by a controller actor on a host that never fails or by a state profile, + seeded pairs of failures (incl. turn_on);
  second program class (`M:ptask`, host model ptask_L07): parallel executions on host lists; every parallel execution is hit
          on the first, a middle and the last host of its list at its start / middle / end dates (`ptask_fault_points`);
every log is replayed on the Lean model (trace acceptance) and the monitor `failureOk` is evaluated on it (Driver.lean)."""
import json
import os
from fractions import Fraction
from vlib.core import SplitMix

EPS = Fraction(1, 1024)
KEY_ASSERT = "comm-start-on-failed-endpoint-aborts"


def hexdate(fr):
    return float(fr).hex()


# ------------------------------------------------------------------ program generator
def gen_program(rng, idx):
    """A program = platform + actors' op lists.  Ops are appended following one global order of "items", so that the
    fault-free run has few application-level deadlocks; a share of programs is deliberately unstructured."""
    nh = rng.range(2, 4)
    nl = rng.range(1, 4)
    routes = []
    for i in range(nh):
        for j in range(i + 1, nh):
            ls = list(range(nl))
            rng.shuffle(ls)
            k = rng.choice([1, 1, 2, 3])           # multi-link routes: a failure in the middle of the route
            routes.append((i, j, ls[:max(1, min(k, nl))]))
    na = rng.range(2, 5)
    hosts = [rng.below(nh) for _ in range(na)]
    if na >= 2 and len(set(hosts)) == 1:           # at least two hosts carry actors
        hosts[1] = (hosts[0] + 1) % nh
    ops = [[] for _ in range(na)]
    slot = [0] * na
    pending = [[] for _ in range(na)]               # slots not waited yet
    nitems = rng.range(2, 7)
    mbn = 0

    def flush_waits(a, force=False):
        # let asynchronous handles pile up now and then, so that wait_any sees several activities one of which fails
        if pending[a] and (force or rng.chance(1, 2 if len(pending[a]) >= 2 else 4)):
            if len(pending[a]) >= 2 and rng.chance(1, 2):
                ops[a].append("wany." + ".".join(str(s) for s in pending[a]))
                if rng.chance(1, 2):
                    for s in pending[a]:
                        ops[a].append("wait.%d" % s)
                    pending[a] = []
            else:
                s = pending[a].pop(0)
                if rng.chance(1, 4):
                    ops[a].append("test.%d" % s)
                ops[a].append("wait.%d" % s)

    for _ in range(nitems):
        kind = rng.below(10)
        if kind <= 5:                                # a communication
            s = rng.below(na)
            r = rng.below(na)
            if r == s:
                r = (s + 1) % na
            if hosts[r] == hosts[s] and rng.chance(3, 4):
                cands = [x for x in range(na) if hosts[x] != hosts[s]]
                if cands:
                    r = rng.choice(cands)
            mb = mbn % 8 if rng.chance(5, 6) else rng.below(8)
            mbn += 1
            size = rng.choice([256, 512, 1024, 2048, 4096])
            ss = rng.choice(["put", "put", "iput", "iput", "iput", "dput"])
            rs = rng.choice(["get", "get", "iget", "iget"])
            first, second = (s, r) if rng.chance(1, 2) else (r, s)
            for a in (first, second):
                if a == s:
                    if ss == "put":
                        ops[a].append("put.%d.%d" % (mb, size))
                    elif ss == "dput":
                        ops[a].append("dput.%d.%d" % (mb, size))
                    else:
                        ops[a].append("iput.%d.%d.%d" % (mb, size, slot[a]))
                        pending[a].append(slot[a])
                        slot[a] += 1
                else:
                    if rs == "get":
                        ops[a].append("get.%d" % mb)
                    else:
                        ops[a].append("iget.%d.%d" % (mb, slot[a]))
                        pending[a].append(slot[a])
                        slot[a] += 1
        elif kind <= 7:                              # an execution, often on another host
            a = rng.below(na)
            h = rng.below(nh)
            fl = rng.choice([256, 512, 1024, 2048])
            if rng.chance(1, 3):
                ops[a].append("iexec.%d.%d.%d" % (h, fl, slot[a]))
                pending[a].append(slot[a])
                slot[a] += 1
            else:
                ops[a].append("exec.%d.%d" % (h, fl))
        elif kind == 8:
            ops[rng.below(na)].append("sleep.%d" % rng.choice([1, 4, 8, 16, 32]))
        else:                                        # host-to-host comm driven by a third party
            a = rng.below(na)
            hf = rng.below(nh)
            ht = (hf + 1 + rng.below(nh - 1)) % nh
            ops[a].append("sendto.%d.%d.%d" % (hf, ht, rng.choice([512, 1024, 2048])))
        for a in range(na):
            flush_waits(a)
    for a in range(na):
        while pending[a]:
            flush_waits(a, True)
        if rng.chance(1, 5):
            ops[a].append("sleep.%d" % rng.choice([4, 16]))
    return {"nh": nh, "nl": nl, "routes": routes, "hosts": hosts, "ops": ops}


def gen_ptask_program(rng, idx):
    """Program class `M:ptask` (host model ptask_L07): parallel executions on host LISTS (`Exec::set_hosts`), blocking
    (`pexec`) or asynchronous (`ipexec` … wait / wait_any / test), mixed with one-host executions and sleeps; no
    communication (under ptask_L07 a comm is an L07Action spanning both cpus: not what Model.lean describes), no link.
    Most actors live on host 0/1 and most host lists avoid the issuer's host, so that the issuer survives the failure of
    any host of the list; the rank of a host in the list is random (the list is a shuffle)."""
    nh = rng.range(3, 5)
    na = rng.range(1, 3)
    hosts = [rng.choice([0, 0, 0, 1]) if rng.chance(4, 5) else rng.below(nh) for _ in range(na)]
    ops = [[] for _ in range(na)]
    slot = [0] * na
    pending = [[] for _ in range(na)]

    def flush_waits(a, force=False):
        if pending[a] and (force or rng.chance(1, 2 if len(pending[a]) >= 2 else 3)):
            if len(pending[a]) >= 2 and rng.chance(1, 2):
                ops[a].append("wany." + ".".join(str(x) for x in pending[a]))
                if rng.chance(1, 2):
                    for x in pending[a]:
                        ops[a].append("wait.%d" % x)
                    pending[a] = []
            else:
                x = pending[a].pop(0)
                if rng.chance(1, 4):
                    ops[a].append("test.%d" % x)
                ops[a].append("wait.%d" % x)

    def host_list(a):
        others = [h for h in range(nh) if h != hosts[a]]
        pool = others if rng.chance(3, 4) else list(range(nh))
        rng.shuffle(pool)
        n = rng.range(2, len(pool)) if len(pool) >= 2 else len(pool)
        if rng.chance(1, 8):
            n = 1                                     # a one-element list goes through CpuL07::execution_start
        return pool[:n]

    npar = 0
    for it in range(rng.range(2, 5)):
        a = rng.below(na)
        kind = rng.below(8)
        if kind <= 4 or (it == 0 and npar == 0):     # a parallel execution
            hl = host_list(a)
            fl = [rng.choice([0, 256, 512, 1024, 2048]) for _ in hl]
            if not any(fl) and not rng.chance(1, 8):  # all-zero flops (action born with remains 0) only now and then
                fl[rng.below(len(fl))] = rng.choice([512, 1024])
            spec = "%s.%s" % ("-".join(map(str, hl)), "-".join(map(str, fl)))
            z = ".z" if rng.chance(1, 2) else ""      # explicit all-zero bytes matrix / no matrix
            if rng.chance(1, 2):
                ops[a].append("ipexec.%s.%d%s" % (spec, slot[a], z))
                pending[a].append(slot[a])
                slot[a] += 1
            else:
                ops[a].append("pexec.%s%s" % (spec, z))
            npar += 1
        elif kind <= 5:                               # a one-host execution, often remote
            h = rng.below(nh)
            fl = rng.choice([256, 512, 1024])
            if rng.chance(1, 2):
                ops[a].append("iexec.%d.%d.%d" % (h, fl, slot[a]))
                pending[a].append(slot[a])
                slot[a] += 1
            else:
                ops[a].append("exec.%d.%d" % (h, fl))
        else:
            ops[a].append("sleep.%d" % rng.choice([1, 4, 8, 16]))
        for b in range(na):
            flush_waits(b)
    for a in range(na):
        while pending[a]:
            flush_waits(a, True)
    return {"ptask": True, "nh": nh, "nl": 0, "routes": [], "hosts": hosts, "ops": ops}


def ptask_fault_points(p, impl, rng, tier):
    """every parallel execution of the program x the first, a middle and the last host of its list x the dates
    {start, just after, middle, just before the end, end, just after} read from the fault-free log"""
    issue, done = {}, {}
    for l in impl.split(" | "):
        tok = l.split()
        if len(tok) >= 4 and tok[2] == "issue" and tok[1].startswith("a"):
            issue[(int(tok[1][1:]), int(tok[3]))] = Fraction(float.fromhex(tok[0]))
        elif len(tok) >= 4 and tok[1] == "done":
            a, k = tok[2][1:].split(".")
            done[(int(a), int(k))] = Fraction(float.fromhex(tok[0]))
    cases = []
    for a, ol in enumerate(p["ops"]):
        for k, o in enumerate(ol):
            f = o.split(".")
            if f[0] not in ("pexec", "ipexec") or (a, k) not in issue or (a, k) not in done:
                continue
            hl = [int(x) for x in f[1].split("-")]
            t0, t1 = issue[(a, k)], done[(a, k)]
            pick = []
            for h in (hl[0], hl[len(hl) // 2], hl[-1]):
                if h not in pick:
                    pick.append(h)
            for h in pick:
                for t in (t0, t0 + EPS, (t0 + t1) / 2, t1 - EPS, t1, t1 + EPS):
                    if t > 0:
                        cases.append(("h%d" % h, t))
    cases = sorted(set(cases))
    if tier == "quick" and len(cases) > 30:
        rng.shuffle(cases)
        cases = sorted(cases[:30])
    return [[("c" if i % 3 else "p", "off", r, t)] for i, (r, t) in enumerate(cases)]


def prog_str(p):
    t = ["run"] + (["M:ptask"] if p.get("ptask") else []) + ["H%d" % p["nh"], "L%d" % p["nl"]]
    for i, j, ls in p["routes"]:
        t.append("r:%d:%d:%s" % (i, j, ".".join(map(str, ls))))
    for h, o in zip(p["hosts"], p["ops"]):
        t.append("a:%d:%s" % (h, ",".join(o)))
    return " ".join(t)


def fault_str(faults):
    return " ".join("f:%s:%s:%s:%s" % (m, d, r, hexdate(t)) for (m, d, r, t) in faults)


def log_dates(log):
    ds = set()
    for l in log.split(" | "):
        tok = l.split()
        if tok and tok[0].startswith("0x"):
            ds.add(Fraction(float.fromhex(tok[0])))
    return sorted(ds)


def fault_points(p, dates, rng, tier):
    """(resource, date, mode) for every resource and every date in {d, d-eps, d+eps}; quick: a seeded sample of ~40"""
    res = ["h%d" % i for i in range(p["nh"])] + ["l%d" % i for i in range(p["nl"])]
    cand = set()
    for d in dates:
        for x in (d, d - EPS, d + EPS):
            if x > 0:
                cand.add(x)
    cand = sorted(cand)
    pts = []
    for r in res:
        for t in cand:
            pts.append((r, t))
    cases = []
    if tier == "thorough":
        for k, (r, t) in enumerate(pts):
            cases.append([("c" if k % 2 else "p", "off", r, t)])
    else:
        rng.shuffle(pts)
        for k, (r, t) in enumerate(pts[:(10 if p.get("ptask") else 28)]):
            cases.append([("c" if k % 3 else "p", "off", r, t)])
    # pairs of failures, and failure followed by turn_on (then a later comm can succeed)
    npairs = 5 if tier == "quick" else 16
    if p.get("ptask"):
        npairs = 3 if tier == "quick" else 8
    for k in range(npairs):
        if not pts:
            break
        r1, t1 = rng.choice(pts)
        r2, t2 = rng.choice(pts)
        m = rng.choice(["c", "c", "p"])
        if rng.chance(1, 2):
            t2 = t1 + rng.choice([EPS, Fraction(1, 4), Fraction(1, 2), Fraction(1)])
            cases.append([(m, "off", r1, t1), (m, "on", r1, t2)])
        else:
            a, b = sorted([(t1, r1), (t2, r2)])
            if a[1] == b[1] and m == "p" and a[0] == b[0]:
                continue
            cases.append([(m, "off", a[1], a[0]), (m, "off", b[1], b[0])])
    return cases


KEY_WANY = "waitany-after-failed-simcall-segv"
KEY_ZOMBIE = "host-off-marks-peer-dying-without-exit"


def classify(verdict, impl, query=""):
    if "aborts" in verdict and "CommImpl::start" in verdict:
        return KEY_ASSERT
    if "[zombie:" in verdict:
        # (fixed defect; only the pre-fix model variant `unregisterMarksDying := true` produces this note)
        # an actor of the failed host was marked dying by unregister_first_simcall during the kill of a co-hosted peer;
        # HostImpl::turn_off then skipped it: it never terminated
        return KEY_ZOMBIE
    if "CRASH 11" in impl:
        # SIGSEGV while an actor enters wait_any right after one of its simcalls ended with an exception
        # (Simcall.cpp leaves simcall_.observer_ dangling; ActivityWaitanySimcall's constructor dereferences it)
        lines = [l.split() for l in impl.split(" | ")]
        issues = [l for l in lines if len(l) >= 4 and l[2] == "issue"]
        if issues:
            who, k = issues[-1][1], int(issues[-1][3])
            progs = [t.split(":")[2].split(",") for t in query.split() if t.startswith("a:")]
            a = int(who[1:])
            rets = [l for l in lines if len(l) >= 5 and l[1] == who and l[2] == "ret"]
            if a < len(progs) and k < len(progs[a]) and progs[a][k].startswith("wany") and rets and rets[-1][4] in ("net", "host"):
                return KEY_WANY
    return None


def features(query, impl, cov):
    """which classes of the quantifier domain the run reached (measured on the implementation's log)"""
    ops = {}
    for t in query.split():
        if t.startswith("a:"):
            ai = len(ops)
            ops[ai] = t.split(":")[2].split(",") if t.split(":")[2] else []
    hit = set()
    for l in impl.split(" | "):
        tok = l.split()
        if len(tok) >= 5 and tok[2] == "ret":
            a = int(tok[1][1:])
            k = int(tok[3])
            name = ops.get(a, [""] * (k + 1))[k].split(".")[0] if k < len(ops.get(a, [])) else "?"
            r = tok[4].split(".")[0]
            if r not in ("ok", "true", "false"):
                hit.add("%s:%s" % (name, r))
        elif len(tok) >= 4 and tok[2] == "exit" and tok[3] == "1":
            hit.add("killed")
        elif len(tok) >= 2 and tok[1] == "deadlock":
            hit.add("deadlock" if len(tok) > 2 else "deadlock-empty")
        elif tok and tok[0] == "CRASH":
            hit.add("abort")
    if " on:" in query.replace("f:c:on", " on:").replace("f:p:on", " on:"):
        hit.add("turn_on")
    for h in hit:
        cov[h] = cov.get(h, 0) + 1
    return hit


def run(ctx):
    ctx.cov["rule"] = ("one evaluation = one run of a generated program under one fault schedule, replayed on the model; "
                       "non-trivial = distinct (program, schedule) whose log shows an effect of the failure: an exception, "
                       "a kill (on_exit failed=1), a deadlock report or an abort")
    ctx.assumptions += [
        "dates are not predicted by the model: completion of an action is an event read from the log (isolated durations are C20's business)",
        "sequential context factory: the order of `issue` lines in one scheduling round is the order in which maestro handles the simcalls",
        "equal-date tie between a state-profile link failure and the end of a comm: either order accepted (driver replays the completion first)",
        "the harness reads kernel state (activity states, waiting_synchros_, run list) to name activities and scheduling rounds; it never changes it",
    ]
    ctx.ensure_simgrid(["simgrid"])
    ctx.lean_prove()
    drv = ctx.lean_exe()
    h = ctx.build_harness("harness.cpp")
    if not (drv and h):
        return
    jobs = str(min(8, os.cpu_count() or 4))

    def harness(queries):
        rc, out, err = ctx.run_lines([h, jobs], queries, timeout=3000)
        if rc != 0 or len(out) != len(queries):
            ctx.broken.append({"kind": "harness-run", "rc": rc, "stderr": err[-2000:], "lines": len(out)})
            return None
        return out

    def judge(lines):
        rc, verdicts, err = ctx.run_lines([drv], lines, timeout=3000)
        if rc != 0 or not verdicts or verdicts[-1] != "END %d" % len(lines):
            ctx.broken.append({"kind": "driver-run", "rc": rc, "stderr": err[-2000:]})
            return None
        return verdicts[:-1]

    corpus = [l.strip() for l in open(ctx.pdir + "/corpus.txt") if l.strip() and not l.startswith("#")]
    if ctx.replay:
        queries = [json.load(open(ctx.replay))["case"]["query"]]
    else:
        rng = SplitMix(ctx.seed)
        nprog = int(os.environ.get("VERIF_C10_PROGRAMS", "0")) or (10 if ctx.tier == "quick" else 60)
        if ctx.broken:
            nprog *= 4        # search mode: proof or build broke, look harder for a failing input
        progs = [gen_program(rng.fork(i), i) for i in range(nprog)]
        # second program class: parallel executions under the ptask_L07 host model (its own stream: the programs of the
        # first class are the same as before this class existed)
        nptask = max(4, (nprog * 2) // 5)
        progs += [gen_ptask_program(rng.fork(500000 + i), i) for i in range(nptask)]
        base = [prog_str(p) for p in progs]
        out = harness(base)
        if out is None:
            return
        queries = list(corpus)
        for i, (p, q, l) in enumerate(zip(progs, base, out)):
            impl = l.split(" => ", 1)[1] if " => " in l else ""
            queries.append(q)
            if "CRASH" in impl or "HANG" in impl:
                continue
            fps = fault_points(p, log_dates(impl), rng.fork(1000 + i), ctx.tier)
            if p.get("ptask"):
                fps = ptask_fault_points(p, impl, rng.fork(2000 + i), ctx.tier) + fps
            for fs in fps:
                queries.append(q + " " + fault_str(fs))
        ctx.cov["programs"] = nprog
        ctx.cov["ptask_programs"] = nptask
    out = harness(queries)
    if out is None:
        return
    verdicts = judge(out)
    if verdicts is None:
        return
    dist = {}
    nontrivial = set()
    disagreements = 0
    for q, l, v in zip(queries, out, verdicts):
        ctx.cov["evaluations"] += 1
        impl = l.split(" => ", 1)[1] if " => " in l else ""
        if features(q, impl, dist) and q not in nontrivial:
            nontrivial.add(q)
        if v == "ok":
            ctx.cov["traces_validated_against_impl"] += 1
        elif v.startswith("MONFAIL"):
            what = v.split(" => ", 1)[1] if " => " in v else v
            ctx.violation(what, {"query": q, "impl": impl, "verdict": v}, key=classify(v, impl, q))
        else:
            # the model does not accept the implementation's trace while the monitor holds on it: correspondence broken
            disagreements += 1
            if disagreements <= 5:
                ctx.broken.append({"kind": "trace-not-accepted", "query": q, "verdict": v[:600]})
    ctx.cov["distinct_nontrivial"] = len(nontrivial)
    ctx.cov["distribution"] = dict(sorted(dist.items()))
    ctx.cov["disagreements"] = disagreements
    ctx.cov["samples"] = out[len(corpus):len(corpus) + 2] + out[-2:]
