// C10 harness: interpreter of generated communicating programs + fault injection, through the public S4U API.
//
// stdin: one case per line; stdout: `<case> => <log>` where <log> is the run's event lines joined by " | ".
// Every case runs in a forked child (one SimGrid engine per process); a child killed by a signal gives
// `=> CRASH <signal> <last assertion text>`; a child that does not finish in 20 s gives `=> HANG`.
//
// case  :=  run [M:ptask] H<nh> L<nl> (r:<i>:<j>:<l>[.<l>]*)* (a:<host>:<op>[,<op>]*)* (f:<c|p>:<off|on>:<h|l><idx>:<hexdate>)*
//   M:ptask: the run uses --cfg=host/model:ptask_L07 (needed by multi-host executions; every action is then an L07Action:
//   no is_on() test when an execution starts, the failure of an action started on an off host is seen at the next
//   update_actions_state).  Durations differ from the default models; the check never predicts a date.
//   hosts h0..h<nh-1> (speed 1024 flop/s) + controller host hc; links l0..l<nl-1> (1024 B/s, latency 1/64 s);
//   r: route between h<i> and h<j> (symmetric) made of the listed links; CM02 model (all factors 1) so that dates are dyadic.
//   a: one actor a<k> (k = order of appearance) on h<host> running the ops; f: one fault event, issued by the controller
//   actor on hc (c) or by a state profile of the resource (p), at the given absolute date.
// op    :=  put.<mb>.<bytes> | get.<mb> | iput.<mb>.<bytes>.<slot> | iget.<mb>.<slot> | dput.<mb>.<bytes>
//         | wait.<slot> | test.<slot> | wany.<slot>[.<slot>]* | exec.<host>.<flops> | iexec.<host>.<flops>.<slot>
//         | sleep.<n>   (n/16 seconds) | sendto.<hfrom>.<hto>.<bytes>
//         | pexec.<h>[-<h>]*.<flops>[-<flops>]*[.z]            parallel execution (Exec::set_hosts; M:ptask only): host list,
//         | ipexec.<h>[-<h>]*.<flops>[-<flops>]*.<slot>[.z]    flops per host; z: an explicit all-zero bytes matrix (default: none)
// log lines (clock printed with %a):
//   <t> a<i> issue <k>            actor i is about to run its op k (the order of these lines is the order in which
//                                 the kernel handles the simcalls of one scheduling round)
//   <t> a<i> ret <k> <result>     op k returned: ok | net | host | cancel | timeout | other:<type>;  test: true|false;
//                                 wany: ok.<slot> or the exception kind
//   <t> a<i> exit <failed>        on_exit callback
//   <t> ctl issue <off|on> <res>  controller about to call turn_off/turn_on
//   <t> sig <off|on> <res>        Host/Link on_onoff signal
//   <t> a<i> mid <k>              exec / sendto are two simcalls (start, then wait): the actor resumed after the first one
//   <t> phase                     a new scheduling round starts (the first actor of the run list resumed): all simcalls
//                                 issued before this line have been handled, in the order of their issue lines
//   <t> done a<i>.<k> <STATE>     the activity created by op k of actor i was seen finished (kernel state)
//   <t> deadlock <a<i>.<k>>*      Engine::on_deadlock: the actors blocked in an op
//   <t> end                       Engine::run returned
#include <simgrid/s4u.hpp>
#include <simgrid/kernel/ProfileBuilder.hpp>
#include <simgrid/Exception.hpp>
#include "src/kernel/EngineImpl.hpp"
#include "src/kernel/activity/ActivityImpl.hpp"
#include "src/kernel/actor/ActorImpl.hpp"

#include <algorithm>
#include <cstdio>
#include <cstring>
#include <fcntl.h>
#include <iostream>
#include <map>
#include <set>
#include <sstream>
#include <string>
#include <sys/wait.h>
#include <unistd.h>
#include <vector>

namespace sg4 = simgrid::s4u;

static std::vector<std::string> split(const std::string& s, char c)
{
  std::vector<std::string> r;
  std::string cur;
  for (char ch : s) {
    if (ch == c) {
      r.push_back(cur);
      cur.clear();
    } else
      cur += ch;
  }
  r.push_back(cur);
  return r;
}

struct Fault {
  bool profile;
  bool on;
  bool host;
  int idx;
  double date;
};
struct Case {
  bool ptask = false;
  int nh = 0, nl = 0;
  std::vector<std::tuple<int, int, std::vector<int>>> routes;
  std::vector<std::pair<int, std::vector<std::string>>> actors;
  std::vector<Fault> faults;
};

static bool parse_case(const std::string& line, Case& c)
{
  std::istringstream in(line);
  std::string tok;
  in >> tok;
  if (tok != "run")
    return false;
  while (in >> tok) {
    if (tok == "M:ptask")
      c.ptask = true;
    else if (tok[0] == 'H')
      c.nh = atoi(tok.c_str() + 1);
    else if (tok[0] == 'L')
      c.nl = atoi(tok.c_str() + 1);
    else if (tok[0] == 'r') {
      auto p = split(tok, ':');
      if (p.size() != 4)
        return false;
      std::vector<int> ls;
      for (auto const& x : split(p[3], '.'))
        ls.push_back(atoi(x.c_str()));
      c.routes.emplace_back(atoi(p[1].c_str()), atoi(p[2].c_str()), ls);
    } else if (tok[0] == 'a') {
      auto p = split(tok, ':');
      if (p.size() != 3)
        return false;
      c.actors.emplace_back(atoi(p[1].c_str()), p[2].empty() ? std::vector<std::string>() : split(p[2], ','));
    } else if (tok[0] == 'f') {
      auto p = split(tok, ':');
      if (p.size() != 5)
        return false;
      Fault f;
      f.profile = p[1] == "p";
      f.on      = p[2] == "on";
      f.host    = p[3][0] == 'h';
      f.idx     = atoi(p[3].c_str() + 1);
      f.date    = strtod(p[4].c_str(), nullptr);
      c.faults.push_back(f);
    } else
      return false;
  }
  return c.nh > 0;
}

// ------------------------------------------------------------------ logging
static std::vector<std::string> g_log;
struct Handle {
  simgrid::kernel::activity::ActivityImplPtr impl; // keeps the kernel object alive, so that its address stays unique
  int actor, op;
  bool reported = false;
};
static std::vector<Handle>* g_handles                                   = new std::vector<Handle>(); // leaked on purpose

static int g_outfd = 1;
// every line goes to the parent at once, so that the log of a run that aborts is not lost
static void emit(const std::string& s)
{
  char buf[64];
  snprintf(buf, sizeof buf, "%a ", sg4::Engine::get_clock());
  std::string l = (g_log.empty() ? "" : " | ") + std::string(buf) + s;
  g_log.push_back(l);
  size_t off = 0;
  while (off < l.size()) {
    ssize_t w = write(g_outfd, l.data() + off, l.size() - off);
    if (w <= 0)
      break;
    off += w;
  }
}
static std::map<long, int>* g_pid2idx = new std::map<long, int>();
static std::vector<int> g_cur_op; // per actor: op issued and not returned (-1: none)
static std::set<const simgrid::kernel::activity::ActivityImpl*>* g_registered =
    new std::set<const simgrid::kernel::activity::ActivityImpl*>();

static void add_handle(simgrid::kernel::activity::ActivityImpl* impl, int actor, int op)
{
  if (impl == nullptr || g_registered->count(impl))
    return;
  g_registered->insert(impl);
  g_handles->push_back({simgrid::kernel::activity::ActivityImplPtr(impl), actor, op});
}
// every activity an actor is blocked on gets a handle too (named after the blocked op), so that every completion is seen
static void register_waiting()
{
  auto* engine = simgrid::kernel::EngineImpl::get_instance();
  for (auto const& [pid, actor] : engine->get_actor_list()) {
    auto it = g_pid2idx->find(pid);
    if (it == g_pid2idx->end() || g_cur_op[it->second] < 0)
      continue;
    for (auto const& act : actor->waiting_synchros_)
      add_handle(act.get(), it->second, g_cur_op[it->second]);
  }
}
static void scan(bool only_done = false)
{
  using simgrid::kernel::activity::State;
  register_waiting();
  for (auto& h : *g_handles) {
    if (h.reported)
      continue;
    auto* impl = h.impl.get();
    State st = impl->get_state();
    if (st == State::WAITING || st == State::READY || st == State::RUNNING)
      continue;
    if (only_done && st != State::DONE)
      continue;
    h.reported = true;
    emit("done a" + std::to_string(h.actor) + "." + std::to_string(h.op) + " " + impl->get_state_str());
  }
}
static void logline(const std::string& s)
{
  scan();
  emit(s);
}
// called by an actor when it resumes.  A new scheduling round ("phase") has started when the kernel's run list is
// not the one seen at the previous resume, or when this actor does not come after the previous one in that list
// (the front of the list cannot be used: it may be an actor that terminates silently).
static void resumed()
{
  static std::vector<simgrid::kernel::actor::ActorImpl*> last_list;
  static long last_pos = -1;
  auto* self           = simgrid::kernel::actor::ActorImpl::self();
  auto const& run      = simgrid::kernel::EngineImpl::get_instance()->get_actors_to_run();
  long pos             = std::find(run.begin(), run.end(), self) - run.begin();
  bool fresh           = run != last_list || pos <= last_pos;
  last_list            = run;
  last_pos             = pos;
  if (fresh)
    logline("phase");
}

// ------------------------------------------------------------------ interpreter
static std::vector<sg4::Host*> g_hosts;
static std::vector<sg4::Link*> g_links;
static std::vector<sg4::Mailbox*> g_mbox;
static int g_payload = 42;
static std::vector<bool> g_exited;

static std::string exc_kind(const std::exception& e)
{
  if (dynamic_cast<const simgrid::NetworkFailureException*>(&e))
    return "net";
  if (dynamic_cast<const simgrid::HostFailureException*>(&e))
    return "host";
  if (dynamic_cast<const simgrid::CancelException*>(&e))
    return "cancel";
  if (dynamic_cast<const simgrid::TimeoutException*>(&e))
    return "timeout";
  return std::string("other:") + typeid(e).name();
}

// a parallel execution: host list, flops per host, bytes matrix absent or all-zero (no link involved)
static sg4::ExecPtr make_pexec(const std::string& hspec, const std::string& fspec, bool zero_matrix)
{
  std::vector<sg4::Host*> hs;
  std::vector<double> fl;
  for (auto const& x : split(hspec, '-'))
    hs.push_back(g_hosts.at(atoi(x.c_str())));
  auto fs = split(fspec, '-');
  for (size_t i = 0; i < hs.size(); i++)
    fl.push_back(atof(fs[std::min(i, fs.size() - 1)].c_str()));
  auto e = sg4::Exec::init()->set_flops_amounts(fl);
  if (zero_matrix)
    e->set_bytes_amounts(std::vector<double>(hs.size() * hs.size(), 0.0));
  e->set_hosts(hs);
  return e;
}

static void actor_code(int me, std::vector<std::string> ops)
{
  (*g_pid2idx)[sg4::this_actor::get_pid()] = me;
  resumed();
  sg4::this_actor::on_exit([me](bool failed) {
    if (g_cur_op[me] >= 0)
      resumed(); // killed while blocked in a simcall: this is where the actor resumes
    g_exited[me] = true;
    logline("a" + std::to_string(me) + " exit " + (failed ? "1" : "0"));
  });
  std::map<int, sg4::ActivityPtr> slots;
  std::map<int, int**> bufs;
  std::string A = "a" + std::to_string(me);
  for (size_t k = 0; k < ops.size(); k++) {
    auto p = split(ops[k], '.');
    logline(A + " issue " + std::to_string(k));
    g_cur_op[me]    = (int)k;
    std::string res = "ok";
    try {
      const std::string& o = p[0];
      if (o == "put") {
        g_mbox.at(atoi(p[1].c_str()))->put(&g_payload, atoi(p[2].c_str()));
      } else if (o == "get") {
        g_mbox.at(atoi(p[1].c_str()))->get<int>();
      } else if (o == "iput") {
        auto c             = g_mbox.at(atoi(p[1].c_str()))->put_async(&g_payload, atoi(p[2].c_str()));
        slots[atoi(p[3].c_str())] = c;
        add_handle(c->get_impl(), me, (int)k);
      } else if (o == "iget") {
        int** buf = new int*(nullptr);
        auto c    = g_mbox.at(atoi(p[1].c_str()))->get_async<int>(buf);
        slots[atoi(p[2].c_str())] = c;
        add_handle(c->get_impl(), me, (int)k);
      } else if (o == "dput") {
        g_mbox.at(atoi(p[1].c_str()))->put_init(&g_payload, atoi(p[2].c_str()))->detach();
      } else if (o == "wait") {
        auto it = slots.find(atoi(p[1].c_str()));
        if (it != slots.end())
          it->second->wait();
        else
          res = "noslot";
      } else if (o == "test") {
        auto it = slots.find(atoi(p[1].c_str()));
        if (it != slots.end())
          res = it->second->test() ? "true" : "false";
        else
          res = "noslot";
      } else if (o == "wany") {
        sg4::ActivitySet set;
        std::vector<int> ids;
        for (size_t i = 1; i < p.size(); i++) {
          auto it = slots.find(atoi(p[i].c_str()));
          if (it != slots.end()) {
            set.push(it->second);
            ids.push_back(atoi(p[i].c_str()));
          }
        }
        if (set.empty())
          res = "noslot";
        else {
          auto a = set.wait_any();
          for (int id : ids)
            if (slots[id] == a)
              res = "ok." + std::to_string(id);
        }
      } else if (o == "exec") {
        // Host::execute is two simcalls (start, wait): make the intermediate resume visible
        auto e = sg4::Exec::init()->set_flops_amount(atof(p[2].c_str()))->set_host(g_hosts.at(atoi(p[1].c_str())));
        e->start();
        add_handle(e->get_impl(), me, (int)k);
        resumed();
        logline(A + " mid " + std::to_string(k));
        e->wait();
      } else if (o == "iexec") {
        auto e = sg4::Exec::init()->set_flops_amount(atof(p[2].c_str()))->set_host(g_hosts.at(atoi(p[1].c_str())));
        e->start();
        slots[atoi(p[3].c_str())] = e;
        add_handle(e->get_impl(), me, (int)k);
      } else if (o == "pexec") {
        auto e = make_pexec(p.at(1), p.at(2), p.size() > 3 && p[3] == "z");
        e->start();
        add_handle(e->get_impl(), me, (int)k);
        resumed();
        logline(A + " mid " + std::to_string(k));
        e->wait();
      } else if (o == "ipexec") {
        auto e = make_pexec(p.at(1), p.at(2), p.size() > 4 && p[4] == "z");
        e->start();
        slots[atoi(p.at(3).c_str())] = e;
        add_handle(e->get_impl(), me, (int)k);
      } else if (o == "sleep") {
        sg4::this_actor::sleep_for(atoi(p[1].c_str()) / 16.0);
      } else if (o == "sendto") {
        // Comm::sendto is two simcalls (start, wait)
        auto c = sg4::Comm::sendto_async(g_hosts.at(atoi(p[1].c_str())), g_hosts.at(atoi(p[2].c_str())), atoi(p[3].c_str()));
        add_handle(c->get_impl(), me, (int)k);
        resumed();
        logline(A + " mid " + std::to_string(k));
        c->wait();
      } else {
        res = "badop";
      }
    } catch (const simgrid::ForcefulKillException&) {
      throw;
    } catch (const std::exception& e) {
      res = exc_kind(e);
    }
    resumed();
    g_cur_op[me] = -1;
    logline(A + " ret " + std::to_string(k) + " " + res);
  }
}

static std::string res_name(const Fault& f)
{
  return std::string(f.host ? "h" : "l") + std::to_string(f.idx);
}

static void controller(std::vector<Fault> faults)
{
  resumed();
  for (auto const& f : faults) {
    if (f.date > sg4::Engine::get_clock())
      sg4::this_actor::sleep_until(f.date);
    resumed();
    logline(std::string("ctl issue ") + (f.on ? "on " : "off ") + res_name(f));
    if (f.host) {
      if (f.on)
        g_hosts.at(f.idx)->turn_on();
      else
        g_hosts.at(f.idx)->turn_off();
    } else {
      if (f.on)
        g_links.at(f.idx)->turn_on();
      else
        g_links.at(f.idx)->turn_off();
    }
    resumed();
  }
}

static int run_case(const Case& c, std::string& out)
{
  int argc          = c.ptask ? 3 : 4;
  const char* av1[] = {"c10", "--log=root.thres:critical", "--cfg=network/model:CM02", "--cfg=network/crosstraffic:0", nullptr};
  const char* av2[] = {"c10", "--log=root.thres:critical", "--cfg=host/model:ptask_L07", nullptr};
  char** argv       = const_cast<char**>(c.ptask ? av2 : av1);
  sg4::Engine e(&argc, argv);
  auto* zone = e.get_netzone_root();
  for (int i = 0; i < c.nh; i++)
    g_hosts.push_back(zone->add_host("h" + std::to_string(i), 1024.0));
  auto* hc = zone->add_host("hc", 1024.0);
  for (int i = 0; i < c.nl; i++)
    g_links.push_back(zone->add_link("l" + std::to_string(i), 1024.0)->set_latency(1.0 / 64));
  // state profiles
  std::map<std::string, std::string> prof;
  for (auto const& f : c.faults)
    if (f.profile) {
      char buf[96];
      snprintf(buf, sizeof buf, "%a %d\n", f.date, f.on ? 1 : 0);
      prof[res_name(f)] += buf;
    }
  for (auto const& [name, txt] : prof) {
    auto* p = simgrid::kernel::profile::ProfileBuilder::from_string("prof_" + name, txt, -1);
    int idx = atoi(name.c_str() + 1);
    if (name[0] == 'h')
      g_hosts.at(idx)->set_state_profile(p);
    else
      g_links.at(idx)->set_state_profile(p);
  }
  for (auto* l : g_links)
    l->seal();
  for (auto const& [i, j, ls] : c.routes) {
    std::vector<const sg4::Link*> v;
    for (int l : ls)
      v.push_back(g_links.at(l));
    zone->add_route(g_hosts.at(i), g_hosts.at(j), v);
  }
  zone->seal();
  for (int i = 0; i < 8; i++)
    g_mbox.push_back(sg4::Mailbox::by_name("mb" + std::to_string(i)));

  // the signal fires after the kills: print the cause first, then what the scan sees.  Normal completions that nobody
  // logged yet (the scan is lazy) happened before the event, since turning a resource off completes nothing: print them first.
  sg4::Host::on_onoff_cb([](sg4::Host const& h) {
    scan(true);
    emit(std::string("sig ") + (h.is_on() ? "on " : "off ") + h.get_cname());
    scan();
  });
  sg4::Link::on_onoff_cb([](sg4::Link const& l) {
    scan(true);
    emit(std::string("sig ") + (l.is_on() ? "on " : "off ") + l.get_cname());
    scan();
  });
  sg4::Engine::on_time_advance_cb([](double) { register_waiting(); });
  sg4::Engine::on_deadlock_cb([&c]() {
    std::string s = "deadlock";
    for (size_t i = 0; i < c.actors.size(); i++)
      if (not g_exited[i] && g_cur_op[i] >= 0)
        s += " a" + std::to_string(i) + "." + std::to_string(g_cur_op[i]);
    logline(s);
  });

  g_cur_op.assign(c.actors.size(), -1);
  g_exited.assign(c.actors.size(), false);
  std::vector<Fault> cf;
  for (auto const& f : c.faults)
    if (not f.profile)
      cf.push_back(f);
  if (not cf.empty())
    hc->add_actor("ctl", [cf]() { controller(cf); });
  for (size_t i = 0; i < c.actors.size(); i++) {
    auto ops = c.actors[i].second;
    int me   = (int)i;
    g_hosts.at(c.actors[i].first)->add_actor("a" + std::to_string(i), [me, ops]() { actor_code(me, ops); });
  }
  e.run();
  logline("end");
  (void)out;
  return 0;
}

// ------------------------------------------------------------------ fork pool
struct Child {
  pid_t pid;
  int fd;
  int errfd;
};

static std::string sanitize(const std::string& s)
{
  std::string r;
  for (char ch : s)
    r += (ch == ' ' || ch == '\t' || ch == '|' || ch == '=' || ch == '>') ? '_' : ch;
  return r.substr(0, 200);
}

int main(int argc, char** argv)
{
  int jobs = argc > 1 ? atoi(argv[1]) : 8;
  std::vector<std::string> lines;
  std::string line;
  while (std::getline(std::cin, line))
    if (not line.empty())
      lines.push_back(line);
  for (size_t base = 0; base < lines.size(); base += jobs) {
    std::vector<Child> ch;
    for (size_t i = base; i < lines.size() && i < base + jobs; i++) {
      int fds[2];
      if (pipe(fds) != 0)
        return 2;
      char tmpl[] = "/tmp/c10errXXXXXX";
      int efd     = mkstemp(tmpl);
      unlink(tmpl);
      fflush(stdout);
      pid_t pid = fork();
      if (pid == 0) {
        close(fds[0]);
        dup2(efd, 2);
        alarm(20);
        g_outfd = fds[1];
        Case c;
        std::string out;
        if (not parse_case(lines[i], c))
          out = "BADCASE";
        else
          run_case(c, out);
        out += "\n";
        size_t off = 0;
        while (off < out.size()) {
          ssize_t w = write(fds[1], out.data() + off, out.size() - off);
          if (w <= 0)
            break;
          off += w;
        }
        _exit(0);
      }
      close(fds[1]);
      ch.push_back({pid, fds[0], efd});
    }
    for (size_t k = 0; k < ch.size(); k++) {
      std::string out;
      char buf[4096];
      ssize_t n;
      while ((n = read(ch[k].fd, buf, sizeof buf)) > 0)
        out.append(buf, n);
      close(ch[k].fd);
      int st = 0;
      waitpid(ch[k].pid, &st, 0);
      if (WIFSIGNALED(st)) {
        if (WTERMSIG(st) == SIGALRM)
          out += std::string(out.empty() ? "" : " | ") + "HANG";
        else {
          std::string err;
          lseek(ch[k].errfd, 0, SEEK_SET);
          while ((n = read(ch[k].errfd, buf, sizeof buf)) > 0)
            err.append(buf, n);
          std::string msg = "-";
          for (auto const& l : split(err, '\n'))
            if (l.find("ssertion") != std::string::npos || l.find("xbt_die") != std::string::npos ||
                l.find("CRITICAL") != std::string::npos || l.find("critical") != std::string::npos)
              msg = sanitize(l);
          out += std::string(out.empty() ? "" : " | ") + "CRASH " + std::to_string(WTERMSIG(st)) + " " + msg;
        }
      } else if (not out.empty() && out.back() == '\n')
        out.pop_back();
      close(ch[k].errfd);
      printf("%s => %s\n", lines[base + k].c_str(), out.c_str());
    }
  }
  return 0;
}
