"""C38 — model-checker reductions are sound.
Theorems: lean/SgVerif/C38/Props.lean (trace-equivalent executions reach the same state; covering one execution per
class reaches every reference outcome).  Tie: generated mini-language programs run by the S4U interpreter
(props/_shared/mcref/interp.cpp) under simgrid-mc with every reduction / explorer / strategy; the outcome vectors
printed over all explored traces and the exit code are compared with the Lean reference explorer
(lean/SgVerif/McRef/Model.lean) and with the unreduced run of simgrid-mc itself."""
import json
import os
import sys

sys.path.insert(0, os.path.join(os.path.dirname(os.path.abspath(__file__)), "..", "_shared", "mcref"))
import mclib  # noqa: E402
from vlib.core import SplitMix  # noqa: E402

REDS = ["dpor", "sdpor", "odpor"]


def configs_for(prog, idx, tier):
    """(name, flags) list for one program: all reductions with DFS, udpor on its subset, and a rotating choice of
    BeFS / uniform-strategy configurations (all of them in the thorough tier)."""
    f = mclib.features(prog)
    cfgs = [(r + "-DFS-none", mclib.mc_flags(r)) for r in REDS]
    if f["ops"] <= mclib.UDPOR_OPS and f["nchild"] == 0:
        cfgs.append(("udpor-DFS-none", mclib.mc_flags("udpor")))
    extra = []
    for r in ["none"] + REDS:
        extra.append((r + "-BeFS-none", mclib.mc_flags(r, "BeFS")))
        extra.append((r + "-DFS-uniform", mclib.mc_flags(r, "DFS", "uniform")))
        extra.append((r + "-BeFS-uniform", mclib.mc_flags(r, "BeFS", "uniform")))
    if tier == "thorough":
        cfgs += extra
    else:
        cfgs += [extra[(idx * 5) % len(extra)], extra[(idx * 5 + 7) % len(extra)]]
    return cfgs


def classify(prog, cfg, res, ref):
    """Stable classification key of a failing (program, configuration): a predicate on the witness class."""
    f = mclib.features(prog)
    red, algo, strat = cfg.split("-")[:3]
    rc = res["rc"]
    if rc == 134 and red == "odpor" and algo == "BeFS":
        return "odpor-befs-abort-closed-of-parent"
    if rc == 134 and red == "udpor":
        return "udpor-abort"
    if rc == 134 and red in ("sdpor", "odpor") and "W" in f["ops"] and ("N" in f["ops"] or "Y" in f["ops"]):
        return "sdpor-odpor-condvar-abort-lock-handle"
    if rc == 134 and red in ("sdpor", "odpor") and "B" in f["ops"]:
        return "sdpor-odpor-barrier-abort-actor-minus-one"
    if rc == 0 and red in ("sdpor", "odpor") and f["nchild"] >= 2:
        return "sdpor-odpor-concurrent-actor-create-missing-outcome"
    if red == "udpor" and rc == 0 and "DEADLOCK DETECTED" in res.get("text", ""):
        return "udpor-deadlock-reported-with-exit-code-zero"
    if rc == 4 and red == "odpor" and "X" in f["ops"] and f["nchild"] > 0:
        return "odpor-random-with-created-actor-spurious-crash"
    if algo == "BeFS" and strat == "uniform" and rc == 0:
        return "befs-uniform-incomplete-exploration"
    if rc == 0 and red == "odpor" and "X" in f["ops"]:
        return "odpor-random-missing-outcome"
    if red == "udpor" and rc == 0 and ("L" in f["ops"]):
        return "udpor-mutex-incomplete-exploration"
    if red in ("dpor", "sdpor", "udpor") and "t" in f["ops"] and rc == 0:
        return "commtest-on-pending-comm-declared-independent"
    return None


def run(ctx):
    ctx.cov["rule"] = ("programs of the mini-language drawn from splitmix64(VERIF_SEED) in 9 classes (mutex, semaphore, "
                       "barrier, condvar, blocking / async mailbox, create+join+random, mixed); a case = (program, "
                       "configuration); non-trivial = distinct case whose reference has >= 2 maximal executions")
    ctx.assumptions += [
        "the race-reversal algorithms (DPOR/SDPOR/ODPOR/UDPOR, sleep sets, wakeup trees) are not proved: that every "
        "Mazurkiewicz class is visited is checked per program, not proved",
        "the commutation hypothesis of the theorems is C39's theorem, not re-proved here",
        "the interpreter props/_shared/mcref/interp.cpp and the S4U -> transition splitting are trusted to match "
        "lean/SgVerif/McRef/Model.lean; they are compared on every unreduced run",
        "model-check/search-critical is switched off (post-processing of a found error, not part of the exploration)"]
    ctx.ensure_simgrid(["simgrid", "simgrid-mc"])
    ctx.lean_prove()
    drv = ctx.lean_exe()
    interp = ctx.build_harness(mclib.INTERP_SRC, name="interp")
    if not (drv and interp):
        return
    quick = ctx.tier == "quick"
    nprog = 9 if quick else 150
    cap = 400 if quick else 3000          # bound on the number of maximal executions of the unreduced state space
    if ctx.broken:
        nprog *= 4
    corpus = [l.strip() for l in open(os.path.join(ctx.pdir, "corpus.txt")) if l.strip() and not l.startswith("#")]
    if ctx.replay:
        case = json.load(open(ctx.replay))["case"]
        progs = [case["program"]]
        klasses = ["replay"]
        only_cfg = case.get("cfg")
    else:
        rng = SplitMix(ctx.seed)
        gen = [mclib.gen_program(rng.fork(i), big=not quick) for i in range(nprog)]
        progs = corpus + [g[0] for g in gen]
        klasses = ["corpus"] * len(corpus) + [str(g[1]) for g in gen]
        only_cfg = None
    refs = mclib.oracle(ctx, drv, progs, cap)
    if refs is None:
        return
    # ---- plan the runs
    jobs, plan, skipped = [], [], {}
    for i, (p, r) in enumerate(zip(progs, refs)):
        if r is None or r["capped"] or r["exh"] or r["crash"] or r["nexec"] > cap:
            skipped[p] = "state space above the bound (%s)" % (r and r["nexec"])
            continue
        jobs.append(((i, "none-DFS-none", None), p, mclib.mc_flags("none")))
        for name, flags in configs_for(p, i, ctx.tier):
            if only_cfg and name != only_cfg and not name.startswith("none-DFS"):
                continue
            jobs.append(((i, name, None), p, flags))
        # assert-not-outcome route (the only one that observes udpor): one run per reference outcome (at most 2) and
        # one for an outcome that is not reachable, under a rotating reduction
        if not r["dl"] and not r["af"]:
            cands = r["outs"][:1 if quick else 2] + [(r["outs"][0] + ",77") if r["outs"] else "77"]
            reds = ["none"] + REDS + (["udpor"] if mclib.features(p)["ops"] <= mclib.UDPOR_OPS and mclib.features(p)["nchild"] == 0 else [])
            for j, o in enumerate(cands):
                red = reds[(i + j) % len(reds)]
                jobs.append(((i, red + "-DFS-none", o), mclib.with_forbid(p, o), mclib.mc_flags(red)))
    results = mclib.run_many(ctx, interp, jobs, timeout=40 if quick else 120)
    # ---- judge through the driver
    lines, meta = [], []
    timeouts = 0
    for (i, cfg, forbid), prog, _ in jobs:
        res = results[(i, cfg, forbid)]
        if res["timeout"]:
            timeouts += 1
            continue
        ans = "rc=%d %s" % (res["rc"], " ".join("o=" + o for o in sorted(set(res["outs"]))))
        if forbid is None and cfg != "none-DFS-none":
            nres = results[(i, "none-DFS-none", None)]
            if nres["timeout"]:
                continue
            ans += " nrc=%d %s" % (nres["rc"], " ".join("no=" + o for o in sorted(set(nres["outs"]))))
        lines.append("chk %s %d %s => %s" % (cfg, cap, prog, ans))
        meta.append((i, cfg, forbid, prog, res))
    rc, verdicts, err = ctx.run_lines([drv], lines, timeout=1800)
    if rc != 0 or not verdicts or verdicts[-1] != "END %d" % len(lines):
        ctx.broken.append({"kind": "driver-run", "rc": rc, "stderr": err[-2000:]})
        return
    seen = set()
    per_cfg, per_class, by_key = {}, {}, {}
    viol = []
    for (i, cfg, forbid, prog, res), line, v in zip(meta, lines, verdicts):
        ctx.cov["evaluations"] += 1
        per_cfg[cfg] = per_cfg.get(cfg, 0) + 1
        per_class[klasses[i]] = per_class.get(klasses[i], 0) + 1
        if (prog, cfg) not in seen and refs[i]["nexec"] >= 2:
            seen.add((prog, cfg))
            ctx.cov["distinct_nontrivial"] += 1
        case = {"program": prog, "cfg": cfg, "forbid": forbid, "rc": res["rc"], "outs": sorted(set(res["outs"])),
                "reference": refs[i], "verdict": v[:600], "tail": res["text"][-600:]}
        if v == "ok":
            ctx.cov["traces_validated_against_impl"] += 1
        elif v.startswith("MONFAIL") or (v.startswith("DISAGREE") and not cfg.startswith("none-DFS-none")):
            # reduced/guided run differs from what the reference allows (and, for MONFAIL, from simgrid-mc's own
            # unreduced run, which agrees with the reference)
            key = classify(prog, cfg, res, refs[i])
            by_key[str(key)] = by_key.get(str(key), 0) + 1
            viol.append((key, cfg, case))
        else:
            # the unreduced DFS run of simgrid-mc differs from the reference LTS: first suspect the model
            ctx.broken.append({"kind": "model-vs-unreduced-run", "case": case})
    viol.sort(key=lambda t: t[0] is not None)          # unclassified failures first (only 5 replay files are kept)
    for key, cfg, case in viol:
        ctx.violation("exploration %s does not reach exactly the reference outcomes / verdict" % cfg, case, key=key)
    with open(os.path.join(ctx.work, "all_violations.json"), "w") as fh:
        json.dump(viol, fh, indent=1, default=str)
    ctx.cov["samples"] = lines[:2] + lines[len(lines) // 2:len(lines) // 2 + 2]
    ctx.cov["per_configuration"] = per_cfg
    ctx.cov["per_class"] = per_class
    ctx.cov["violations_by_key"] = by_key
    ctx.cov["programs"] = len(progs)
    ctx.cov["skipped_programs"] = len(skipped)
    ctx.cov["timeouts_skipped"] = timeouts
    ctx.cov["deadlock_programs"] = sum(1 for r in refs if r and r["dl"])
