// C44 harness: runs the REAL udpor::EventSet / History / UnfoldingEvent / Configuration / maximal_subsets_iterator and
// the generic enumerators of src/xbt/utils/iter in-process on unfoldings made of real transitions.
// stdin: one query per line; stdout: `<query> => <answer>`.  An unfolding is a list of event tokens
//   <causes>:<transition token>      causes = `-` or ids joined by `+` (ids of EARLIER events); transition: ../_shared/mc/mktrans.hpp
// Sets of events are printed as bit masks (bit i = event i), which canonicalises the hash order.
//   pairs <ev>*                 => n=<n> d<row>*n  H<mask>*n (get_history)  L<mask>*n (get_local_config)
//                                  i<row>*n (a.in_history_of(b))  c<row>*n (a.conflicts_with(b))  x<row>*n (immediately_conflicts_with)
//   subs <ev>* ; <mask>*        => n=<n> d<row>*n then per mask:  S<mask>:<closure>:<largest maximal subset>:<flags>:<cwa>:<topo>:<add>:<compat>:<alg>
//        flags = is_maximal is_conflict_free is_valid_configuration (3 bits)
//        cwa   = mask of events e with e->conflicts_with_any(S)
//        topo  = get_topological_ordering() ids joined by `.` (`-` if empty) / iteration order of the set S
//        after the d rows (subs, maxs): o<order> per event = iteration order of its immediate causes; maxs: q<iteration order of S>
//        add   = per event e, Configuration(S).add_event(e): u(nchanged) c(onflict) m(issing history) a(dded); `x` if S is not a valid configuration
//        compat= mask of events e with Configuration(S).is_compatible_with(e) (`x` if invalid)
//        alg   = with T = the next mask of the list (cyclically): union.subtract.intersection.is_subset_of.intersects
//   maxs <ev>* ; <mask> <maxsize|-> => n=<n> d<row>*n  then the sets yielded by maximal_subsets_iterator(S, nullopt, maxsize), as masks, in order
//   ksub <k> <n>   => subsets yielded by LazyKSubsets over a vector of n elements: positions joined by `.`, `-` for the empty subset
//   pset <n>       => the same for make_powerset_iter
//   vfl <s1> ...   => tuples yielded by variable_for_loop over vectors of these sizes
#include "../_shared/mc/mktrans.hpp"
#include "src/mc/explo/udpor/Configuration.hpp"
#include "src/mc/explo/udpor/EventSet.hpp"
#include "src/mc/explo/udpor/History.hpp"
#include "src/mc/explo/udpor/UnfoldingEvent.hpp"
#include "src/mc/explo/udpor/maximal_subsets_iterator.hpp"
#include "src/xbt/utils/iter/LazyKSubsets.hpp"
#include "src/xbt/utils/iter/LazyPowerset.hpp"
#include "src/xbt/utils/iter/variable_for_loop.hpp"
#include <xbt/log.h>
#include <iostream>
#include <map>
#include <new>

using namespace simgrid::mc::udpor;

// Events live in a static arena of a non-PIE executable: their addresses -- hence the iteration order of every
// std::unordered_set<const UnfoldingEvent*> -- are a deterministic function of the query alone (no ASLR, no heap
// history), and the `@<seed>` token of a query chooses the placement (one "hash order" per seed).
alignas(64) static char arena[64 * 512];
struct Destroy {
  void operator()(UnfoldingEvent* e) const { e->~UnfoldingEvent(); }
};
static_assert(sizeof(UnfoldingEvent) <= 384, "arena slot too small");

struct Unf {
  std::vector<std::unique_ptr<UnfoldingEvent, Destroy>> ev;
  std::vector<size_t> slot;   // placement of the i-th event
  size_t shift = 0;
  void layout(unsigned long seed)
  {
    slot.resize(64);
    for (size_t i = 0; i < 64; i++)
      slot[i] = i;
    unsigned long x = seed * 6364136223846793005ul + 1442695040888963407ul;
    if (seed != 0)
      for (size_t i = 63; i > 0; i--) {
        x = x * 6364136223846793005ul + 1442695040888963407ul;
        std::swap(slot[i], slot[(x >> 33) % (i + 1)]);
      }
    shift = seed == 0 ? 0 : 8 * ((x >> 20) % 16);
  }
  std::map<const UnfoldingEvent*, int> idx;
  size_t n() const { return ev.size(); }
  EventSet set(unsigned long mask) const
  {
    // insertion order (which decides the iteration order of the hash set, together with the addresses) follows the
    // seeded placement as well
    EventSet s;
    std::vector<size_t> order(ev.size());
    for (size_t i = 0; i < ev.size(); i++)
      order[i] = i;
    std::sort(order.begin(), order.end(), [this](size_t a, size_t b) { return slot[a] < slot[b]; });
    for (size_t i : order)
      if (mask >> i & 1)
        s.insert(ev[i].get());
    return s;
  }
  unsigned long mask(const EventSet& s) const
  {
    unsigned long m = 0;
    for (const auto* e : s)
      m |= 1ul << idx.at(e);
    return m;
  }
};

static void build(Unf& u, const std::vector<std::string>& alltoks)
{
  std::vector<std::string> toks;
  unsigned long seed = 0;
  for (const auto& tok : alltoks) {
    if (tok[0] == '@')
      seed = std::stoul(tok.substr(1));
    else
      toks.push_back(tok);
  }
  if (toks.size() > 64)
    throw std::runtime_error("too many events");
  u.layout(seed);
  for (const auto& tok : toks) {
    auto p = tok.find(':');
    if (p == std::string::npos)
      throw std::runtime_error("bad event token " + tok);
    EventSet causes;
    std::string cs = tok.substr(0, p);
    if (cs != "-")
      for (const auto& c : verif::split(cs, '+'))
        causes.insert(u.ev.at(std::stoul(c)).get());
    simgrid::mc::TransitionPtr t(verif::make_transition(tok.substr(p + 1)));
    void* where = arena + 512 * u.slot[u.ev.size()] + u.shift;
    u.ev.emplace_back(new (where) UnfoldingEvent(causes, t));
    u.idx[u.ev.back().get()] = u.ev.size() - 1;
  }
}

static void print_dep(std::ostream& out, const Unf& u)
{
  out << " n=" << u.n();
  for (size_t i = 0; i < u.n(); i++) {
    out << " d";
    for (size_t j = 0; j < u.n(); j++)
      out << (u.ev[i]->is_dependent_with(u.ev[j].get()) ? '1' : '0');
  }
}

// iteration order of an EventSet (= the hash order the algorithms see): ids joined by `.`, `-` if empty
static std::string iter_order(const Unf& u, const EventSet& s)
{
  if (s.empty())
    return "-";
  std::string r;
  bool first = true;
  for (const auto* e : s) {
    r += (first ? "" : ".") + std::to_string(u.idx.at(e));
    first = false;
  }
  return r;
}

template <class It, class Base> static std::string positions(const std::vector<It>& v, Base b)
{
  if (v.empty())
    return "-";
  std::string s;
  for (size_t i = 0; i < v.size(); i++)
    s += (i ? "." : "") + std::to_string(v[i] - b);
  return s;
}

int main()
{
  xbt_log_control_set("root.thres:critical");
  std::string line;
  while (std::getline(std::cin, line)) {
    std::istringstream in(line);
    std::string kind;
    in >> kind;
    std::ostringstream out;
    out << line << " =>";
    try {
      if (kind == "pairs" || kind == "subs" || kind == "maxs") {
        std::vector<std::string> toks, rest;
        std::string tok;
        bool after = false;
        while (in >> tok) {
          if (tok == ";")
            after = true;
          else
            (after ? rest : toks).push_back(tok);
        }
        Unf u;
        build(u, toks);
        size_t n = u.n();
        print_dep(out, u);
        if (kind != "pairs")
          // o<i>: the order in which the immediate causes of event i are iterated (get_topological_ordering pushes them
          // in that order, minus the ones it filters out)
          for (size_t i = 0; i < n; i++)
            out << " o" << iter_order(u, u.ev[i]->get_immediate_causes());
        if (kind == "pairs") {
          for (size_t i = 0; i < n; i++)
            out << " H" << u.mask(u.ev[i]->get_history());
          for (size_t i = 0; i < n; i++)
            out << " L" << u.mask(u.ev[i]->get_local_config());
          for (int m = 0; m < 3; m++)
            for (size_t i = 0; i < n; i++) {
              out << " " << "icx"[m];
              for (size_t j = 0; j < n; j++) {
                const auto* a = u.ev[i].get();
                const auto* b = u.ev[j].get();
                bool r = m == 0 ? a->in_history_of(b) : m == 1 ? a->conflicts_with(b) : a->immediately_conflicts_with(b);
                out << (r ? '1' : '0');
              }
            }
        } else if (kind == "subs") {
          std::vector<unsigned long> masks;
          for (auto& r : rest)
            masks.push_back(std::stoul(r));
          for (size_t mi = 0; mi < masks.size(); mi++) {
            unsigned long m = masks[mi];
            EventSet s = u.set(m);
            out << " S" << m << ":" << u.mask(History(s).get_all_events()) << ":" << u.mask(s.get_largest_maximal_subset())
                << ":" << (s.is_maximal() ? 1 : 0) << (s.is_conflict_free() ? 1 : 0) << (s.is_valid_configuration() ? 1 : 0)
                << ":";
            unsigned long cwa = 0;
            for (size_t i = 0; i < n; i++)
              if (u.ev[i]->conflicts_with_any(s))
                cwa |= 1ul << i;
            out << cwa << ":";
            auto topo = s.get_topological_ordering();
            if (topo.empty())
              out << "-";
            for (size_t i = 0; i < topo.size(); i++)
              out << (i ? "." : "") << u.idx.at(topo[i]);
            out << "/" << iter_order(u, s) << ":";   // + the iteration order of the set itself (`*unknown_events.begin()`)
            if (s.is_valid_configuration()) {
              unsigned long compat = 0;
              for (size_t i = 0; i < n; i++) {
                Configuration c(s);
                if (c.is_compatible_with(u.ev[i].get()))
                  compat |= 1ul << i;
                char r = 'a';
                size_t before = c.get_events().size();
                try {
                  c.add_event(u.ev[i].get());
                  if (c.get_events().size() == before)
                    r = 'u';
                } catch (std::invalid_argument& e) {
                  r = std::string(e.what()).find("conflicts") != std::string::npos ? 'c' : 'm';
                }
                out << r;
              }
              out << ":" << compat;
            } else
              out << "x:x";
            EventSet t = u.set(masks[(mi + 1) % masks.size()]);
            out << ":" << u.mask(s.make_union(t)) << "." << u.mask(s.subtracting(t)) << "." << u.mask(s.make_intersection(t))
                << "." << (s.is_subset_of(t) ? 1 : 0) << "." << (s.intersects(t) ? 1 : 0);
          }
        } else {
          unsigned long m = std::stoul(rest.at(0));
          std::optional<size_t> mx = rest.at(1) == "-" ? std::nullopt : std::optional<size_t>(std::stoul(rest[1]));
          EventSet s = u.set(m);
          out << " q" << iter_order(u, s);
          for (auto it = maximal_subsets_iterator(s, std::nullopt, mx); it != maximal_subsets_iterator(); ++it)
            out << " " << u.mask(*it);
        }
      } else if (kind == "ksub") {
        unsigned k, n;
        in >> k >> n;
        std::vector<int> v(n);
        for (auto& sub : simgrid::xbt::make_k_subsets_iter(k, v))
          out << " " << positions(sub, v.cbegin());
      } else if (kind == "pset") {
        unsigned n;
        in >> n;
        std::vector<int> v(n);
        for (auto& sub : simgrid::xbt::make_powerset_iter(v))
          out << " " << positions(sub, v.cbegin());
      } else if (kind == "vfl") {
        std::vector<std::vector<int>> cols;
        unsigned s;
        while (in >> s)
          cols.emplace_back(s);
        std::vector<std::reference_wrapper<const std::vector<int>>> refs(cols.begin(), cols.end());
        using vfl = simgrid::xbt::variable_for_loop<const std::vector<int>>;
        for (auto it = vfl(refs); it != vfl(); ++it) {
          out << " ";
          const auto& cur = *it;
          for (size_t i = 0; i < cur.size(); i++)
            out << (i ? "." : "") << (cur[i] - cols[i].cbegin());
        }
      } else
        throw std::runtime_error("bad query");
    } catch (std::exception& e) {
      out << " error " << e.what();
    }
    std::cout << out.str() << "\n";
  }
  return 0;
}
