"""C44 — unfolding set algebra is correct.
Theorems: lean/SgVerif/C44/Props.lean.  Tie: the real udpor::EventSet / History / UnfoldingEvent / Configuration /
maximal_subsets_iterator and the enumerators of src/xbt/utils/iter run in-process on random unfoldings (<= 15 events)
made of REAL transitions; every method on the generated subsets; the Lean driver replays on the model and evaluates the
set-theoretic definitions (computed from the causal order only) on the implementation's answers."""
import importlib.util
import json
import os
from vlib.core import SplitMix

_spec = importlib.util.spec_from_file_location("mcgen", os.path.join(os.path.dirname(os.path.abspath(__file__)), "..", "_shared", "mc", "gen.py"))
_g = importlib.util.module_from_spec(_spec); _spec.loader.exec_module(_g)


KEY_TOPO = "topological-ordering-repeats-events-when-immediate-causes-are-related"


def below(causes):
    """below[i] = set of events <= i (reflexive transitive closure of the immediate causes)"""
    b = []
    for i, cs in enumerate(causes):
        s = {i}
        for c in cs:
            s |= b[c]
        b.append(s)
    return b


def parse_causes(evs):
    return [[] if e.split(":")[0] == "-" else [int(x) for x in e.split(":")[0].split("+")] for e in evs]


def has_related_causes(evs):
    """some event lists two immediate causes that are causally related (c1 < c2): its cause set is not an antichain.
    UDPOR itself creates such events (ExtensionSetCalculator, MUTEX_TEST: K = {e, pre_event_a_C})."""
    causes = parse_causes(evs)
    b = below(causes)
    return any(c1 != c2 and c1 in b[c2] for cs in causes for c1 in cs for c2 in cs)


def gen_unfolding(rng, nmax=15, related=False):
    """list of event tokens `<causes>:<transition>`; several DAG shapes.  related=False: every immediate-cause set is
    reduced to its maximal elements (an antichain, as the definition of `immediate_causes` in UnfoldingEvent.hpp asks);
    related=True: causes are kept as drawn (redundant causes happen, as with UDPOR's own MUTEX_TEST extension)."""
    shape = rng.choice(["sparse", "dense", "chain", "forest", "diamond", "flat", "layers"])
    n = rng.choice([1, 2, 3, 4, 5, 6, 8, 10, 12, nmax, rng.range(1, nmax), rng.range(1, nmax)])
    n = min(n, nmax)
    fam = rng.choice(sorted(_g.FAMILIES))
    kinds = _g.FAMILIES[fam]
    aids = list(range(rng.range(1, 5)))
    nres = rng.choice([1, 2, 2, 3])
    evs = []
    done = []
    for i in range(n):
        if i == 0 or shape == "flat":
            causes = []
        elif shape == "chain":
            causes = [i - 1] if rng.chance(5, 6) else []
        elif shape == "forest":
            causes = [rng.below(i)] if rng.chance(4, 5) else []
        elif shape == "dense":
            causes = [j for j in range(i) if rng.chance(1, 2)]
        elif shape == "diamond":
            causes = sorted(set(rng.below(i) for _ in range(rng.range(1, 3))))
        elif shape == "layers":
            causes = [j for j in range(max(0, i - 4), i) if rng.chance(1, 3)]
        else:
            causes = [j for j in range(i) if rng.chance(1, 6)]
        if not related:
            b = below(done)
            causes = [c for c in causes if not any(c != d and c in b[d] for d in causes)]
        done.append(list(causes))
        rng.shuffle(causes)      # insertion order of the immediate causes = one more source of hash-order variety
        t = _g.gen_transition(rng, rng.choice(aids), rng.choice(kinds), aids, nres)
        evs.append(("+".join(map(str, causes)) if causes else "-") + ":" + t)
    return evs, shape


def run(ctx):
    ctx.cov["rule"] = ("unfoldings drawn from splitmix64(VERIF_SEED): 7 DAG shapes x 7 transition families x sizes 1..15; per unfolding: "
                       "all pair methods, the set methods on seeded subsets (quick) or on every subset (thorough, n <= 11, plus 4096 seeded "
                       "subsets of the 15-event ones), the maximal-subsets iterator on subsets of <= 11 events with size limits; enumerators on "
                       "every (k, n); non-trivial = distinct (unfolding, subset) whose causal closure is strictly larger than the subset "
                       "or which contains a conflict")
    ctx.assumptions += ["the dependency relation between events' transitions is taken as data from dispatch_depends (C39)",
                        "get_topological_ordering: the model replays the search with the hash orders printed by the harness (exact comparison) + validity monitor",
                        "maximal_subsets_iterator: exact sequence compared with the model run on the replayed constructor ordering "
                        "(hash orders printed by the harness); filter argument not exercised; maximum_subset_size = 0 "
                        "is excluded (add_element_to_current_maximal_set xbt_asserts)"]
    ctx.ensure_simgrid(["simgrid"])
    ctx.lean_prove()
    drv = ctx.lean_exe()
    h = ctx.build_harness("harness.cpp", flags=("-no-pie",))   # fixed addresses: see the arena in harness.cpp
    if not (drv and h):
        return
    thorough = ctx.tier == "thorough"
    nunf = 60 if not thorough else 400
    if ctx.broken:
        nunf *= 5
    corpus = [l.strip() for l in open(ctx.pdir + "/corpus.txt") if l.strip() and not l.startswith("#")]
    shapes = {}
    if ctx.replay:
        queries = [json.load(open(ctx.replay))["case"]["query"]]
    else:
        rng = SplitMix(ctx.seed)
        queries = list(corpus)
        nsub = 0
        for i in range(nunf):
            r = rng.fork(i)
            related = (i % 5 == 4)
            evs, shape = gen_unfolding(r, related=related)
            shape = shape + ("+related-causes" if related else "")
            shapes[shape] = shapes.get(shape, 0) + 1
            u = "@%d " % r.below(1000) + " ".join(evs)
            n = len(evs)
            queries.append("pairs " + u)
            if thorough and n <= 11:
                masks = list(range(2 ** n))
            else:
                k = 34 if not thorough else (4096 if n == 15 and i % 8 == 0 else 64)
                masks = sorted(set([0, 2 ** n - 1] + [r.below(2 ** n) for _ in range(k)]))
            nsub += len(masks)
            for c in range(0, len(masks), 256):
                queries.append("subs " + u + " ; " + " ".join(map(str, masks[c:c + 256])))
            for _ in range(3 if not thorough else 6):
                m = r.below(2 ** n)
                while bin(m).count("1") > 11:
                    m &= m - 1
                queries.append("maxs %s ; %d %s" % (u, m, r.choice(["-", "-", "1", "2", "3"])))
            queries.append("maxs %s ; %d -" % (u, (2 ** n - 1) & 0x7ff))
        ctx.cov["subsets_checked"] = nsub
        nk = 7 if not thorough else 11
        for n in range(0, nk + 1):
            for k in range(0, n + 2):
                queries.append("ksub %d %d" % (k, n))
            queries.append("pset %d" % n)
        for i in range(40 if not thorough else 300):
            r = rng.fork(10000 + i)
            queries.append("vfl " + " ".join(str(r.choice([0, 1, 1, 2, 2, 3, 4])) for _ in range(r.range(0, 4))))
    rc, out, err = ctx.run_lines([h], queries, timeout=1800)
    if rc != 0 or len(out) != len(queries):
        ctx.broken.append({"kind": "harness-run", "rc": rc, "stderr": err[-2000:], "lines": len(out)})
        return
    rc, verdicts, err = ctx.run_lines([drv], out, timeout=3000)
    if rc != 0 or not verdicts or verdicts[-1] != "END %d" % len(out):
        ctx.broken.append({"kind": "driver-run", "rc": rc, "stderr": err[-2000:]})
        return
    kinds = {}
    seen = set()
    for q, l, v in zip(queries, out, verdicts):
        ctx.cov["evaluations"] += 1
        k = q.split()[0]
        kinds[k] = kinds.get(k, 0) + 1
        if k == "subs":
            # non-trivial subsets: closure strictly larger than the subset, or not conflict-free
            u = q.split(" ; ")[0]
            for t in l.split(" => ", 1)[1].split():
                if t.startswith("S"):
                    f = t[1:].split(":")
                    if (f[0] != f[1] or f[3][1] == "0") and (u, f[0]) not in seen:
                        seen.add((u, f[0]))
                        ctx.cov["distinct_nontrivial"] += 1
        if v == "ok":
            ctx.cov["traces_validated_against_impl"] += 1
        elif v.startswith("MONFAIL"):
            key = None
            if k in ("subs", "maxs"):
                evs = [t for t in q.split(" ; ")[0].split()[1:] if not t.startswith("@")]
                if has_related_causes(evs) and (k == "maxs" or "INVALID-ORDER" in v):
                    key = KEY_TOPO
            ctx.violation(v[:700], {"query": q, "impl": l[:4000], "verdict": v[:2000]}, key=key)
        elif " error " in l and v.startswith("BADLINE"):
            ctx.violation("the library threw on a well-formed unfolding: " + l[-300:], {"query": q, "impl": l[:4000], "verdict": v[:500]}, key=None)
        else:
            ctx.broken.append({"kind": "correspondence", "query": q[:2000], "impl": l[:2000], "verdict": v[:800]})
    ctx.cov["samples"] = [o[:300] for o in out[:2] + out[len(corpus):len(corpus) + 2]]
    ctx.cov["query_kinds"] = kinds
    ctx.cov["shapes"] = shapes
