"""C41 — reported counter-examples are real and replayable.
Theorems: lean/SgVerif/C41/Props.lean (path syntax round trip; the reference LTS driven by a path executes exactly it).
Tie: (A) the real RecordTrace::to_string / RecordTrace(string) against the Lean model on generated paths and strings
(harness.cpp); (B) programs with a reachable failure run under simgrid-mc with every reduction: the reported path must be
an execution of the reference LTS ending in the reported kind of state, and two replays of it in the plain binary
(--cfg=model-check/replay) must show the same violation and the same sequence of transitions as the model."""
import json
import os
import re
import sys

sys.path.insert(0, os.path.join(os.path.dirname(os.path.abspath(__file__)), "..", "_shared", "mcref"))
import mclib  # noqa: E402
from vlib.core import SplitMix  # noqa: E402

CHUNK_RE = re.compile(r"\* Path chunk #\d+ '(\d+)/(-?\d+)' Actor [^:]*\(pid:\d+\): (\w+)")
NAMES = {"CommAsyncSend": "COMM_ASYNC_SEND", "CommAsyncRecv": "COMM_ASYNC_RECV", "CommWait": "COMM_WAIT",
         "CommTest": "COMM_TEST", "ActorJoin": "ACTOR_JOIN", "ActorCreate": "ACTOR_CREATE", "Random": "RANDOM"}


def hexs(s):
    return "-" if s == "" else "".join("%02x" % ord(c) for c in s)


def gen_syntax(rng, n):
    lines = []
    alphabet = "0123456789;/ +-a"
    for i in range(n):
        k = rng.below(10)
        if k <= 4:      # well-formed paths of stored values, boundary values planted
            ln = rng.choice([1, 1, 2, 3, 5, 12])
            ch = []
            for _ in range(ln):
                aid = rng.choice([0, 1, 2, 9, 10, 30, 32, 99, 100, 255, rng.below(256)])
                if aid == 31 and not rng.chance(1, 4):
                    aid = 30
                tc = rng.choice([0, 0, 0, 1, 2, 9, 10, 255, 256, 65535, rng.below(65536)])
                ch.append("%d:%d" % (aid, tc))
            lines.append("show " + " ".join(ch))
        elif k == 5:    # empty path, invalid aid
            lines.append(rng.choice(["show", "show 31:0", "show 1:0 31:2"]))
        elif k <= 7:    # strings close to the syntax
            parts = []
            for _ in range(rng.range(1, 4)):
                c = str(rng.choice([0, 1, 7, 31, 255, 256, 300, 65536, rng.below(100000)]))
                if rng.chance(1, 2):
                    c += "/" + rng.choice(["", "0", "1", "-1", "+3", "65535", "65536", "70000", " 4", "x"])
                parts.append(c)
            s = ";".join(parts)
            if rng.chance(1, 5):
                s += ";"
            if rng.chance(1, 6):
                s = " " + s
            if rng.chance(1, 8):
                s = "-" + s
            lines.append("parse " + hexs(s))
        else:           # malformed stream
            s = "".join(rng.choice(alphabet) for _ in range(rng.range(0, 9)))
            lines.append("parse " + hexs(s))
    return lines


def add_asserts(rng, prog):
    """Insert `F<v>` (MC_assert(last observation != v)) after some observing operations."""
    secs = prog.split(" ; ")
    out = [secs[0]]
    for sec in secs[1:]:
        toks = sec.split()
        res = [toks[0]]
        for t in toks[1:]:
            res.append(t)
            if t[0] in "TXGt" and rng.chance(1, 2):
                res.append("F%d" % rng.choice([0, 1, 1, 2]))
        out.append(" ".join(res))
    return " ; ".join(out)


def replay_summary(text):
    chunks = ["%s/%s:%s" % (a, b, NAMES.get(k, k)) for a, b, k in CHUNK_RE.findall(text)]
    if "MC assertion failed" in text:
        verdict = "assert"
    elif "DEADLOCK detected" in text:
        verdict = "deadlock"
    elif "no actor remains" in text:
        verdict = "end"
    elif "could run further" in text:
        verdict = "further"
    else:
        verdict = "?"
    return chunks, verdict


def run(ctx):
    ctx.cov["rule"] = ("(A) paths/strings from splitmix64(VERIF_SEED): stored (aid,tc) with boundary values, near-syntax and "
                       "malformed strings; (B) (program, reduction) pairs whose run reports a deadlock or an assertion "
                       "failure; non-trivial = distinct syntax query, or distinct reported path of length >= 2")
    ctx.assumptions += [
        "the FILE: form of model-check/replay and nullptr entries of a RecordTrace are not modelled",
        "numbers in paths stay below 2^31 (sscanf overflow behaviour not modelled)",
        "that simgrid-mc's reported paths are executions of the application is checked per program, not proved",
        "model-check/search-critical is switched off"]
    ctx.ensure_simgrid(["simgrid", "simgrid-mc"])
    ctx.lean_prove()
    drv = ctx.lean_exe()
    h = ctx.build_harness("harness.cpp")
    interp = ctx.build_harness(mclib.INTERP_SRC, name="interp")
    if not (drv and h and interp):
        return
    quick = ctx.tier == "quick"
    corpus = [l.strip() for l in open(os.path.join(ctx.pdir, "corpus.txt")) if l.strip() and not l.startswith("#")]
    syn_corpus = [l for l in corpus if l.startswith(("show", "parse"))]
    prog_corpus = [l for l in corpus if l.startswith("H ")]
    rng = SplitMix(ctx.seed)
    replay_case = json.load(open(ctx.replay))["case"] if ctx.replay else None
    # ------------------------------------------------------------------ (A) syntax
    if replay_case and "query" in replay_case:
        queries = [replay_case["query"]]
    elif replay_case:
        queries = []
    else:
        queries = syn_corpus + gen_syntax(rng.fork(1), (300 if quick else 20000) * (10 if ctx.broken else 1))
    if queries:
        rc, out, err = ctx.run_lines([h], queries)
        if rc != 0 or len(out) != len(queries):
            ctx.broken.append({"kind": "harness-run", "rc": rc, "stderr": err[-2000:], "lines": len(out)})
            return
        rc, verdicts, err = ctx.run_lines([drv], out)
        if rc != 0 or not verdicts or verdicts[-1] != "END %d" % len(out):
            ctx.broken.append({"kind": "driver-run", "rc": rc, "stderr": err[-2000:]})
            return
        seen = set()
        for q, l, v in zip(queries, out, verdicts):
            ctx.cov["evaluations"] += 1
            if q not in seen:
                seen.add(q)
                ctx.cov["distinct_nontrivial"] += 1
            if v == "ok":
                ctx.cov["traces_validated_against_impl"] += 1
            elif v.startswith("MONFAIL"):
                ctx.violation(v, {"query": q, "impl": l}, key=None)
            else:
                ctx.violation("path syntax: implementation differs from the model of mc_record.cpp: " + v[:300],
                              {"query": q, "impl": l}, key=None)
        ctx.cov["syntax_queries"] = len(queries)
        ctx.cov["samples"] = out[:3]
    # ------------------------------------------------------------------ (B) counter-examples
    cap = 400 if quick else 3000
    if replay_case and "program" in replay_case:
        progs = [replay_case["program"]]
    elif replay_case:
        progs = []
    else:
        nprog = 10 if quick else 120
        gen = []
        r2 = rng.fork(2)
        for i in range(nprog):
            p, k = mclib.gen_program(r2.fork(i), big=not quick)
            if i % 3 == 1:
                p = add_asserts(r2.fork(1000 + i), p)
            gen.append(p)
        progs = prog_corpus + gen
    if not progs:
        return
    refs = mclib.oracle(ctx, drv, progs, cap)
    if refs is None:
        return
    # programs without a reachable failure get a reachable outcome forbidden
    final = []
    for p, r in zip(progs, refs):
        if r is None or r["capped"] or r["exh"] or r["crash"]:
            continue
        if r["dl"] or r["af"]:
            final.append(p)
        elif r["outs"] and "forbid=" not in p:
            final.append(mclib.with_forbid(p, r["outs"][len(p) % len(r["outs"])]))
    jobs = []
    for i, p in enumerate(final):
        f = mclib.features(p)
        reds = ["none", "dpor", "sdpor", "odpor"]
        if f["ops"] <= mclib.UDPOR_OPS and f["nchild"] == 0:
            reds.append("udpor")
        if replay_case and replay_case.get("cfg"):
            reds = [replay_case["cfg"]]
        for red in reds:
            jobs.append(((i, red), p, mclib.mc_flags(red)))
    results = mclib.run_many(ctx, interp, jobs, timeout=40 if quick else 120)
    lines, meta = [], []
    reported = 0
    todo = []
    for (i, red), p, _ in jobs:
        res = results[(i, red)]
        if res["timeout"] or res["rc"] == 0:
            continue          # nothing reported (whether something should have been is C38's business)
        case = {"program": p, "cfg": red, "rc": res["rc"], "tail": res["text"][-1500:]}
        if res["rc"] not in (1, 2):
            key = None
            f = mclib.features(p)
            if res["rc"] == 4 and red == "odpor" and "X" in f["ops"] and f["nchild"] > 0:
                key = "odpor-random-with-created-actor-spurious-crash"
            elif res["rc"] == 134 and red == "udpor":
                key = "udpor-abort"
            elif res["rc"] == 134 and red in ("sdpor", "odpor") and "W" in f["ops"] and ("N" in f["ops"] or "Y" in f["ops"]):
                key = "sdpor-odpor-condvar-abort-lock-handle"
            elif res["rc"] == 134 and red in ("sdpor", "odpor") and "B" in f["ops"]:
                key = "sdpor-odpor-barrier-abort-actor-minus-one"
            ctx.cov["evaluations"] += 1
            ctx.violation("simgrid-mc reports exit code %d on a program that neither crashes nor aborts in the "
                          "reference semantics" % res["rc"], case, key=key)
            continue
        kind = "assert" if res["rc"] == 1 else "deadlock"
        m = mclib.PATH_RE.findall(res["text"])
        if not m:
            ctx.cov["evaluations"] += 1
            ctx.violation("a %s is reported without a replayable path" % kind, case, key=None)
            continue
        case.update({"path": m[0], "kind": kind})
        todo.append(case)
    # two replays of every reported path in the plain binary, in parallel
    from concurrent.futures import ThreadPoolExecutor
    with ThreadPoolExecutor(max_workers=int(os.environ.get("VERIF_MC_WORKERS", "12"))) as ex:
        futs = [(case, ex.submit(mclib.run_plain, ctx, interp, case["program"], case["path"]),
                 ex.submit(mclib.run_plain, ctx, interp, case["program"], case["path"])) for case in todo]
        replays = [(case, f1.result(), f2.result()) for case, f1, f2 in futs]
    for case, r1, r2_ in replays:
        p, path, kind, red = case["program"], case["path"], case["kind"], case["cfg"]
        reported += 1
        if r1["timeout"] or r2_["timeout"]:
            continue
        c1, v1 = replay_summary(r1["text"])
        c2, v2 = replay_summary(r2_["text"])
        case.update({"replay1": [c1, v1], "replay2": [c2, v2]})
        ctx.cov["evaluations"] += 1
        if (c1, v1) != (c2, v2):
            ctx.violation("two replays of the reported path differ", case, key=None)
            continue
        if v1 != kind:
            key = "udpor-counterexample-path-incomplete" if (red == "udpor" and v1 == "further") else None
            if key:
                ctx.violation("replaying the path reported by udpor does not reach the reported %s" % kind, case, key=key)
                continue
            ctx.violation("replaying the reported path does not reproduce the reported %s (replay says: %s)" % (kind, v1),
                          case, key=None)
            continue
        lines.append("path %s %s %s => %s" % (kind, path if path else "-", p, " ".join(c1)))
        meta.append(case)
    if lines:
        rc, verdicts, err = ctx.run_lines([drv], lines)
        if rc != 0 or not verdicts or verdicts[-1] != "END %d" % len(lines):
            ctx.broken.append({"kind": "driver-run", "rc": rc, "stderr": err[-2000:]})
            return
        seenp = set()
        for case, l, v in zip(meta, lines, verdicts):
            if (case["program"], case["path"]) not in seenp and case["path"].count(";") >= 1:
                seenp.add((case["program"], case["path"]))
                ctx.cov["distinct_nontrivial"] += 1
            case["verdict"] = v[:500]
            if v == "ok":
                ctx.cov["traces_validated_against_impl"] += 1
            elif v.startswith("MONFAIL"):
                ctx.violation("reported counter-example is not an execution of the reference semantics ending in the "
                              "reported state: " + v[:200], case, key=None)
            else:
                # accepted and ends in the right kind of state, but the kinds of transitions differ: suspect the model
                ctx.broken.append({"kind": "replay-labels-differ", "case": case})
        ctx.cov["samples"] = ctx.cov["samples"] + lines[:2]
    ctx.cov["programs_with_failure"] = len(final)
    ctx.cov["reported_counter_examples"] = reported
