/* C41 harness: the real RecordTrace::to_string / RecordTrace(string) of src/mc/mc_record.cpp on generated paths.
 *   show a:tc a:tc …   -> "<hex of to_string()> <re-parsed a:tc …|throw>"  or "throw" when to_string throws
 *   parse <hex>        -> "a:tc …" or "throw"
 * hex = two hex digits per byte, "-" for the empty string. */
#include "src/mc/mc_record.hpp"
#include "src/mc/transition/Transition.hpp"
#include <simgrid/s4u.hpp>
#include <xbt/log.h>
#include <iostream>
#include <sstream>
#include <string>
#include <vector>

using simgrid::mc::RecordTrace;
using simgrid::mc::Transition;

static std::string hex(const std::string& s)
{
  if (s.empty())
    return "-";
  static const char* d = "0123456789abcdef";
  std::string r;
  for (unsigned char c : s) {
    r += d[c >> 4];
    r += d[c & 15];
  }
  return r;
}
static std::string unhex(const std::string& h)
{
  if (h == "-")
    return "";
  std::string r;
  for (size_t i = 0; i + 1 < h.size(); i += 2)
    r += (char)std::stoi(h.substr(i, 2), nullptr, 16);
  return r;
}
static std::string chunks(const RecordTrace& t)
{
  std::ostringstream o;
  bool first = true;
  for (auto const* tr : t) {
    if (not first)
      o << ' ';
    first = false;
    o << (tr->aid_.has_value() ? (int)tr->aid_.value() : 31) << ':' << tr->times_considered_;
  }
  return o.str();
}
static std::string parse(const std::string& s)
{
  try {
    RecordTrace t(s);
    std::string r = chunks(t);
    for (auto* tr : t)
      delete tr;
    return r;
  } catch (const std::invalid_argument&) {
    return "throw";
  }
}

int main(int argc, char** argv)
{
  simgrid::s4u::Engine e(&argc, argv);
  xbt_log_control_set("root.thres:critical");
  std::string line;
  while (std::getline(std::cin, line)) {
    std::istringstream in(line);
    std::string cmd;
    in >> cmd;
    if (cmd == "show") {
      RecordTrace t;
      std::string tok;
      std::vector<Transition*> owned;
      while (in >> tok) {
        auto c       = tok.find(':');
        unsigned aid = std::stoul(tok.substr(0, c));
        int tc       = std::stoi(tok.substr(c + 1));
        auto* tr     = new Transition(Transition::Type::UNKNOWN, simgrid::mc::Aid(aid), tc);
        owned.push_back(tr);
        t.push_back(tr);
      }
      std::string ans;
      try {
        std::string s = t.to_string();
        ans           = hex(s) + " " + parse(s);
      } catch (const std::logic_error&) {
        ans = "throw";
      }
      for (auto* tr : owned)
        delete tr;
      std::cout << line << " => " << ans << "\n";
    } else if (cmd == "parse") {
      std::string h;
      in >> h;
      std::cout << line << " => " << parse(unhex(h)) << "\n";
    } else
      std::cout << line << " => ?\n";
  }
  return 0;
}
