"""C07 — barrier semantics: complete groups of n in arrival order, no early return, one "last" per group.
Theorems: lean/SgVerif/C07/Props.lean over lean/SgVerif/Sync/Model.lean (BarrierImpl transliteration).
Tie: trace acceptance of real runs (props/_shared/sync/sync_interp.cpp) in normal mode and for every interleaving
explored by simgrid-mc without reduction."""
import json
import os
import sys

sys.path.insert(0, os.path.join(os.path.dirname(os.path.abspath(__file__)), "..", "_shared", "sync"))
import synclib  # noqa: E402

T = synclib.TICK
BIG = [False]      # thorough tier: 3-actor programs under the model checker more often


def gen_normal(rng, pid):
    nb = 1 if rng.chance(3, 4) else 2
    na = rng.range(1, 6)
    ns = [rng.range(1, 6) for _ in range(nb)]
    p = {"id": pid, "bars": [(k, ns[k]) for k in range(nb)], "actors": []}
    cls = rng.below(6)
    if cls == 0:
        # reuse over several rounds with more actors than n: total arrivals a multiple of n (no deadlock)
        n = rng.range(1, min(4, na))
        p["bars"] = [(0, n)]
        rounds = n * rng.range(1, 3)
        for a in range(na):
            ops = []
            for r in range(rounds):
                if rng.chance(1, 2):
                    ops.append(("sleep", rng.range(1, 16) * T // 8))
                ops.append(("bar", 0))
            p["actors"].append(ops)
        return p
    if cls == 1:
        # everybody arrives in a chosen order at distinct dates, n = number of actors, several rounds
        p["bars"] = [(0, na)]
        for a in range(na):
            ops = []
            for r in range(rng.range(1, 3)):
                ops += [("sleep", (rng.below(8) * 8 + a + 1) * T // 64), ("bar", 0)]
            p["actors"].append(ops)
        return p
    for a in range(na):
        ops = []
        for _ in range(rng.range(1, 6)):
            if rng.chance(2, 5):
                ops.append(("sleep", rng.range(0, 12) * T // 4 + T // 8))
            ops.append(("bar", rng.below(nb)))
        p["actors"].append(ops)
    return p


def gen_mc(rng, pid):
    na = 3 if rng.chance(1, 3 if BIG[0] else 10) else 2
    n = rng.range(1, na)
    rounds = rng.range(1, 2) if na == 2 else 1
    if n == 1 and na == 3:
        rounds = 1
    p = {"id": pid, "bars": [(0, n)], "actors": [[("bar", 0)] * rounds for _ in range(na)]}
    return p


def nontrivial(it):
    return sum(1 for l in it["lines"] if l.startswith("r ") and " bar " in l) >= 2


KEY_RED = "sdpor-odpor-miss-barrier-last-outcome"


def run_reduction_witness(ctx):
    """witness_last_mc.cpp under the reductions: what `none` finds (exit 1) every reduction must find."""
    import subprocess
    from vlib import core
    w = ctx.build_harness("witness_last_mc.cpp", flags=("-w",))
    if not w:
        return
    env = dict(os.environ, **ctx.sg_env())
    mc = os.path.join(core.SGBUILD, "bin", "simgrid-mc")
    res = {}
    for r in (["none", "odpor"] if ctx.tier == "quick" else ["none", "dpor", "sdpor", "odpor"]):
        try:
            res[r] = subprocess.run([mc, "--cfg=model-check/reduction:" + r, "--cfg=model-check/search-critical:0",
                                     "--log=root.thres:critical", w], capture_output=True, text=True, timeout=300, env=env,
                                    cwd=ctx.work).returncode
        except subprocess.TimeoutExpired:
            res[r] = "timeout"
        ctx.cov["evaluations"] += 1
    ctx.cov["reduction_witness"] = res
    if res.get("none") == "timeout":
        return
    if res.get("none") != 1:
        # the unreduced exploration must see both arrival orders of round 2, hence the failing assertion
        ctx.violation("the unreduced exploration does not find the execution in which P1 is the last of round 2 (exit %s)" % res.get("none"),
                      {"program": "props/C07/witness_last_mc.cpp", "results": res}, key="barrier-last-flag-mc")
        return
    missed = [r for r, rc in res.items() if rc == 0]
    if missed:
        ctx.violation("reductions %s end with exit 0 on a program whose MC_assert on the value returned by Barrier::wait() fails "
                      "in a reachable execution (found without reduction)" % missed,
                      {"program": "props/C07/witness_last_mc.cpp", "results": res}, key=KEY_RED)


def run(ctx):
    BIG[0] = ctx.tier == "thorough"
    ctx.cov["rule"] = ("programs of 1-6 actors calling wait on 1-2 barriers of size 1..6, 1-6 waits per actor separated by dyadic "
                       "sleeps (arrival orders vary); classes: reuse over several rounds with more actors than n, n = all actors "
                       "in a chosen order, random (may end blocked: incomplete last group); MC: 2-3 actors, all interleavings. "
                       "non-trivial = accepted trace in which at least 2 waits returned (MC: complete trace)")
    if ctx.replay and json.load(open(ctx.replay))["case"].get("program") == "props/C07/witness_last_mc.cpp":
        ctx.ensure_simgrid(["simgrid", "simgrid-mc"])
        run_reduction_witness(ctx)
        return
    synclib.standard_run(ctx, gen_normal, gen_mc, nontrivial, quick=(100, 3), thorough=(1500, 12))
    if not ctx.replay:
        run_reduction_witness(ctx)
