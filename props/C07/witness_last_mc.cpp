// C07 witness (reductions vs the `last` flag): two actors, a barrier of 2, two rounds; P1 asserts that it is never the last
// one of round 2.  Both arrival orders of round 2 are reachable, so the assertion fails in some executions: reduction none
// and dpor report it.  sdpor / odpor end with exit 0: the race between P1's BARRIER_ASYNC_LOCK of round 2 and P2's
// BARRIER_WAIT of round 1 is declared irreversible by BarrierTransition::reversible_race ("the lock enabled the wait")
// although that wait was granted by the first round already, so the order of the round-2 locks is never reversed.
// (Before the repair of `barrier-last-flag-mc` wait() returned 0 to everybody under the checker and nobody could see it.)
#include <simgrid/modelchecker.h>
#include <simgrid/s4u.hpp>
namespace sg4 = simgrid::s4u;
int main(int argc, char* argv[])
{
  sg4::Engine e(&argc, argv);
  auto* zone = e.get_netzone_root();
  auto* h    = zone->add_host("h0", 1e9);
  zone->seal();
  auto bar = sg4::Barrier::create(2);
  for (int i = 1; i <= 2; i++)
    h->add_actor("P" + std::to_string(i), [bar, i]() {
      bar->wait();
      int last = bar->wait();
      if (i == 1)
        MC_assert(not last);
    });
  e.run();
  return 0;
}
