#!/usr/bin/env python3
"""Translator for C27: src/xbt/xbt_parse_units.cpp (+ the two documents that list units)  ->  lean/SgVerif/C27/Gen.lean

What is extracted, exactly as the code builds it:
  * from `unit_scale::unit_scale(initializer_list<tuple>)`: per `case <base>:` the multiplier (`mult = 1024.0`) and the
    two prefix lists (`abbrev ? {...} : {...}`); and the *shape* of the loop (emplace(unit, value); for prefix:
    value *= mult; emplace(prefix + unit, value)) -- if the shape differs from the one the Lean `buildTable` mirrors,
    the translation aborts;
  * from each `xbt_parse_get_<kind>`: the initialiser list of its `static const unit_scale units{...}` -- either
    `std::make_pair("u", <product of numeric literals>)` (inherited unordered_map constructor: plain pairs) or
    `std::make_tuple("u", value, base, abbrev)` (generator constructor) -- and the default unit (last argument of the
    call of xbt_parse_get_value_with_unit);
  * from docs/source/XML_reference.rst (link `bandwidth` unit lists, `latency` table) and the unit paragraph of
    src/kernel/xml/simgrid.dtd: the unit *names* the documentation promises (their magnitudes are the hand-written
    `documented` specification in Model.lean).
Numeric literals are converted exactly (decimal literal -> num/den), never through a float.
Anything that cannot be parsed raises TranslationError (the check reports a broken tie)."""
import re
import sys
from fractions import Fraction


class TranslationError(Exception):
    pass


def strip_comments(src):
    src = re.sub(r"/\*.*?\*/", " ", src, flags=re.S)
    src = re.sub(r"//[^\n]*", " ", src)
    return src


def norm(s):
    return re.sub(r"\s+", "", s)


def literal(tok):
    """C numeric literal -> Fraction (exact)."""
    tok = tok.strip()
    m = re.fullmatch(r"(\d+)(?:\.(\d*))?(?:[eE]([+-]?\d+))?[fFlL]?", tok) or re.fullmatch(r"()\.(\d+)(?:[eE]([+-]?\d+))?", tok)
    if not m:
        raise TranslationError("cannot translate numeric literal %r" % tok)
    ip, fp, ex = m.group(1) or "0", m.group(2) or "", int(m.group(3) or 0)
    v = Fraction(int(ip + fp), 10 ** len(fp))
    return v * Fraction(10) ** ex


def expr(e):
    """product of literals (`7 * 24 * 60 * 60`, `1e-3`)"""
    v = Fraction(1)
    for f in e.split("*"):
        v *= literal(f)
    return v


def strlist(s):
    items = re.findall(r'"([^"\\]*)"', s)
    if norm(s) != norm(",".join('"%s"' % i for i in items)):
        raise TranslationError("cannot translate string list %r" % s)
    return items


def matching(src, i, open_c="{", close_c="}"):
    """index just after the bracket matching src[i]"""
    assert src[i] == open_c
    d = 0
    instr = False
    j = i
    while j < len(src):
        c = src[j]
        if instr:
            if c == "\\":
                j += 1
            elif c == '"':
                instr = False
        elif c == '"':
            instr = True
        elif c == open_c:
            d += 1
        elif c == close_c:
            d -= 1
            if d == 0:
                return j + 1
        j += 1
    raise TranslationError("unbalanced brackets")


def split_top(s):
    """split on commas that are not inside brackets or strings"""
    out, d, cur, instr = [], 0, "", False
    for c in s:
        if instr:
            cur += c
            if c == '"':
                instr = False
            continue
        if c == '"':
            instr = True
        if c in "({[":
            d += 1
        if c in ")}]":
            d -= 1
        if c == "," and d == 0:
            out.append(cur)
            cur = ""
        else:
            cur += c
    if cur.strip():
        out.append(cur)
    return out


EXPECTED_LOOP = norm("""emplace(unit, value);
    for (const auto& prefix : prefixes) {
      value *= mult;
      emplace(prefix + unit, value);
    }""")


def parse_constructor(src):
    m = re.search(r"unit_scale::unit_scale\s*\(([^)]*)\)\s*\{", src)
    if not m:
        raise TranslationError("unit_scale constructor not found")
    if norm(m.group(1)) != norm("std::initializer_list<std::tuple<const std::string, double, int, bool>> generators"):
        raise TranslationError("unit_scale constructor: unexpected parameter list " + m.group(1))
    body = src[m.end() - 1:matching(src, m.end() - 1)]
    mf = re.search(r"for\s*\(\s*auto\s*\[\s*unit\s*,\s*value\s*,\s*base\s*,\s*abbrev\s*\]\s*:\s*generators\s*\)\s*\{", body)
    if not mf:
        raise TranslationError("unit_scale constructor: generator loop header changed")
    loop = body[mf.end() - 1:matching(body, mf.end() - 1)]
    ms = re.search(r"switch\s*\(\s*base\s*\)\s*\{", loop)
    if not ms:
        raise TranslationError("unit_scale constructor: switch (base) not found")
    sw_end = matching(loop, ms.end() - 1)
    sw = loop[ms.end():sw_end - 1]
    pre = norm(loop[1:ms.start()])
    if pre != norm("double mult; std::vector<std::string> prefixes;"):
        raise TranslationError("unit_scale constructor: unexpected statements before the switch: " + pre)
    post = norm(loop[sw_end:-1])
    if post != EXPECTED_LOOP:
        raise TranslationError("unit_scale constructor: the emplace loop is not the one the model mirrors: " + post)
    specs = []
    parts = re.split(r"\b(case\s+\d+\s*:|default\s*:)", sw)
    if norm(parts[0]):
        raise TranslationError("unit_scale constructor: text before first case")
    for lab, txt in zip(parts[1::2], parts[2::2]):
        if lab.startswith("default"):
            if norm(txt) != "THROW_IMPOSSIBLE;":
                raise TranslationError("unit_scale constructor: default branch changed: " + txt)
            continue
        base = int(re.search(r"\d+", lab).group(0))
        mm = re.fullmatch(
            r"\s*mult\s*=\s*([^;]+);\s*prefixes\s*=\s*abbrev\s*\?\s*std::vector<std::string>\s*\{([^}]*)\}\s*:\s*"
            r"std::vector<std::string>\s*\{([^}]*)\}\s*;\s*break\s*;\s*", txt)
        if not mm:
            raise TranslationError("unit_scale constructor: cannot translate case %d: %s" % (base, txt))
        mult = expr(mm.group(1))
        if mult.denominator != 1:
            raise TranslationError("non-integer multiplier")
        specs.append((base, int(mult), strlist(mm.group(2)), strlist(mm.group(3))))
    if not specs:
        raise TranslationError("no case in switch(base)")
    return specs


KINDS = [("time", "xbt_parse_get_time"), ("size", "xbt_parse_get_size"), ("bandwidth", "xbt_parse_get_bandwidth"),
         ("bandwidths", "xbt_parse_get_bandwidths"), ("speed", "xbt_parse_get_speed")]


def parse_kind(src, fn):
    m = re.search(r"\b%s\s*\([^)]*\)\s*\{" % re.escape(fn), src)
    if not m:
        raise TranslationError("function %s not found" % fn)
    body = src[m.end() - 1:matching(src, m.end() - 1)]
    mu = re.search(r"static\s+const\s+unit_scale\s+units\s*\{", body)
    if not mu:
        raise TranslationError("%s: `static const unit_scale units{` not found" % fn)
    init = body[mu.end():matching(body, mu.end() - 1) - 1]
    items = split_top(init)
    pairs, gens = [], []
    for it in items:
        it = it.strip()
        mp = re.fullmatch(r'std::make_pair\s*\(\s*"([^"\\]*)"\s*,\s*([^,()]+)\)', it)
        mt = re.fullmatch(r'std::make_tuple\s*\(\s*"([^"\\]*)"\s*,\s*([^,()]+),\s*(\d+)\s*,\s*(true|false)\s*\)', it)
        if mp:
            pairs.append((mp.group(1), expr(mp.group(2))))
        elif mt:
            gens.append((mt.group(1), expr(mt.group(2)), int(mt.group(3)), mt.group(4) == "true"))
        else:
            raise TranslationError("%s: cannot translate initialiser %r" % (fn, it))
    if pairs and gens:
        raise TranslationError("%s: mixed pair/tuple initialisers (which constructor is chosen?)" % fn)
    calls = [c for c in re.finditer(r"xbt_parse_get_value_with_unit\s*\(", body)]
    if len(calls) != 1:
        raise TranslationError("%s: expected exactly one call of xbt_parse_get_value_with_unit" % fn)
    args = split_top(body[calls[0].end():matching(body, calls[0].end() - 1, "(", ")") - 1])
    if len(args) != 7 or norm(args[3]) != "units":
        raise TranslationError("%s: unexpected arguments of xbt_parse_get_value_with_unit: %r" % (fn, args))
    md = re.fullmatch(r'\s*"([^"\\]*)"\s*', args[6])
    if not md:
        raise TranslationError("%s: default unit is not a string literal: %r" % (fn, args[6]))
    return pairs, gens, md.group(1)


def parse_docs(rst, dtd):
    """names of the units the documentation lists: [(kind, unit, where)]"""
    res = []
    # XML_reference.rst: the section of the <link> tag (bandwidth lists + latency table)
    m = re.search(r"^:``bandwidth``: Maximum bandwidth for this link\..*?(?=^:``sharing_policy``)", rst, re.S | re.M)
    if not m:
        raise TranslationError("XML_reference.rst: link bandwidth/latency section not found")
    sec = m.group(0)
    lists = re.findall(r"\*\*Units in (bytes|bits)\s+and powers of (2|10)[^\n]*\n\s*([^\n]*?)(?:\s*\|br\|)?\s*\n", sec)
    if len(lists) != 4:
        raise TranslationError("XML_reference.rst: expected 4 bandwidth unit lists, found %d" % len(lists))
    for _, _, l in lists:
        names = [n for n in re.split(r"[,\s]+|\bor\b", l.rstrip(".")) if n]
        if not names or not all(re.fullmatch(r"[A-Za-z]+", n) for n in names):
            raise TranslationError("XML_reference.rst: cannot read unit list %r" % l)
        for n in names:
            if ("bandwidth", n, "XML_reference.rst") not in res:
                res.append(("bandwidth", n, "XML_reference.rst"))
    rows = re.findall(r"^\s{3}([a-z]{1,2})\s+(?:pico|nano|micro|milli)?(?:second|minute|hour|day|week)\s", sec, re.M)
    if len(rows) < 5:
        raise TranslationError("XML_reference.rst: latency unit table not found")
    for n in rows:
        res.append(("time", n, "XML_reference.rst"))
    # simgrid.dtd: first "New in DTD version 4" paragraph
    m = re.search(r"- speed\. Default: 'f' or 'flops'\. Also defined:(.*?)- bandwidth\. Default: 'Bps'[^\n]*\n(.*?)- latency\. "
                  r"Default: 's' second\. Also defined:\s*\n([^\n]*)\n", dtd, re.S)
    if not m:
        raise TranslationError("simgrid.dtd: unit paragraph not found")
    for n in ["f", "flops"] + re.findall(r"'([A-Za-z]+)'", m.group(1)):
        res.append(("speed", n, "simgrid.dtd"))
    for l in m.group(2).split("\n"):
        if ":" in l:
            for n in re.findall(r"'([A-Za-z]+)'", l.split(":", 1)[1]):
                res.append(("bandwidth", n, "simgrid.dtd"))
    res.append(("time", "s", "simgrid.dtd"))
    for n in re.findall(r"'([A-Za-z]+)'", m.group(3)):
        res.append(("time", n, "simgrid.dtd"))
    out = []
    for r in res:
        if (r[0], r[1]) not in [(o[0], o[1]) for o in out]:
            out.append(r)
    return out


def q(fr):
    return "⟨%d, %d⟩" % (fr.numerator, fr.denominator)


def lstr(xs):
    return "[" + ", ".join('"%s"' % x for x in xs) + "]"


def translate(repo):
    src = strip_comments(open(repo + "/src/xbt/xbt_parse_units.cpp").read())
    specs = parse_constructor(src)
    out = ["/- GENERATED by props/C27/gen_units.py from src/xbt/xbt_parse_units.cpp, docs/source/XML_reference.rst and",
           "   src/kernel/xml/simgrid.dtd.  Do not edit; not committed (last accepted copy: accepted/Gen.lean). -/",
           "import SgVerif.C27.Base", "namespace SgVerif.C27.Gen", "open SgVerif.C27", "",
           "/-- `switch (base)` of unit_scale::unit_scale: base, mult, abbreviated prefixes, full prefixes -/",
           "def prefixSpecs : List PrefixSpec := ["]
    out.append(",\n".join("  ⟨%d, %d, %s,\n      %s⟩" % (b, m, lstr(a), lstr(f)) for b, m, a, f in specs) + "]")
    out.append("")
    defaults = []
    for kind, fn in KINDS:
        pairs, gens, dflt = parse_kind(src, fn)
        defaults.append((kind, dflt))
        if gens:
            out.append("/-- `static const unit_scale units{…}` of %s (generator tuples) -/" % fn)
            out.append("def %sInit : TableInit := .gens [" % kind)
            out.append(",\n".join('  ⟨"%s", %s, %d, %s⟩' % (u, q(v), b, "true" if a else "false") for u, v, b, a in gens) + "]")
        else:
            out.append("/-- `static const unit_scale units{…}` of %s (plain pairs: inherited unordered_map constructor) -/" % fn)
            out.append("def %sInit : TableInit := .pairs [" % kind)
            out.append(",\n".join('  ("%s", %s)' % (u, q(v)) for u, v in pairs) + "]")
        out.append("")
    out.append("def init : Kind → TableInit")
    for kind, _ in KINDS:
        out.append("  | .%s => %sInit" % (kind, kind))
    out.append("")
    out.append("/-- `default_unit` argument of the call of xbt_parse_get_value_with_unit -/")
    out.append("def defaultUnit : Kind → String")
    for kind, d in defaults:
        out.append('  | .%s => "%s"' % (kind, d))
    out.append("")
    docs = parse_docs(open(repo + "/docs/source/XML_reference.rst").read(), open(repo + "/src/kernel/xml/simgrid.dtd").read())
    out.append("/-- unit names listed by the documentation (XML_reference.rst <link> section, simgrid.dtd unit paragraph) -/")
    out.append("def docListed : List (Kind × String) := [")
    out.append(",\n".join('  (.%s, "%s")' % (k, u) for k, u, _ in docs) + "]")
    out.append("")
    out.append("end SgVerif.C27.Gen")
    return "\n".join(out) + "\n", docs


if __name__ == "__main__":
    repo = sys.argv[1] if len(sys.argv) > 1 else "/repo"
    txt, _ = translate(repo)
    if len(sys.argv) > 2:
        open(sys.argv[2], "w").write(txt)
    else:
        sys.stdout.write(txt)
