// C27 harness: drives xbt_parse_get_{time,size,bandwidth,bandwidths,speed,all_speeds} of libsimgrid in-process.
// stdin: one query per line:   <fn> <entity 0|1> <hex of the value string ("-" for the empty string)>
//   fn in {time,size,bandwidth,bandwidths,speed,speeds}
// stdout: `<query> => <answer>` with
//   val <w> <x>+       returned double(s): %a, or inf/-inf/nan;  w = 1 iff something was logged (the
//                      "Deprecated unit-less value" warning) during the call
//   err range | err nonumber | err unit <hex of the unit text in the message> | err other <hex msg>
#include "xbt/parse_units.hpp"
#include <simgrid/Exception.hpp>
#include <xbt/log.h>

#include <cmath>
#include <cstdio>
#include <cstring>
#include <fcntl.h>
#include <iostream>
#include <sstream>
#include <string>
#include <sys/stat.h>
#include <unistd.h>
#include <vector>

static std::string unhex(const std::string& h)
{
  std::string s;
  if (h == "-")
    return s;
  for (size_t i = 0; i + 1 < h.size(); i += 2)
    s.push_back((char)std::stoi(h.substr(i, 2), nullptr, 16));
  return s;
}
static std::string hex(const std::string& s)
{
  static const char* d = "0123456789abcdef";
  std::string h;
  for (unsigned char c : s) {
    h.push_back(d[c >> 4]);
    h.push_back(d[c & 15]);
  }
  return h.empty() ? "-" : h;
}
static std::string fmt(double v)
{
  if (std::isnan(v))
    return "nan";
  if (std::isinf(v))
    return v < 0 ? "-inf" : "inf";
  char buf[64];
  snprintf(buf, sizeof buf, "%a", v);
  return buf;
}

int main()
{
  // everything the library logs goes to fd 2: point fd 2 to a scratch file and look at its size after each call
  char tmpl[] = "/tmp/c27logXXXXXX";
  int logfd   = mkstemp(tmpl);
  unlink(tmpl);
  dup2(logfd, 2);

  std::string line;
  while (std::getline(std::cin, line)) {
    std::istringstream in(line);
    std::string fn, hx;
    int entity = 0;
    in >> fn >> entity >> hx;
    std::string s      = unhex(hx);
    std::string ent    = entity ? "host" : "";
    std::ostringstream out;
    if (ftruncate(logfd, 0) != 0)
      return 3;
    lseek(logfd, 0, SEEK_SET);
    try {
      std::vector<double> vals;
      if (fn == "time")
        vals.push_back(xbt_parse_get_time("f", 1, s, ent));
      else if (fn == "size")
        vals.push_back(xbt_parse_get_size("f", 1, s, ent));
      else if (fn == "bandwidth")
        vals.push_back(xbt_parse_get_bandwidth("f", 1, s, ent));
      else if (fn == "speed")
        vals.push_back(xbt_parse_get_speed("f", 1, s, ent));
      else if (fn == "bandwidths")
        vals = xbt_parse_get_bandwidths("f", 1, s, ent);
      else if (fn == "speeds")
        vals = xbt_parse_get_all_speeds("f", 1, s, ent);
      else {
        std::cout << line << " => badquery" << std::endl;
        continue;
      }
      fflush(stderr);
      struct stat st;
      fstat(logfd, &st);
      out << "val " << (st.st_size > 0 ? 1 : 0);
      for (double v : vals)
        out << " " << fmt(v);
    } catch (const simgrid::ParseError& e) {
      std::string m = e.what();
      // "Parse error at f:1: <msg>"
      auto p = m.find("f:1: ");
      std::string msg = p == std::string::npos ? m : m.substr(p + 5);
      if (msg.rfind("value out of range: ", 0) == 0)
        out << "err range";
      else if (msg.rfind("cannot parse number:", 0) == 0)
        out << "err nonumber";
      else if (msg.rfind("unknown unit: ", 0) == 0)
        out << "err unit " << hex(msg.substr(14));
      else
        out << "err other " << hex(msg);
    } catch (const std::exception& e) {
      out << "err other " << hex(e.what());
    }
    std::cout << line << " => " << out.str() << "\n";
  }
  std::cout.flush();
  return 0;
}
