"""C27 — values with units are parsed to the documented magnitudes.
Theorems: lean/SgVerif/C27/Props.lean, stated over the tables *generated* from xbt_parse_units.cpp on every run
(props/C27/gen_units.py -> lean/SgVerif/C27/Gen.lean).  Correspondence: every unit of every kind (and of the other
kinds, and the names the documentation lists) x {integer, decimal, exponent, dyadic} numbers + a malformed stream,
through xbt_parse_get_{time,size,bandwidth,bandwidths,speed,all_speeds} of the built library."""
import ast
import importlib.util
import json
import os
import re
from fractions import Fraction
from vlib import core
from vlib.core import SplitMix

FNS = ["time", "size", "bandwidth", "speed"]


def load_translator(ctx):
    spec = importlib.util.spec_from_file_location("gen_units", os.path.join(ctx.pdir, "gen_units.py"))
    mod = importlib.util.module_from_spec(spec)
    spec.loader.exec_module(mod)
    return mod


def hx(s):
    b = s.encode("latin-1") if isinstance(s, str) else s
    return b.hex() or "-"


def unit_names(tr, repo):
    """every name the code can define (all prefixes of both spellings on every base unit) + documentation names +
    the SI/IEC names of the specification + near misses"""
    src = tr.strip_comments(open(repo + "/src/xbt/xbt_parse_units.cpp").read())
    specs = tr.parse_constructor(src)
    names = []
    bases = []
    for kind, fn in tr.KINDS:
        pairs, gens, dflt = tr.parse_kind(src, fn)
        for u, _ in pairs:
            names.append(u)
        for u, _, _, _ in gens:
            bases.append(u)
    bases = sorted(set(bases))
    prefixes = [""]
    for _, _, a, f in specs:
        prefixes += a + f
    prefixes += ["kilo", "mega", "giga", "tera", "peta", "exa", "zetta", "yotta", "K", "m", "u", "n", "da", "h", "ki", "MI"]
    for b in bases + ["Bp", "bp", "F", "flop", "Flops", "bit", "byte", "o", "Hz"]:
        for p in prefixes:
            names.append(p + b)
    return sorted(set(names))


def accepted_units(tr, repo):
    """{fn: unit names the code accepts}, recomputed from the translated initialisers -- used ONLY to weight the
    generator towards valid inputs (never to judge an answer)"""
    src = tr.strip_comments(open(repo + "/src/xbt/xbt_parse_units.cpp").read())
    specs = {b: (a, f) for b, _, a, f in tr.parse_constructor(src)}
    res = {}
    for kind, fn in tr.KINDS:
        pairs, gens, _ = tr.parse_kind(src, fn)
        names = [u for u, _ in pairs]
        for u, _, b, ab in gens:
            names += [u] + [p + u for p in specs[b][0 if ab else 1]]
        res[kind] = sorted(set(names))
    return res


def numbers(rng, n):
    """(class, text) mostly valid numbers"""
    out = [("int", "1"), ("int", "0"), ("dec", "2.5"), ("exp", "1e3")]
    for _ in range(n):
        k = rng.below(12)
        if k <= 2:
            out.append(("int", str(rng.choice([rng.below(10), rng.below(1000), rng.below(10**9), rng.below(10**15)]))))
        elif k <= 4:
            out.append(("dec", "%d.%s" % (rng.below(1000), "".join(str(rng.below(10)) for _ in range(rng.range(1, 6))))))
        elif k == 5:
            out.append(("dec", rng.choice([".5", "5.", "007", "0.0", "00.250", ".125", "3.", "0.1", "123456789.987654321"])))
        elif k <= 7:
            out.append(("exp", "%d%s%s%s%d" % (rng.below(100), rng.choice(["", ".5", ".25", "."]), rng.choice("eE"),
                                              rng.choice(["", "+", "-"]), rng.below(25))))
        elif k == 8:  # dyadic: exact lane (the product with a power-of-two multiplier is exact)
            out.append(("dyadic", str(Fraction(rng.below(2**20), 2 ** rng.below(11)).__float__())))
        elif k == 9:
            out.append(("signed", rng.choice(["+", "-", " ", "\t", " -", "  +"]) + str(rng.below(500))))
        elif k == 10:
            out.append(("hex", rng.choice(["0x10", "0X1p4", "0x.8", "0x1.8p+1", "0xA", "0x1p-3", "0xfp0"])))
        else:
            out.append(("special", rng.choice(["inf", "-inf", "INF", "infinity", "nan", "NaN", "-nan", "nan(1)", "1e308", "1e-300",
                                               "1e400", "1e-400", "0e999", "1e-320", "179769313486231570" + "0" * 291])))
    return out


MAL_ALPHA = "0123456789..eE+-xXpP  KkMiBbfs,;_()nainfty\t"


def malformed(rng):
    k = rng.below(8)
    if k == 0:
        return "".join(rng.choice(MAL_ALPHA) for _ in range(rng.below(9)))
    if k == 1:
        return rng.choice(["", ".", "e5", "E", "+", "-", "+-1", "--1", "x10", "s", "Bps", "kBps", ". 5", "-.", "+.e1", "i", "in", "na", "n"])
    if k == 2:
        return str(rng.below(100)) + rng.choice([" ", "\t", "  "]) + rng.choice(["s", "B", "Bps", "f", "ms", "kBps"])
    if k == 3:
        return str(rng.below(100)) + rng.choice(["s", "B", "Bps", "f"]) + rng.choice([" ", "s", "1", ".", "\t", "\n"])
    if k == 4:
        return rng.choice(["1e", "1e+", "1e-", "1E+x", "0x", "0xg", "0x.", "1..", "1.2.3", "1,5", "1_000", "1e5e5", "0x1p", "1e 5", "1 e5"]) + \
            rng.choice(["", "s", "B", "Bps", "f"])
    if k == 5:
        return rng.choice(["nan(", "nan()", "nan(a_1)", "nan(a-1)", "NAN(xyz", "infinit", "infinityy", "infs", "in", "nano"]) + \
            rng.choice(["", "s", "f"])
    if k == 6:  # a byte outside ASCII
        return rng.choice(["\xb5s", "1\xb5s", "\xa01s", "1\xa0s", "f1".encode("latin-1").decode("latin-1")])
    return rng.choice(["1", "2.5", "1e3"]) + "".join(rng.choice("kKMGmunsBbpfiE") for _ in range(rng.range(1, 5)))


def gen(rng, names, nnum, nmal, nlist, valid=None, per_valid=2):
    qs = []
    nums = numbers(rng, nnum)
    # mostly-valid stream: every accepted (function, unit) x per_valid numbers of each class
    for fn in FNS:
        for u in (valid or {}).get(fn, []):
            for c in ("int", "dec", "exp", "dyadic", "signed"):
                cls = [x for x in nums if x[0] == c]
                for _ in range(per_valid if cls else 0):
                    qs.append(("valid-" + c, "%s %d %s" % (fn, rng.below(2), hx(rng.choice(cls)[1] + u))))
    # every unit name x every function x (at least) one number of each class, round-robin over the numbers
    i = 0
    for u in names:
        for fn in FNS:
            for c in ("int", "dec", "exp"):
                cls = [x for x in nums if x[0] == c]
                num = cls[i % len(cls)][1]
                i += 1
                qs.append(("unit-" + c, "%s %d %s" % (fn, rng.below(2), hx(num + u))))
    for c, num in nums:
        fn = rng.choice(FNS)
        u = rng.choice(names + ["", "", ""])
        qs.append(("num-" + c, "%s %d %s" % (fn, rng.below(2), hx(num + u))))
        if rng.chance(1, 3):
            qs.append(("num-" + c, "%s %d %s" % (rng.choice(FNS), rng.below(2), hx(num))))
    for _ in range(nmal):
        qs.append(("malformed", "%s %d %s" % (rng.choice(FNS), rng.below(2), hx(malformed(rng)))))
    for _ in range(nlist):
        toks = []
        for _ in range(rng.range(1, 4)):
            if rng.chance(1, 6):
                toks.append(malformed(rng).replace(",", "").replace(";", ""))
            else:
                toks.append(rng.choice(nums)[1] + rng.choice(names + [""]))
        if rng.chance(1, 2):
            s = "".join(t + rng.choice([";", ","]) for t in toks)[:-1]
            if rng.chance(1, 10):
                s += rng.choice([";", ",", ",,"])
            qs.append(("list-bandwidths", "bandwidths %d %s" % (rng.below(2), hx(s))))
        else:
            s = ",".join(rng.choice(["", " ", "  "]) + t + rng.choice(["", " ", "\t"]) for t in toks)
            qs.append(("list-speeds", "speeds %d %s" % (rng.below(2), hx(s))))
    return qs


def canon(line):
    """`val w x…` with %a doubles -> exact rationals p/q"""
    q, a = line.split(" => ", 1)
    t = a.split()
    if t and t[0] == "val":
        vals = []
        for x in t[2:]:
            if x in ("inf", "-inf", "nan"):
                vals.append(x)
            else:
                f = Fraction(float.fromhex(x))
                vals.append("%d/%d" % (f.numerator, f.denominator))
        a = " ".join(t[:2] + vals)
    return q + " => " + a


def classify(query):
    """classification key of a monitor failure = the minimal witness class (the unit text after the number)"""
    try:
        s = bytes.fromhex(query.split()[2]).decode("latin-1") if query.split()[2] != "-" else ""
    except ValueError:
        return None
    if re.search(r"zett?aflops$", s):
        return "speed-zetta-prefix-misspelled"
    if re.search(r"K(Bps|bps)$", s):
        return "doc-lists-KBps-Kbps"
    return None


def build(ctx, *a, **k):
    """ctx.build_harness, retried once after waiting for the shared simgrid build (another check may be relinking it)"""
    nb = len(ctx.broken)
    h = ctx.build_harness(*a, **k)
    if h is None:
        del ctx.broken[nb:]
        ctx.ensure_simgrid(["simgrid"])
        h = ctx.build_harness(*a, **k)
    return h


def run(ctx):
    ctx.cov["rule"] = ("query = (function, value string); strings = every unit name the code can build on every base unit "
                       "(both prefix spellings), the names the documentation lists, SI/IEC names and near misses, each x "
                       "integer/decimal/exponent numbers, + number classes (dyadic, signed, hex, inf/nan, range limits) + a "
                       "malformed stream + lists; non-trivial = distinct query whose implementation answer is a value and "
                       "whose string has an explicit unit suffix")
    ctx.assumptions += ["libc strtod is specified (number syntax, ERANGE classes), not verified; inexact hexadecimal subnormals avoided",
                        "double rounding is not modelled: exact rational model, tolerance 2.5 ulp (exact when no rounding occurs)",
                        "the documented magnitudes are the hand-written SI/IEC specification in Model.lean `documented`; the list of "
                        "documented unit names is extracted from XML_reference.rst and simgrid.dtd"]
    ctx.ensure_simgrid(["simgrid"])
    # ---- translate (every run)
    tr = load_translator(ctx)
    genpath = os.path.join(core.LEAN, "SgVerif", "C27", "Gen.lean")
    accepted = os.path.join(core.LEAN, "SgVerif", "C27", "accepted", "Gen.lean")
    try:
        txt, docs = tr.translate(core.REPO)
        if not os.path.exists(genpath) or open(genpath).read() != txt:
            open(genpath, "w").write(txt)
        if os.path.exists(accepted) and open(accepted).read() != txt:
            old = open(accepted).read().split("\n")
            new = txt.split("\n")
            ctx.notes.append({"gen_differs_from_accepted": [l for l in new if l not in old][:20],
                              "removed": [l for l in old if l not in new][:20]})
        names = unit_names(tr, core.REPO)
        valid = accepted_units(tr, core.REPO)
    except (tr.TranslationError, OSError) as e:
        ctx.broken.append({"kind": "translator", "error": str(e)})
        # keep going with the last accepted tables so that the search below can still look for a failing input
        if not os.path.exists(genpath):
            open(genpath, "w").write(open(accepted).read())
        names = sorted(set(re.findall(r'"([A-Za-z]+)"', open(accepted).read())))
        names = sorted(set(names + [p + b for p in names for b in ("B", "b", "Bps", "bps", "f", "flops")]))
        valid = None
    ctx.lean_prove()
    drv = ctx.lean_exe()
    h = build(ctx, "harness.cpp")
    if not (drv and h):
        return
    nnum, nmal, nlist = (60, 400, 150) if ctx.tier == "quick" else (600, 20000, 8000)
    if ctx.broken:
        nnum, nmal, nlist = nnum * 10, nmal * 10, nlist * 10     # search mode
    corpus = [l.strip() for l in open(ctx.pdir + "/corpus.txt") if l.strip() and not l.startswith("#")]
    corpus = [("corpus", "%s %s %s" % (l.split(" ", 2)[0], l.split(" ", 2)[1], hx(ast.literal_eval(l.split(" ", 2)[2])))) for l in corpus]
    if ctx.replay:
        queries = [("replay", json.load(open(ctx.replay))["case"]["query"])]
    else:
        rng = SplitMix(ctx.seed)
        queries = corpus + gen(rng, names, nnum, nmal, nlist, valid, 2 if ctx.tier == "quick" else 12)
        if ctx.tier == "thorough":
            for k in range(3):
                queries += gen(rng.fork(k + 1), names, 40, 0, 0)
    campaign(ctx, h, drv, queries, len(names))
    if ctx.broken and not ctx.violations and not ctx.replay:
        # something no longer checks and no failing input yet: search harder (10x, other stream)
        campaign(ctx, h, drv, gen(SplitMix(ctx.seed).fork(99), names, nnum * 10, nmal * 10, nlist * 10), len(names))


def campaign(ctx, h, drv, queries, nnames):
    rc, out, err = ctx.run_lines([h], [q for _, q in queries])
    if rc != 0 or len(out) != len(queries):
        ctx.broken.append({"kind": "harness-run", "rc": rc, "stderr": err[-2000:], "lines": len(out)})
        return
    out = [canon(l) for l in out]
    rc, verdicts, err = ctx.run_lines([drv], out)
    if rc != 0 or not verdicts or verdicts[-1] != "END %d" % len(out):
        ctx.broken.append({"kind": "driver-run", "rc": rc, "stderr": err[-2000:]})
        return
    kinds, answers, seen = {}, {}, set()
    for (cls, q), l, v in zip(queries, out, verdicts):
        ctx.cov["evaluations"] += 1
        kinds[cls] = kinds.get(cls, 0) + 1
        a = l.split(" => ", 1)[1].split()
        ak = " ".join(a[:2]) if a[0] == "err" else a[0]
        answers[ak] = answers.get(ak, 0) + 1
        s = bytes.fromhex(q.split()[2]) if q.split()[2] != "-" else b""
        if q not in seen and a[0] == "val" and re.search(rb"[A-Za-z]$", s):
            seen.add(q)
            ctx.cov["distinct_nontrivial"] += 1
        case = {"query": q, "string": s.decode("latin-1"), "impl": l.split(" => ", 1)[1], "verdict": v}
        if v == "ok":
            ctx.cov["traces_validated_against_impl"] += 1
        elif v.startswith("MONFAIL"):
            ctx.violation(v, case, key=classify(q))
        elif v.startswith("DISAGREE"):
            # the monitor held (documented units have the documented value, undocumented ones are rejected, …) but the
            # implementation does not do what the model of the code says: broken correspondence
            ctx.broken.append({"kind": "disagreement", "case": case})
        else:
            ctx.broken.append({"kind": "badline", "case": case})
    ctx.cov["samples"] = [o for o in out if " => val" in o][:3] + [o for o in out if " => err" in o][:3]
    ctx.cov["distribution"] = kinds
    ctx.cov["answers"] = answers
    ctx.cov["unit_names"] = nnames
