// Shared harness of C17 and C18: drives the REAL simgrid::kernel::lmm::System in-process.
// stdin: one operation per line; stdout: `<line> => <dump>` (format documented in lean/SgVerif/LmmBook/Replay.lean).
//
//   new <sel> <cfgbits>        fresh System::build("maxmin", sel)   (cfgbits is for the Lean driver only)
//   cnew <bound4> <limit|-1> <S|F|W>      constraint_new + set_concurrency_limit + sharing policy
//   vnew <pen4> <bound4|-1>               variable_new       (numbers are in quarter units: 4 = 1.0)
//   expand <c> <v> <w4> <force>           expand
//   vfree <v> | vbound <v> <b4> | vpen <v> <p4> | cbound <c> <b4> | solve
//   setctr <n>                            presets the private visited_counter_ (emulates n-1 earlier solves)
//
// When started with argument `c17`, after every `solve` that really solved (modified_ was set) a FRESH
// non-selective system is built from the live constraints/variables (current penalties, weights, bounds; no
// concurrency limit, staged variables have penalty 0 exactly as in the live system), solved from scratch, and
// `X<v>|<value in the live system>|<value in the fresh system>` tokens (hexfloat) are appended.
//
// Private members (staged_sharing_penalty_ is public, visited_counter_ / concurrency_limit_ / modified_constraint_set
// are not) are reached by including the header with private/protected redefined, see proposed_hook.diff for the
// accessor variant.  An xbt_assert of the library (abort) or a crash is reported as `F1`; the rest of that case answers `F1`.
#include <algorithm>
#include <boost/intrusive/list.hpp>
#include <climits>
#include <cmath>
#include <csetjmp>
#include <csignal>
#include <cstdio>
#include <cstdlib>
#include <cstring>
#include <functional>
#include <iostream>
#include <limits>
#include <memory>
#include <sstream>
#include <string>
#include <string_view>
#include <unordered_map>
#include <vector>
#include <sys/wait.h>
#include <unistd.h>
#include "simgrid/kernel/resource/Action.hpp"
#include "simgrid/kernel/resource/Model.hpp"
#include "xbt/asserts.h"
#include "xbt/log.h"
#define private public
#define protected public
#include "src/kernel/lmm/System.hpp"
#include "src/kernel/lmm/maxmin.hpp"
#undef private
#undef protected

using namespace simgrid::kernel::lmm;
namespace R = simgrid::kernel::resource;

static System* sys = nullptr;
static bool selective = false;
static std::vector<Constraint*> cs;
static std::vector<Variable*> vs;   // nullptr once freed
static std::unordered_map<const Variable*, int> vid;
static std::unordered_map<const Constraint*, int> cid;
static bool dead = true;            // the library aborted in this case
static sigjmp_buf jb;
static bool c17 = false;

static void on_abort(int)
{
  siglongjmp(jb, 1);
}

// solve() with selective update touches var->id_ (Action::modified_set_hook_) only: zeroed storage is a valid unlinked hook
static R::Action* fake_action()
{
  void* p = aligned_alloc(64, ((sizeof(R::Action) + 63) / 64) * 64);
  memset(p, 0, sizeof(R::Action));
  return static_cast<R::Action*>(p);
}

static long q4(double x)
{
  return std::lround(x * 4);
}

template <class L> static void put_entries(std::ostream& o, const L& l)
{
  bool first = true;
  for (Element const& e : l) {
    if (not first)
      o << ";";
    first = false;
    o << vid.at(e.variable) << "." << (&e - e.variable->cnsts_.data()) << "." << q4(e.consumption_weight);
  }
}

static std::string dump()
{
  std::ostringstream o;
  o << "F0 n" << vs.size() << "," << cs.size() << " k" << sys->visited_counter_ << " m" << (sys->modified_ ? 1 : 0);
  o << " VS";
  bool first = true;
  for (Variable const& v : sys->variable_set) {
    o << (first ? "" : ";") << vid.at(&v);
    first = false;
  }
  o << " A";
  first = true;
  for (Constraint const& c : sys->active_constraint_set) {
    o << (first ? "" : ";") << cid.at(&c);
    first = false;
  }
  o << " M";
  first = true;
  for (Constraint const& c : sys->modified_constraint_set) {
    o << (first ? "" : ";") << cid.at(&c);
    first = false;
  }
  for (size_t i = 0; i < cs.size(); i++) {
    const Constraint* c = cs[i];
    o << " C" << i << "|" << c->concurrency_current_ << "|";
    if (c->get_concurrency_limit() < 0)
      o << "-";
    else
      o << c->get_concurrency_limit();
    o << "|";
    int sl = c->get_concurrency_slack();
    if (sl == std::numeric_limits<int>::max())
      o << "inf";
    else
      o << sl;
    o << "|";
    put_entries(o, c->enabled_element_set_);
    o << "|";
    put_entries(o, c->disabled_element_set_);
  }
  for (size_t i = 0; i < vs.size(); i++) {
    const Variable* v = vs[i];
    if (v == nullptr) {
      o << " V" << i << "|x";
      continue;
    }
    o << " V" << i << "|" << q4(v->get_penalty()) << "|" << q4(v->staged_sharing_penalty_) << "|" << v->visited_ << "|";
    for (size_t k = 0; k < v->cnsts_.size(); k++)
      o << (k ? ";" : "") << cid.at(v->cnsts_[k].constraint);
  }
  return o.str();
}

static std::string fresh_compare()
{
  System* f = System::build("maxmin", false);
  std::vector<Constraint*> fc;
  for (const Constraint* c : cs) {
    Constraint* n = f->constraint_new(nullptr, c->bound_);
    n->sharing_policy_ = c->sharing_policy_;
    fc.push_back(n);
  }
  std::vector<Variable*> fv(vs.size(), nullptr);
  for (size_t i = 0; i < vs.size(); i++) {
    const Variable* v = vs[i];
    if (v == nullptr)
      continue;
    fv[i] = f->variable_new(nullptr, v->sharing_penalty_, v->bound_, v->cnsts_.size() + 1);
    for (Element const& e : v->cnsts_)
      f->expand(fc[cid.at(e.constraint)], fv[i], e.consumption_weight, true);
  }
  f->solve();
  std::ostringstream o;
  char buf[128];
  for (size_t i = 0; i < vs.size(); i++)
    if (vs[i] != nullptr) {
      snprintf(buf, sizeof buf, " X%zu|%a|%a", i, vs[i]->get_value(), fv[i]->get_value());
      o << buf;
    }
  for (Variable* v : fv)
    if (v != nullptr)
      f->variable_free(v);
  delete f;
  return o.str();
}

// one line of a case; returns the answer (without the `<line> => ` prefix)
static std::string do_line(const std::string& line)
{
  std::istringstream is(line);
  std::string op;
  is >> op;
  std::string extra;
  if (op == "new") {
    int sel;
    is >> sel;
    cs.clear();
    vs.clear();
    vid.clear();
    cid.clear();
    selective = sel != 0;
    sys       = System::build("maxmin", selective);
    dead      = false;
  } else if (dead) {
    return "F1";
  } else if (sigsetjmp(jb, 1) != 0) {
    dead = true;
    return "F1";
  } else if (op == "cnew") {
    long b, lim;
    std::string pol;
    is >> b >> lim >> pol;
    Constraint* c = sys->constraint_new(nullptr, b / 4.0);
    c->set_concurrency_limit(static_cast<int>(lim));
    if (pol == "F")
      c->unshare();
    else if (pol == "W")
      c->set_sharing_policy(Constraint::SharingPolicy::WIFI, {});
    cid[c] = static_cast<int>(cs.size());
    cs.push_back(c);
  } else if (op == "vnew") {
    long p, b;
    is >> p >> b;
    Variable* v = sys->variable_new(fake_action(), p / 4.0, b < 0 ? -1.0 : b / 4.0, 64);
    vid[v]      = static_cast<int>(vs.size());
    vs.push_back(v);
  } else if (op == "expand") {
    size_t c, v;
    long w;
    int force;
    is >> c >> v >> w >> force;
    sys->expand(cs.at(c), vs.at(v), w / 4.0, force != 0);
  } else if (op == "vfree") {
    size_t v;
    is >> v;
    Variable* var = vs.at(v);
    vs[v]         = nullptr;
    vid.erase(var);
    // unlink the fake action from the modified action set first (Action::~Action does the same)
    if (selective && var->id_->is_within_modified_set())
      simgrid::xbt::intrusive_erase(*sys->modified_set_, *var->id_);
    sys->variable_free(var);
  } else if (op == "vbound") {
    size_t v;
    long b;
    is >> v >> b;
    sys->update_variable_bound(vs.at(v), b < 0 ? -1.0 : b / 4.0);
  } else if (op == "vpen") {
    size_t v;
    long p;
    is >> v >> p;
    sys->update_variable_penalty(vs.at(v), p / 4.0);
  } else if (op == "cbound") {
    size_t c;
    long b;
    is >> c >> b;
    sys->update_constraint_bound(cs.at(c), b / 4.0);
  } else if (op == "solve") {
    bool was_modified = sys->modified_;
    sys->solve();
    if (selective)
      sys->modified_set_->clear();
    if (c17 && was_modified)
      extra = fresh_compare();
  } else if (op == "setctr") {
    unsigned long n;
    is >> n;
    sys->visited_counter_ = static_cast<unsigned>(n);
  } else {
    return "BADOP";
  }
  return dump() + extra;
}

// After an abort or an erase of an unlinked hook (undefined behaviour) the heap of the process cannot be trusted:
// the rest of that case answers `F1` without touching the library, and at the next `new` the harness re-executes
// itself on the remaining lines (fresh process image).
int main(int argc, char** argv)
{
  c17 = argc > 1 && std::string(argv[1]) == "c17";
  xbt_log_control_set("root.thres:critical");
  xbt_log_no_loc = 1; // no backtrace on xbt_assert (symbolisation takes seconds)
  signal(SIGABRT, on_abort);
  signal(SIGSEGV, on_abort);
  signal(SIGBUS, on_abort);
  std::vector<std::string> lines;
  std::string line;
  while (std::getline(std::cin, line))
    if (not line.empty())
      lines.push_back(line);
  bool tainted = false;
  for (size_t k = 0; k < lines.size(); k++) {
    if (tainted && lines[k].rfind("new ", 0) == 0) {
      char name[] = "/tmp/lmmbook-harness-XXXXXX";
      int fd      = mkstemp(name);
      if (fd < 0)
        return 3;
      FILE* t = fdopen(fd, "w+");
      for (size_t m = k; m < lines.size(); m++)
        fprintf(t, "%s\n", lines[m].c_str());
      fflush(t);
      fflush(stdout);
      lseek(fd, 0, SEEK_SET);
      dup2(fd, 0);
      unlink(name);
      execv("/proc/self/exe", argv);
      return 4;
    }
    std::string a = do_line(lines[k]);
    if (dead)
      tainted = true;
    printf("%s => %s\n", lines[k].c_str(), a.c_str());
  }
  return 0;
}
