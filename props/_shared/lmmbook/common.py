"""Shared by props/C17 and props/C18: history generator, harness/driver runner, shrinker, coverage.

A *case* is a list of harness lines starting with `new <sel> <cfgbits>` (see harness.cpp).  Every random choice comes
from SplitMix(seed).fork(case index), so a case replays from (seed, index)."""
import json
import os
import re
from fractions import Fraction

from vlib.core import SplitMix

HERE = os.path.dirname(os.path.abspath(__file__))

# Which of the three proposed repairs the code in /repo contains (order: fixSuspend, fixFromVar, fixWrap; see
# lean/SgVerif/LmmBook/Model.lean `Cfg`).  "000" = the code as it is now.  After the integrator applies
# props/C18/proposed_fix.diff flip the first bit, after props/C17/proposed_fix.diff the second and third.
CFG_BITS = "111"

U32 = 2 ** 32
WEIGHTS = [0, 1, 2, 3, 4, 4, 4, 4, 5, 8, 12]          # quarter units: 0, <1 (no slot), 1, >1
PENS = [1, 2, 4, 4, 4, 8, 12]
BOUNDS = [-1, -1, -1, 1, 2, 4, 10, 40]


class Tracker:
    """what the generator must know to emit only well-formed operations (live ids, element counts)"""

    def __init__(self):
        self.nc = 0
        self.live = []      # live variable ids
        self.nv = 0
        self.nelem = {}     # var -> number of elements (capacity 64 in the harness)
        self.cn = {}        # var -> list of constraints it was expanded on

    def vnew(self):
        v = self.nv
        self.nv += 1
        self.live.append(v)
        self.nelem[v] = 0
        self.cn[v] = []
        return v


def gen_case(rng, idx, maxops, c17, cfg=CFG_BITS):
    prof = rng.choice(["tight", "tight", "chain", "chain", "mixed", "mixed", "force", "wrap" if c17 else "tight"])
    sel = 1 if c17 else rng.below(2)      # C17 quantifies over systems with selective update ON
    lines = ["new %d %s" % (sel, cfg)]
    t = Tracker()
    if prof == "tight":
        nc = rng.range(1, 3)
        limits = [rng.choice([1, 1, 2, 2, 3]) for _ in range(nc)]
    elif prof == "chain":
        nc = rng.range(4, 8)
        limits = [rng.choice([-1, -1, 2, 3, 4, 1]) for _ in range(nc)]
    elif prof == "wrap":
        nc = rng.range(2, 5)
        limits = [rng.choice([-1, -1, -1, 2]) for _ in range(nc)]
    else:
        nc = rng.range(2, 6)
        limits = [rng.choice([-1, 1, 2, 3, 4]) for _ in range(nc)]
    for i in range(nc):
        pol = rng.choice(["S", "S", "S", "F", "W" if not c17 else "S"])
        lines.append("cnew %d %d %s" % (rng.choice([4, 8, 20, 40, 40, 100, 400]), limits[i], pol))
        t.nc += 1
    nops = rng.range(max(5, maxops // 3), maxops)
    wrap_at = rng.range(3, max(4, nops // 2)) if prof == "wrap" else -1

    def add_activity():
        pen = 0 if rng.chance(1, 4) else rng.choice(PENS)
        v = t.vnew()
        lines.append("vnew %d %d" % (pen, rng.choice(BOUNDS)))
        if prof == "chain":
            a = rng.below(t.nc)
            route = [a, (a + 1) % t.nc] + ([(a + 2) % t.nc] if rng.chance(1, 3) else [])
        else:
            k = rng.choice([1, 1, 2, 2, 3]) if t.nc > 1 else 1
            route = []
            for _ in range(k):
                c = rng.below(t.nc)
                if c not in route:
                    route.append(c)
        if rng.chance(1, 12):
            route = []                      # a variable that uses no constraint
        for c in route:
            expand(v, c)

    def expand(v, c, force=0):
        if t.nelem[v] >= 60:
            return
        if force or c not in t.cn[v]:
            t.nelem[v] += 1
            t.cn[v].append(c)
        lines.append("expand %d %d %d %d" % (c, v, rng.choice(WEIGHTS), force))

    for i in range(nops):
        if i == wrap_at:
            lines.append("setctr %d" % rng.choice([U32 - 1, U32 - 2, U32 - 3, U32 - 1, 0]))
        r = rng.below(100)
        if not t.live or r < 24:
            add_activity()
        elif r < 32:
            v = rng.choice(t.live)
            force = 1 if (prof == "force" and rng.chance(1, 2)) else 0
            expand(v, rng.below(t.nc), force)
        elif r < 45:
            lines.append("vpen %d 0" % rng.choice(t.live))
        elif r < 60:
            lines.append("vpen %d %d" % (rng.choice(t.live), rng.choice(PENS)))
        elif r < 72:
            v = rng.choice(t.live)
            t.live.remove(v)
            lines.append("vfree %d" % v)
        elif r < 78:
            lines.append("vbound %d %d" % (rng.choice(t.live), rng.choice(BOUNDS)))
        elif r < 86:
            lines.append("cbound %d %d" % (rng.below(t.nc), rng.choice([4, 8, 20, 40, 100, 400])))
        elif r < 88 and t.nc < 10:
            lines.append("cnew %d %d %s" % (rng.choice([8, 40, 100]), rng.choice([-1, 1, 2]), "S"))
            t.nc += 1
        else:
            for _ in range(rng.choice([1, 1, 1, 2, 3])):
                lines.append("solve")
    lines.append("solve")
    return {"index": idx, "profile": prof, "lines": lines}


def read_corpus(path, cfg=CFG_BITS):
    cases, cur = [], None
    for l in open(path):
        l = l.strip()
        if not l or l.startswith("#"):
            continue
        if l.startswith("new "):
            p = l.split()
            l = "new %s %s" % (p[1], cfg)
            cur = {"index": -1 - len(cases), "profile": "corpus", "lines": [l]}
            cases.append(cur)
        elif cur is not None:
            cur["lines"].append(l)
    return cases


def canon(line):
    """hexfloat values of the X tokens -> exact rationals n/d (the Lean driver compares them on integers)"""
    if " X" not in line:
        return line
    out = []
    for tok in line.split(" "):
        if tok.startswith("X") and "|" in tok:
            i, a, b = tok[1:].split("|")
            fa, fb = Fraction(float.fromhex(a)), Fraction(float.fromhex(b))
            tok = "X%s|%d/%d|%d/%d" % (i, fa.numerator, fa.denominator, fb.numerator, fb.denominator)
        out.append(tok)
    return " ".join(out)


def run_cases(ctx, h, drv, cases, c17):
    """-> list of (case, [impl line], [verdict]) or None when the machinery failed"""
    lines = [l for c in cases for l in c["lines"]]
    rc, out, err = ctx.run_lines([h] + (["c17"] if c17 else []), lines, timeout=3000)
    if rc != 0 or len(out) != len(lines):
        ctx.broken.append({"kind": "harness-run", "rc": rc, "stderr": err[-2000:], "lines": len(out), "expected": len(lines)})
        return None
    out = [canon(l) for l in out]
    rc, verdicts, err = ctx.run_lines([drv], out, timeout=3000)
    if rc != 0 or not verdicts or verdicts[-1] != "END %d" % len(out):
        ctx.broken.append({"kind": "driver-run", "rc": rc, "stderr": err[-2000:], "last": verdicts[-1:] })
        return None
    res, k = [], 0
    for c in cases:
        n = len(c["lines"])
        res.append((c, out[k:k + n], verdicts[k:k + n]))
        k += n
    return res


def renumber_without_var(lines, k):
    """drop variable k (its vnew and every operation on it) and shift the ids above it"""
    out, seen = [], -1
    for l in lines:
        p = l.split()
        if p[0] == "vnew":
            seen += 1
            if seen == k:
                continue
            out.append(l)
            continue
        pos = {"expand": 2, "vfree": 1, "vbound": 1, "vpen": 1}.get(p[0])
        if pos is not None:
            v = int(p[pos])
            if v == k:
                continue
            if v > k:
                p[pos] = str(v - 1)
            l = " ".join(p)
        out.append(l)
    return out


def shrink(ctx, h, drv, case, c17, key):
    """greedy one-at-a-time shrinking of a failing case: the result still fails the monitor with the same key"""
    def fails(lines):
        r = run_cases(ctx, h, drv, [{"index": 0, "profile": "shrink", "lines": lines}], c17)
        if not r:
            return False
        return any(v.startswith("MONFAIL") and ("key=" + key) in v for v in r[0][2])

    lines = list(case["lines"])
    # cut after the first failing line
    r = run_cases(ctx, h, drv, [dict(case, lines=lines)], c17)
    if r:
        for i, v in enumerate(r[0][2]):
            if v.startswith("MONFAIL") and ("key=" + key) in v:
                lines = lines[:i + 1]
                break
    budget = 400
    changed = True
    while changed and budget > 0:
        changed = False
        nv = sum(1 for l in lines if l.startswith("vnew"))
        for k in range(nv - 1, -1, -1):
            cand = renumber_without_var(lines, k)
            budget -= 1
            if budget > 0 and len(cand) < len(lines) and fails(cand):
                lines, changed = cand, True
        i = len(lines) - 2
        while i >= 1 and budget > 0:
            if lines[i].split()[0] not in ("vnew", "cnew", "new"):
                cand = lines[:i] + lines[i + 1:]
                budget -= 1
                if fails(cand):
                    lines, changed = cand, True
            i -= 1
    return lines


KEY_RE = re.compile(r"key=(\S+)")


def judge_results(ctx, h, drv, results, c17, stats):
    """turn verdicts into ctx.violation / ctx.broken; fill coverage counters"""
    shrunk_keys = set()
    for case, out, verdicts in results:
        staged_seen, unstaged, f1, eff_solves, partial = set(), 0, False, 0, 0
        prev_staged = set()
        kinds = stats.setdefault("ops", {})
        for q, l, v in zip(case["lines"], out, verdicts):
            ctx.cov["evaluations"] += 1
            op = q.split()[0]
            kinds[op] = kinds.get(op, 0) + 1
            ans = l.split(" => ", 1)[1] if " => " in l else ""
            toks = ans.split(" ")
            if toks and toks[0] == "F1":
                f1 = True
            now_staged = set()
            for tk in toks:
                if tk.startswith("V") and not tk.startswith("VS") and not tk.endswith("|x"):
                    f = tk[1:].split("|")
                    if len(f) == 5 and int(f[2]) > 0:
                        now_staged.add(int(f[0]))
                        if int(f[1]) == 0:
                            pass
            for x in prev_staged - now_staged:
                # staged before, enabled now (penalty > 0): un-staged by this operation
                for tk in toks:
                    if tk.startswith("V%d|" % x) and not tk.endswith("|x") and int(tk.split("|")[1]) > 0:
                        unstaged += 1
                        stats["unstaged_by_" + op] = stats.get("unstaged_by_" + op, 0) + 1
            staged_seen |= now_staged
            prev_staged = now_staged
            if any(tk.startswith("X") for tk in toks):
                eff_solves += 1
            if op == "setctr":
                stats["wrap_cases"] = stats.get("wrap_cases", 0) + 1
            if v == "ok":
                ctx.cov["traces_validated_against_impl"] += 1
            elif v.startswith("MONFAIL"):
                m = KEY_RE.search(v)
                key = m.group(1) if m else None
                stats.setdefault("monfail_keys", {})
                stats["monfail_keys"][key] = stats["monfail_keys"].get(key, 0) + 1
                lines = case["lines"]
                if key not in shrunk_keys and len(shrunk_keys) < 4:
                    shrunk_keys.add(key)
                    lines = shrink(ctx, h, drv, case, c17, key or "")
                else:
                    lines = lines[:lines.index(q) + 1] if q in lines else lines
                ctx.violation(v, {"lines": lines, "index": case["index"], "profile": case["profile"], "impl": l[:600]}, key=key)
            else:
                ctx.broken.append({"kind": "model-vs-implementation", "case_index": case["index"], "line": q,
                                   "verdict": v[:1500], "case": case["lines"][:case["lines"].index(q) + 1] if q in case["lines"] else None})
        if f1:
            stats["cases_with_abort"] = stats.get("cases_with_abort", 0) + 1
        if staged_seen:
            stats["cases_with_staging"] = stats.get("cases_with_staging", 0) + 1
        if unstaged:
            stats["cases_with_unstaging"] = stats.get("cases_with_unstaging", 0) + 1
        stats["effective_solves"] = stats.get("effective_solves", 0) + eff_solves
        yield case, staged_seen, unstaged, eff_solves, out


def load_replay(path):
    return [{"index": 0, "profile": "replay", "lines": json.load(open(path))["case"]["lines"]}]
