"""Generator of S4U programs for props/_shared/sched/interp.cpp (C01, C02).

A program is a dict; `text(p)` serialises it.  Every random choice comes from the SplitMix instance passed in, so a
program replays from (seed, index).  Programs are assembled from *motifs*, each of which builds one of the situations
the properties' quantifier asks for and then makes the kernel's scheduling order OBSERVABLE (contention on a try_lock,
values received by a collector), because an order that nobody observes cannot show a difference:

  daemons_end   several daemons with on_exit callbacks alive when the last regular actor ends, created by different
                actors with churn of short-lived actors in between (allocation order != pid order)
  burst         many actors becoming runnable in the same sub-round (same wake-up date / released together), then contending
  samedate      execs, sleeps, ios and comms finishing at the same date on distinct but identical resources
  killall       kill_all while victims are blocked in all kinds of activities (never in a barrier, see NOTES)
  tree          actors created by other actors mid-run (2 levels), children joined / killed by their parent
  waitany       wait_any over several comms completing simultaneously; test / wait_all
  dying_owner   an actor ends / is killed / exits with several unfinished asynchronous activities whose peers are blocked
                on them (ActorImpl::activities_ cancellation order), peers then contend
  susp          suspend / resume of actors blocked in execs, sleeps, comms
  sync          mutex / condvar / semaphore / barrier protocols (barriers always reached by all their members)
  mess          message queues
  filler        random valid operations over shared objects (may deadlock: a deadlock report is an outcome like another)
"""

SPEEDS = [1048576, 2097152, 1048576, 4194304]
BWS = [1048576, 2097152, 524288]
LATS = [0.015625, 0.0, 0.0625]


class Prog:
    def __init__(self, rng):
        self.rng = rng
        self.hosts = []
        self.links = []
        self.actors = []      # dicts: host, flags, ops
        self.nmutex = 0
        self.sems = []
        self.ncv = 0
        self.bars = []
        self.nmb = 0
        self.nmq = 0
        self.motifs = []
        self.killall = False     # some actor may call kill_all
        self.barrier = False     # some actors wait on a barrier

    # ---- resources
    def mutex(self):
        self.nmutex += 1
        return self.nmutex - 1

    def sem(self, cap):
        self.sems.append(cap)
        return len(self.sems) - 1

    def cv(self):
        self.ncv += 1
        return self.ncv - 1

    def bar(self, n):
        self.barrier = True
        self.bars.append(n)
        return len(self.bars) - 1

    def mb(self):
        self.nmb += 1
        return self.nmb - 1

    def mq(self):
        self.nmq += 1
        return self.nmq - 1

    def host(self):
        return self.rng.below(len(self.hosts))

    def actor(self, ops, host=None, flags="m"):
        if "killall" in ops:
            self.killall = True
        self.actors.append({"host": self.host() if host is None else host, "flags": flags, "ops": list(ops)})
        return len(self.actors) - 1


def platform(p, rng, same=False):
    nh = rng.range(2, 5)
    sp = rng.choice(SPEEDS)
    p.hosts = [sp if (same or rng.chance(2, 3)) else rng.choice(SPEEDS) for _ in range(nh)]
    nl = rng.range(1, 4) if not same else nh
    bw, lat = rng.choice(BWS), rng.choice(LATS)
    p.links = [(bw, lat) if (same or rng.chance(2, 3)) else (rng.choice(BWS), rng.choice(LATS)) for _ in range(max(nl, 1))]


def routes(p):
    r = []
    nl = len(p.links)
    for i in range(len(p.hosts)):
        for j in range(i + 1, len(p.hosts)):
            path = [(i * 3 + j) % nl]
            if nl > 2 and (i + j) % 3 == 0:
                path.append((i * 3 + j + 1) % nl)
            r.append((i, j, path))
    return r


def text(p):
    out = ["# motifs: " + " ".join(p.motifs)]
    for s in p.hosts:
        out.append("host %d" % s)
    for bw, lat in p.links:
        out.append("link %d %r" % (bw, lat))
    for i, j, path in routes(p):
        out.append("route %d %d %s" % (i, j, ".".join(map(str, path))))
    if p.nmutex:
        out.append("mutex %d" % p.nmutex)
    if p.sems:
        out.append("sem " + " ".join(map(str, p.sems)))
    if p.ncv:
        out.append("cv %d" % p.ncv)
    if p.bars:
        out.append("bar " + " ".join(map(str, p.bars)))
    for i, a in enumerate(p.actors):
        out.append("actor %d %d %s %s" % (i, a["host"], a["flags"], ",".join(a["ops"]) if a["ops"] else "-"))
    return "\n".join(out) + "\n"


# --------------------------------------------------------------------------------------------------- observers
def contend(p, rng, m=None, q=None):
    """ops that make the order in which maestro handles this actor observable"""
    k = rng.below(3)
    if k == 0 and m is not None:
        return ["trylock.%d" % m]
    if k == 1 and q is not None:
        return ["mqput.%d" % q]
    return ["trylock.%d" % m] if m is not None else ["yield"]


def collector(p, rng, q, n):
    """receives up to n messages of queue q (with timeouts, so that it always terminates) and logs their order"""
    p.actor(["mqgetto.%d.%d" % (q, 1600)] * n)


# --------------------------------------------------------------------------------------------------- motifs
def m_daemons_end(p, rng):
    m = p.mutex()
    k = rng.range(2, 5)
    blockers = ["sleep.16000", "get.%d" % p.mb(), "acq.%d" % p.sem(0), "exec.1e15", "mqget.%d" % p.mq()]
    # two creator actors interleave the creation of daemons with short-lived actors (churn of ActorImpl allocations)
    creators = [[], []]
    for d in range(k):
        flags = "dx" if rng.chance(3, 4) else "dxt%d" % m
        ops = [rng.choice(blockers)] if rng.chance(4, 5) else ["sleep.%d" % rng.range(1, 8), rng.choice(blockers)]
        if rng.chance(1, 3):
            p.actor(ops, flags="m" + flags)
        else:
            c = rng.below(2)
            d_idx = p.actor(ops, flags="c" + flags)
            for _ in range(rng.below(3)):
                t = p.actor(["sleep.%d" % rng.range(0, 3)] if rng.chance(1, 2) else [], flags="c")
                creators[c] += ["create.%d" % t, "sleep.%d" % rng.range(0, 2)]
            creators[c] += ["create.%d" % d_idx]
            if rng.chance(1, 2):
                creators[c] += ["sleep.%d" % rng.range(0, 2)]
    for c in creators:
        if c:
            p.actor(c + ["sleep.%d" % rng.range(1, 16)])
    p.actor(["sleep.%d" % rng.range(4, 24)])      # a regular actor that ends last or so


def m_burst(p, rng):
    m, q = p.mutex(), p.mq()
    n = rng.range(3, 8)
    kind = rng.below(5)
    t = rng.range(1, 8)
    if kind == 0:      # same wake-up date
        for _ in range(n):
            p.actor(["sleep.%d" % t] + contend(p, rng, m, q))
    elif kind == 1:    # semaphore released n times in one slice
        s = p.sem(0)
        for _ in range(n):
            p.actor(["acq.%d" % s] + contend(p, rng, m, q))
        p.actor(["sleep.%d" % t] + ["rel.%d" % s] * n)
    elif kind == 2:    # condition variable, notify_all
        c, mm = p.cv(), p.mutex()
        for _ in range(n):
            p.actor(["lock.%d" % mm, "cvwait.%d.%d" % (c, mm), "unlock.%d" % mm] + contend(p, rng, m, q))
        p.actor(["sleep.%d" % t, "cvall.%d" % c])
    elif kind == 3:    # barrier reached by all
        b = p.bar(n)
        for i in range(n):
            p.actor(["sleep.%d" % (t if i else t + 1), "bar.%d" % b] + contend(p, rng, m, q))
    else:              # all joiners of one actor
        v = p.actor(["sleep.%d" % t])
        for _ in range(n):
            p.actor(["join.%d" % v] + contend(p, rng, m, q))
    collector(p, rng, q, n)


def m_samedate(p, rng):
    m, q = p.mutex(), p.mq()
    n = rng.range(2, 6)
    fl = rng.choice([1048576, 2097152, 524288])
    sz = rng.choice([65536, 1048576, 4096])
    h0 = p.host()
    for i in range(n):
        k = rng.below(5)
        if k == 0:
            ops = ["exec.%d" % fl]
        elif k == 1:
            ops = ["sleep.%d" % 16]
        elif k == 2:
            ops = ["io.%d.%d.%s" % (h0 if rng.chance(1, 2) else p.host(), sz, rng.choice("rw"))]
        elif k == 3:
            b = p.mb()
            p.actor(["get.%d" % b] + contend(p, rng, m, q))
            ops = ["put.%d.%d" % (b, sz)]
        else:
            ops = ["iexec.%d.0" % fl, "sleep.%d" % rng.range(0, 3), "wait.0"]
        p.actor(ops + contend(p, rng, m, q), host=h0 if rng.chance(1, 3) else None)
    collector(p, rng, q, n)


BLOCKED = ["sleep.800", "exec.1e12", "get.%(mb)d", "put.%(mb)d.1024", "lock.%(lk)d", "acq.%(s0)d", "mqget.%(mq)d",
           "io.0.1000000000.w", "join.%(kl)d", "selfsusp", "lock.%(m2)d,cvwait.%(cv)d.%(m2)d",
           "iget.%(mb)d.0,iexec.1e12.1,wany", "getto.%(mb)d.1600", "acqto.%(s0)d.1600"]


def m_killall(p, rng):
    lk = p.mutex()
    holder_first = rng.chance(1, 2)
    n = rng.range(2, 7)
    killer = len(p.actors)
    ids = {"lk": lk, "s0": p.sem(0), "cv": p.cv(), "kl": killer}
    kops = ["lock.%d" % lk] if holder_first else []
    kops += ["sleep.%d" % rng.range(1, 12), "killall", "sleep.1"] + (["unlock.%d" % lk] if holder_first and rng.chance(1, 2) else [])
    p.actor(kops)
    for _ in range(n):
        ids.update(mb=p.mb(), mq=p.mq(), m2=p.mutex())
        pre = ["sleep.%d" % rng.range(0, 3)] if rng.chance(1, 2) else []
        b = rng.choice(BLOCKED) % ids
        if b.startswith("lock.%d" % lk) and not holder_first:
            b = "sleep.800"
        p.actor(pre + b.split(",") + ["sleep.1"], flags="mx" if rng.chance(2, 3) else "m")


def m_tree(p, rng):
    m, q = p.mutex(), p.mq()
    nc = rng.range(2, 4)
    pops = ["sleep.%d" % rng.range(0, 4)]
    total = 0
    kids = []
    for _ in range(nc):
        gops = []
        gk = []
        for _ in range(rng.below(3)):
            g = p.actor(["sleep.%d" % rng.range(0, 3)] + contend(p, rng, m, q), flags="cx" if rng.chance(1, 2) else "c")
            gk.append(g)
            total += 1
        cops = ["exec.%d" % rng.choice([262144, 1048576])] if rng.chance(1, 2) else ["sleep.%d" % rng.range(0, 3)]
        for g in gk:
            cops.append("create.%d" % g)
        for g in gk:
            r = rng.below(4)
            cops.append(["join.%d" % g, "kill.%d" % g, "jointo.%d.%d" % (g, rng.range(0, 4)), "yield"][r])
        cops += contend(p, rng, m, q)
        c = p.actor(cops, flags="cx" if rng.chance(1, 2) else "c")
        kids.append(c)
        total += 1
        pops.append("create.%d" % c)
        if rng.chance(1, 3):
            pops.append("sleep.%d" % rng.range(0, 2))
    for c in kids:
        r = rng.below(5)
        pops.append(["join.%d" % c, "kill.%d" % c, "jointo.%d.%d" % (c, rng.range(0, 6)), "susp.%d" % c, "setkill.%d.%d" % (c, rng.range(0, 5))][r])
        if r == 3:
            pops += ["sleep.%d" % rng.range(0, 3), "resu.%d" % c]
    p.actor(pops + contend(p, rng, m, q))
    collector(p, rng, q, total + 1)


def m_waitany(p, rng):
    k = rng.range(2, 5)
    sz = rng.choice([65536, 1048576, 1024])
    t = rng.range(0, 4)
    mbs = [p.mb() for _ in range(k)]
    recv = ["iget.%d.%d" % (b, i) for i, b in enumerate(mbs)]
    r = rng.below(4)
    if r == 0:
        recv += ["wany"] * k
    elif r == 1:
        recv += ["wany", "test.%d" % rng.below(k), "wall"]
    elif r == 2:
        recv += ["wanyto.%d" % rng.range(0, 40)] * k
    else:
        recv += ["sleep.%d" % (t + rng.range(0, 3))] + ["test.%d" % i for i in range(k)] + ["wall"]
    rh = p.host()
    p.actor(recv, host=rh)
    for b in mbs:
        p.actor(["sleep.%d" % t, "put.%d.%d" % (b, sz)])


def m_dying_owner(p, rng):
    m, q = p.mutex(), p.mq()
    k = rng.range(2, 4)
    big = 10485760
    oops = []
    owner = len(p.actors)
    peers = []
    for s in range(k):
        b = p.mb()
        kind = rng.below(4)
        if kind <= 1:
            oops.append("iput.%d.%d.%d" % (b, big, s))
            peers.append(["get.%d" % b])
        elif kind == 2:
            oops.append("iget.%d.%d" % (b, s))
            peers.append(["put.%d.%d" % (b, big)])
        else:
            oops.append("iput.%d.%d.%d" % (b, big, s))
            peers.append(["iget.%d.0" % b, "wait.0"])
    end = rng.below(4)
    oops += ["sleep.%d" % rng.range(1, 6)]
    if end == 1:
        oops.append("exit")
    elif end == 2:
        oops.append("sleep.800")
    p.actor(oops, flags="mx" if rng.chance(1, 2) else "m")
    for ops in peers:
        p.actor(ops + contend(p, rng, m, q))
    if end == 2:
        p.actor(["sleep.%d" % rng.range(2, 8), "kill.%d" % owner])
    elif end == 3:
        p.actor(["sleep.%d" % rng.range(2, 8), "killall"])
    collector(p, rng, q, k)


def m_susp(p, rng):
    b = p.mb()
    w = p.actor([rng.choice(["exec.4194304", "sleep.32", "get.%d" % b, "io.0.2097152.r"]), "sleep.1", "exec.1048576"])
    if p.actors[w]["ops"][0].startswith("get"):
        p.actor(["sleep.%d" % rng.range(0, 8), "put.%d.1048576" % b])
    ops = []
    for _ in range(rng.range(1, 3)):
        ops += ["sleep.%d" % rng.range(0, 12), "susp.%d" % w, "sleep.%d" % rng.range(0, 12), "resu.%d" % w]
    p.actor(ops)


def m_sync(p, rng):
    k = rng.below(4)
    n = rng.range(2, 5)
    if k == 0:       # lock contention, FIFO hand-off
        m = p.mutex()
        for _ in range(n):
            p.actor(["sleep.%d" % rng.range(0, 2), "lock.%d" % m, "sleep.%d" % rng.range(0, 3), "unlock.%d" % m])
    elif k == 1:     # producer / consumers with a condition variable and timeouts
        c, m = p.cv(), p.mutex()
        for _ in range(n):
            p.actor(["lock.%d" % m, "cvwaitto.%d.%d.%d" % (c, m, rng.range(0, 24)), "unlock.%d" % m])
        p.actor(["sleep.%d" % rng.range(0, 12)] + ["cvsig.%d" % c] * rng.range(1, n) + ["sleep.2", "cvall.%d" % c])
    elif k == 2:     # semaphore with timeouts
        s = p.sem(rng.range(0, 2))
        for _ in range(n):
            p.actor(["sleep.%d" % rng.range(0, 2), "acqto.%d.%d" % (s, rng.range(0, 16)), "sleep.%d" % rng.range(0, 4), "rel.%d" % s])
    else:            # two barrier phases
        b = p.bar(n)
        for _ in range(n):
            p.actor(["sleep.%d" % rng.range(0, 4), "bar.%d" % b, "exec.%d" % rng.choice([262144, 524288]), "bar.%d" % b])


def m_mess(p, rng):
    q = p.mq()
    n = rng.range(2, 5)
    for _ in range(n):
        p.actor(["sleep.%d" % rng.range(0, 2), rng.choice(["mqput.%d" % q, "imqput.%d.0,wait.0" % q])])
    p.actor(["mqgetto.%d.%d" % (q, rng.range(1, 64))] * n + ["imqget.%d.0" % q, "waitto.0.%d" % rng.range(0, 8)])


def m_filler(p, rng):
    m, s, q, b = p.mutex(), p.sem(1), p.mq(), p.mb()
    pool = ["exec.%d" % rng.choice([262144, 1048576]), "sleep.%d" % rng.range(0, 6), "yield", "lock.%d" % m, "unlock.%d" % m,
            "trylock.%d" % m, "acqto.%d.%d" % (s, rng.range(0, 8)), "rel.%d" % s, "mqput.%d" % q, "mqgetto.%d.%d" % (q, rng.range(0, 8)),
            "putto.%d.2048.%d" % (b, rng.range(0, 8)), "getto.%d.%d" % (b, rng.range(0, 8)), "dput.%d.512" % b,
            "io.0.65536.r", "iexec.524288.%d" % rng.below(2), "wany", "test.0", "wall", "iio.0.65536.w.%d" % rng.below(2), "onexit"]
    for _ in range(rng.range(2, 4)):
        p.actor([rng.choice(pool) for _ in range(rng.range(2, 10))])


MOTIFS = [("daemons_end", m_daemons_end, 4), ("burst", m_burst, 3), ("samedate", m_samedate, 3), ("killall", m_killall, 2),
          ("tree", m_tree, 3), ("waitany", m_waitany, 2), ("dying_owner", m_dying_owner, 3), ("susp", m_susp, 1),
          ("sync", m_sync, 2), ("mess", m_mess, 1), ("filler", m_filler, 2)]


def generate(rng, force=None):
    """one program; `force` = name of a motif that must be present"""
    total = sum(w for _, _, w in MOTIFS)
    while True:
        p = Prog(rng)
        platform(p, rng, same=rng.chance(1, 2))
        chosen = []
        if force:
            chosen.append([x for x in MOTIFS if x[0] == force][0])
        for _ in range(rng.range(1, 3) - (1 if force else 0)):
            r = rng.below(total)
            for mo in MOTIFS:
                r -= mo[2]
                if r < 0:
                    chosen.append(mo)
                    break
        for name, fn, _ in chosen:
            p.motifs.append(name)
            fn(p, rng)
        # kill_all (and the kills that follow a deadlock report) must not catch an actor blocked in a barrier: the
        # library dereferences a null issuer in BarrierAcquisitionImpl::finish (see NOTES, outside C01/C02): draw again
        if p.killall and p.barrier:
            continue
        if len(p.actors) > 60 or any(len(a["ops"]) > 60 for a in p.actors):
            continue
        return p
