"""Shared by props/C01 and props/C02: running the interpreter under a layout / configuration, comparing logs."""
import hashlib
import os
import re
import subprocess
from concurrent.futures import ThreadPoolExecutor

HERE = os.path.dirname(os.path.abspath(__file__))
BASE_ARGS = ["--log=root.thres:critical", "--cfg=debug/stacktrace:none"]


def build_interp(ctx):
    return ctx.build_harness(os.path.join(HERE, "interp.cpp"), name="sched_interp")


def cc_cached(ctx, src, out, cmd):
    """compile `src` into `out` with `cmd` (list, out/src appended by caller) unless unchanged"""
    key = hashlib.sha1((open(src).read() + " ".join(cmd)).encode()).hexdigest()
    stamp = out + ".stamp"
    if os.path.exists(out) and os.path.exists(stamp) and open(stamp).read() == key:
        return out
    p = subprocess.run(cmd, capture_output=True, text=True)
    if p.returncode != 0:
        ctx.broken.append({"kind": "tool-build", "src": src, "error": p.stderr[-2000:]})
        return None
    open(stamp, "w").write(key)
    return out


def write_prog(ctx, name, text):
    d = os.path.join(ctx.work, "progs")
    os.makedirs(d, exist_ok=True)
    path = os.path.join(d, name + ".prog")
    with open(path, "w") as fh:
        fh.write(text)
    return path


def run_interp(ctx, interp, progfile, prefix=(), env=None, args=(), timeout=120):
    """-> (outcome string, stdout).  outcome: 'ok' | 'rc=<n>' | 'sig=<n>' | 'HANG'"""
    e = dict(os.environ)
    e.update(ctx.sg_env())
    if env:
        e.update(env)
    cmd = list(prefix) + [interp, progfile] + BASE_ARGS + list(args)
    try:
        p = subprocess.run(cmd, capture_output=True, text=True, timeout=timeout, env=e, errors="replace")
    except subprocess.TimeoutExpired:
        return "HANG", ""
    if p.returncode == 0:
        return "ok", p.stdout
    if p.returncode < 0:
        return "sig=%d" % -p.returncode, p.stdout
    if p.returncode == 127 or "error while loading shared libraries" in p.stderr:
        return "LOADERR", p.stderr[-300:]     # the shared build is being relinked by somebody else: the caller retries
    return "rc=%d" % p.returncode, p.stdout


def run_retry(ctx, interp, progfile, **kw):
    import time
    for attempt in range(40):
        o, out = run_interp(ctx, interp, progfile, **kw)
        if o != "LOADERR":
            return o, out
        time.sleep(15)
    return o, out


def pmap(fn, items, workers=4):
    with ThreadPoolExecutor(max_workers=workers) as ex:
        return list(ex.map(fn, items))


def strip(out, drop=("R",)):
    return "\n".join(l for l in out.split("\n") if l[:1] not in drop or l[1:2] != " ")


def per_actor(out):
    """canonical forms: per-actor logs, maestro log, and the (clock, actor)-sorted merge"""
    acts = {}
    for l in out.split("\n"):
        if l.startswith("A "):
            _, idx, clock, rest = l.split(" ", 3)
            acts.setdefault(int(idx), []).append((float.fromhex(clock), rest))
        elif l.startswith("M "):
            _, clock, rest = l.split(" ", 2)
            acts.setdefault(-1, []).append((float.fromhex(clock), rest))
    merge = sorted((c, i, k, t) for i, evs in acts.items() for k, (c, t) in enumerate(evs))
    return acts, merge


def first_diff(a, b):
    la, lb = a.split("\n"), b.split("\n")
    for i, (x, y) in enumerate(zip(la, lb)):
        if x != y:
            return i, x, y
    if len(la) != len(lb):
        i = min(len(la), len(lb))
        return i, (la[i] if i < len(la) else "<end>"), (lb[i] if i < len(lb) else "<end>")
    return None


def simultaneity(out):
    """measured non-triviality of one run: number of dates at which >= 2 different actors logged an event, and number of
    actors"""
    dates = {}
    actors = set()
    for l in out.split("\n"):
        if l.startswith("A "):
            _, idx, clock, _ = l.split(" ", 3)
            dates.setdefault(clock, set()).add(idx)
            actors.add(idx)
    return sum(1 for s in dates.values() if len(s) >= 2), len(actors)


def pending_at_death(out):
    """{actor idx: (clock of its termination signal, number of asynchronous activities posted and not completed)} — the
    witness class of the ActorImpl::activities_ cancellation-order defect needs >= 2"""
    pend, death = {}, {}
    for l in out.split("\n"):
        if l.startswith("M "):
            m = re.match(r"M (\S+) sig termination a(\d+)$", l)
            if m:
                death[m.group(2)] = m.group(1)
            continue
        if not l.startswith("A "):
            continue
        _, idx, clock, rest = l.split(" ", 3)
        if rest.endswith(" posted"):
            pend[idx] = pend.get(idx, 0) + 1
        elif re.search(r" (wait|waitto|test) done ", rest) or re.search(r" (wany|wanyto) slot=\d", rest):
            pend[idx] = pend.get(idx, 0) - 1
        elif re.search(r" wall all n=(\d+)", rest):
            pend[idx] = 0
    return {i: (death.get(i), n) for i, n in pend.items()}


def glines(out):
    return "\n".join(l for l in out.split("\n") if l.startswith("G "))


def classify(a, b, program=""):
    """classification key of a difference between two logs (None = unclassified).
    `mess-finish-stale-dst-write`: the program uses the library's blocking MessageQueue::get<T>() (op mqgetraw) and the
    two logs are equal up to pointer-sized garbage numbers (a clobbered stack variable of the receiver).
    `activities-cancel-order`: some actor died holding >= 2 unfinished asynchronous activities, and the global logs
    diverge at the very date of that death (its activities are cancelled in the order of ActorImpl::activities_, a
    std::set ordered by address, which decides the order in which the peers blocked on them are woken)."""
    ga, gb = glines(a), glines(b)
    d = first_diff(ga, gb) if (ga and gb) else first_diff(a, b)
    if d is None:
        return None
    _, x, y = d
    if "mqgetraw" in program and re.sub(r"\d{9,}", "N", x) == re.sub(r"\d{9,}", "N", y):
        return "mess-finish-stale-dst-write"
    clocks = set()
    for l in (x, y):
        f = l.split(" ")
        if len(f) > 2 and f[0] == "A":
            clocks.add(f[2])
        elif len(f) > 1 and f[0] in ("M", "G"):
            clocks.add(f[1])
    for out in (a, b):
        for idx, (clock, n) in pending_at_death(out).items():
            if n >= 2 and clock in clocks:
                return "activities-cancel-order"
    # `parallel-cleanup-cancel-order` (C02): >= 2 actors died at the date of the divergence, each holding an unfinished
    # asynchronous activity: cleanup_from_self cancels them in the dying actors' own contexts, so with worker threads
    # the order between the actors is decided by the threads
    for out in (a, b):
        dying = [clock for idx, (clock, n) in pending_at_death(out).items() if n >= 1 and clock in clocks]
        if len(dying) >= 2:
            return "parallel-cleanup-cancel-order"
    return None


def suspended_creator(program):
    """witness class of `create-uaf-suspended-creator`: some actor that creates actors is the target of a suspend"""
    ops, susp = {}, set()
    for l in program.split("\n"):
        f = l.split()
        if len(f) >= 5 and f[0] == "actor":
            ops[f[1]] = f[4].split(",")
            for o in ops[f[1]]:
                if o.startswith("susp."):
                    susp.add(o.split(".")[1])
    return any(any(o.startswith("create.") for o in ops.get(t, [])) for t in susp)


def classify_outcomes(o1, o2, program):
    """key for a difference of OUTCOME (one layout crashes, the other does not)"""
    crash = [o for o in (o1, o2) if o in ("sig=11", "sig=6")]
    if crash and suspended_creator(program):
        return "create-uaf-suspended-creator"
    return None


def load_corpus(pdir):
    """corpus.txt: programs separated by lines `=== <name>`"""
    progs, name, cur = [], None, []
    path = os.path.join(pdir, "corpus.txt")
    if not os.path.exists(path):
        return progs
    for l in open(path):
        if l.startswith("=== "):
            if name:
                progs.append((name, "".join(cur)))
            name, cur = l[4:].strip(), []
        elif name:
            cur.append(l)
    if name:
        progs.append((name, "".join(cur)))
    return progs
