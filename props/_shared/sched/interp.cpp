// s4u_interp — interpreter of generated S4U programs, shared by C01 (layout independence) and C02 (context factory /
// worker-thread independence).  It runs the REAL library only; the observation log it prints IS the thing compared
// (implementation vs implementation under another layout / configuration).
//
// usage: interp <program file> [--addr-rank] [simgrid --cfg/--log options]
//
// program file (one item per line, '#' comments):
//   host <speed>                               host h<k> (k = order of appearance) with one disk d<k>
//   disk <host> <read_bw> <write_bw>           (optional; default 1048576 / 524288)
//   link <bandwidth> <latency>                 link l<k>
//   route <i> <j> <l>[.<l>]*                   symmetric route between h<i> and h<j>
//   mutex <n> | sem <cap>... | cv <n> | bar <expected>...      synchronisation objects, created by main before the run
//   actor <idx> <host> <flags> <ops>           flags: m = created by main (in file order), c = created by a `create.<idx>` op;
//                                              d = daemonize first; x = on_exit logger; xt<M> = on_exit logger that also try_locks mutex M
//                                              ops: comma separated, '-' for none
// ops (durations/timeouts in 1/16 s; S = slot in the actor's private table of pending activities):
//   exec.F sleep.N yield
//   put.MB.BYTES get.MB putto.MB.BYTES.T getto.MB.T iput.MB.BYTES.S iget.MB.S dput.MB.BYTES
//   mqput.Q mqget.Q mqgetto.Q.T imqput.Q.S imqget.Q.S mqgetraw.Q
//   io.H.BYTES.r|w iio.H.BYTES.r|w.S iexec.F.S
//   wait.S waitto.S.T test.S wany wanyto.T wall
//   lock.M unlock.M trylock.M acq.S rel.S acqto.S.T cvwait.C.M cvwaitto.C.M.T cvsig.C cvall.C bar.B
//   create.IDX kill.IDX join.IDX jointo.IDX.T susp.IDX resu.IDX killall selfsusp exit daemon onexit setkill.IDX.T
//   Targets (IDX) must be main-created actors or children of the acting actor: the handle table is then only read
//   while actors run (no unsynchronised shared memory, as the property requires).  Invalid uses (unlock of a mutex not
//   held, wait on an empty slot, target not created yet...) are logged as `skip` instead of reaching an assertion.
//
// output (stdout), printed after Engine::run returned:
//   A <idx> <clock %a> <event> <values>      per-actor logs (each actor appends to its own vector only)
//   M <clock %a> <event> <values>            maestro's log (signals fired in kernel context: creations, time advances)
//   G <clock %a> a<idx>|M <event> <values>   global order of all lines; printed only with contexts/nthreads:1 where it is
//                                            defined (with worker threads the order inside a sub-round is a legitimate race)
//   R <pid ranks>                            only with --addr-rank: rank of each daemon's ActorImpl address, in pid order
//                                            (diagnostic for the heap shim; never compared as an observation)
//   END <clock %a>
#include <simgrid/Exception.hpp>
#include <simgrid/s4u.hpp>
#include <xbt/config.hpp>
#include "src/kernel/actor/ActorImpl.hpp"

#include <atomic>
#include <cstdio>
#include <cstring>
#include <fstream>
#include <iostream>
#include <map>
#include <sstream>
#include <string>
#include <sys/resource.h>
#include <unistd.h>
#include <vector>

namespace sg4 = simgrid::s4u;

static std::vector<std::string> split(const std::string& s, char c)
{
  std::vector<std::string> r;
  std::string cur;
  for (char ch : s) {
    if (ch == c) {
      r.push_back(cur);
      cur.clear();
    } else
      cur += ch;
  }
  r.push_back(cur);
  return r;
}

struct ActorSpec {
  int idx;
  int host;
  bool by_main = true, daemon = false, onexit = false;
  int exit_trylock = -1;
  int parent       = -1; // who may create it (informative)
  std::vector<std::vector<std::string>> ops;
};

struct Entry {
  unsigned long seq;
  double clock;
  std::string text;
};

static std::vector<ActorSpec> g_specs;                 // read-only once the simulation runs
static std::vector<std::vector<Entry>> g_logs;         // [idx] written by actor idx only; [n] = maestro
static std::atomic<unsigned long> g_seq{0};
static std::vector<sg4::Host*> g_hosts;
static std::vector<sg4::Disk*> g_disks;
static std::vector<sg4::MutexPtr> g_mutex;
static std::vector<sg4::SemaphorePtr> g_sem;
static std::vector<sg4::ConditionVariablePtr> g_cv;
static std::vector<sg4::BarrierPtr> g_bar;
static std::vector<sg4::ActorPtr> g_main_actors; // [idx] for main-created actors; filled before Engine::run, then read-only
static std::vector<long> g_daemon_pids;          // --addr-rank only (appended by daemons; serial runs only)
static std::vector<const void*> g_daemon_addr;
static bool g_addr_rank = false;

static int whoami()
{
  if (sg4::Actor::is_maestro())
    return (int)g_specs.size();
  const char* n = sg4::Actor::self()->get_cname();
  return n[0] == 'a' ? atoi(n + 1) : (int)g_specs.size();
}

static void logto(int who, const std::string& text)
{
  g_logs[who].push_back({g_seq.fetch_add(1), sg4::Engine::get_clock(), text});
}
static void logme(const std::string& text)
{
  logto(whoami(), text);
}

static const char* exkind(const simgrid::Exception& e)
{
  if (dynamic_cast<const simgrid::TimeoutException*>(&e))
    return "timeout";
  if (dynamic_cast<const simgrid::NetworkFailureException*>(&e))
    return "net";
  if (dynamic_cast<const simgrid::HostFailureException*>(&e))
    return "host";
  if (dynamic_cast<const simgrid::CancelException*>(&e))
    return "cancel";
  if (dynamic_cast<const simgrid::StorageFailureException*>(&e))
    return "storage";
  return "other";
}

static void run_actor(int idx);

static sg4::ActorPtr spawn(int idx)
{
  const ActorSpec& sp = g_specs[idx];
  return g_hosts[sp.host]->add_actor("a" + std::to_string(idx), [idx]() { run_actor(idx); });
}

static void register_on_exit(int idx, int trylock)
{
  sg4::this_actor::on_exit([idx, trylock](bool failed) {
    logto(idx, std::string("exit ") + (failed ? "1" : "0"));
    if (trylock >= 0 && not failed) {
      // a simcall issued from the on_exit callback of an actor that ends normally (a killed actor's simcalls are never
      // answered): answered in actors_that_ran_ order, so the scheduling order shows in the per-actor logs
      bool got = g_mutex[trylock]->try_lock();
      logto(idx, got ? "exit-trylock got" : "exit-trylock busy");
    }
  });
}

static void run_actor(int idx)
{
  const ActorSpec& sp = g_specs[idx];
  std::map<int, sg4::ActorPtr> children;
  std::map<int, sg4::ActivityPtr> slots;
  std::map<int, std::pair<int*, bool>> slot_payload; // slot -> (receive buffer, is a receive)
  std::map<int, bool> held; // mutexes this actor holds
  static int payload_store[1 << 16];

  logto(idx, "start pid=" + std::to_string(sg4::this_actor::get_pid()) + " ppid=" + std::to_string(sg4::this_actor::get_ppid()) +
                 " host=" + sg4::this_actor::get_host()->get_name());
  if (sp.daemon) {
    sg4::Actor::self()->daemonize();
    if (g_addr_rank) {
      g_daemon_pids.push_back(sg4::this_actor::get_pid());
      g_daemon_addr.push_back(sg4::Actor::self()->get_impl());
    }
  }
  if (sp.onexit)
    register_on_exit(idx, sp.exit_trylock);

  auto target = [&](int t) -> sg4::ActorPtr {
    if (t < 0 || t >= (int)g_specs.size())
      return nullptr;
    if (g_specs[t].by_main)
      return g_main_actors[t];
    auto it = children.find(t);
    return it == children.end() ? nullptr : it->second;
  };
  auto T = [](const std::string& s) { return atoi(s.c_str()) / 16.0; };

  for (size_t k = 0; k < sp.ops.size(); k++) {
    const auto& op      = sp.ops[k];
    const std::string o = op[0];
    std::string res;
    auto I = [&](int i) { return atoi(op.at(i).c_str()); };
    try {
      if (o == "exec") {
        sg4::this_actor::execute(atof(op.at(1).c_str()));
        res = "ok";
      } else if (o == "sleep") {
        sg4::this_actor::sleep_for(T(op.at(1)));
        res = "ok";
      } else if (o == "yield") {
        sg4::this_actor::yield();
        res = "ok";
      } else if (o == "put" || o == "putto" || o == "iput" || o == "dput") {
        int* p = &payload_store[(idx * 64 + k) % (1 << 16)];
        *p     = idx * 1000 + (int)k; // only this actor writes this cell (idx < 1024, k < 64 by construction)
        auto mb = sg4::Mailbox::by_name("mb" + op.at(1));
        if (o == "put") {
          mb->put(p, I(2));
          res = "ok";
        } else if (o == "putto") {
          mb->put(p, I(2), T(op.at(3)));
          res = "ok";
        } else if (o == "iput") {
          slots[I(3)] = mb->put_async(p, I(2));
          res         = "posted";
        } else {
          mb->put_init(p, I(2))->detach();
          res = "detached";
        }
      } else if (o == "get" || o == "getto") {
        auto mb = sg4::Mailbox::by_name("mb" + op.at(1));
        int* v  = o == "get" ? mb->get<int>() : mb->get<int>(T(op.at(2)));
        res     = "val=" + std::to_string(*v);
      } else if (o == "iget") {
        auto mb = sg4::Mailbox::by_name("mb" + op.at(1));
        auto* cell = new int*(nullptr);
        slots[I(2)]        = mb->get_async<int>(cell);
        slot_payload[I(2)] = {reinterpret_cast<int*>(cell), true};
        res                = "posted";
      } else if (o == "mqput") {
        int* p = &payload_store[(idx * 64 + k) % (1 << 16)];
        *p     = idx * 1000 + (int)k;
        sg4::MessageQueue::by_name("mq" + op.at(1))->put(p);
        res = "ok";
      } else if (o == "mqget" || o == "mqgetto") {
        // NOT MessageQueue::get<T>(): its receive buffer is a local variable of the template, and MessImpl::finish()
        // writes the payload pointer into it AGAIN when the sender later waits on the same mess — by then the frame is
        // gone and the write clobbers whatever lives there (see NOTES, finding mess-finish-stale-dst-write).  The cell
        // used here lives as long as the process.
        auto q      = sg4::MessageQueue::by_name("mq" + op.at(1));
        auto* cell  = new int*(nullptr);
        auto mess   = q->get_async<int>(cell);
        if (o == "mqget")
          mess->wait();
        else
          mess->wait_for(T(op.at(2)));
        res = *cell ? "val=" + std::to_string(**cell) : "val=none";
      } else if (o == "mqgetraw") {
        // the library's own blocking receive (only used by the corpus witness of the finding above)
        int* v = sg4::MessageQueue::by_name("mq" + op.at(1))->get<int>();
        res    = "val=" + std::to_string(*v);
      } else if (o == "imqput") {
        int* p = &payload_store[(idx * 64 + k) % (1 << 16)];
        *p     = idx * 1000 + (int)k;
        slots[I(2)] = sg4::MessageQueue::by_name("mq" + op.at(1))->put_async(p);
        res         = "posted";
      } else if (o == "imqget") {
        auto* cell         = new int*(nullptr);
        slots[I(2)]        = sg4::MessageQueue::by_name("mq" + op.at(1))->get_async<int>(cell);
        slot_payload[I(2)] = {reinterpret_cast<int*>(cell), true};
        res                = "posted";
      } else if (o == "io" || o == "iio") {
        auto* d   = g_disks.at(I(1));
        auto type = op.at(3) == "r" ? sg4::Io::OpType::READ : sg4::Io::OpType::WRITE;
        if (o == "io") {
          sg_size_t n = type == sg4::Io::OpType::READ ? d->read(I(2)) : d->write(I(2));
          res         = "n=" + std::to_string(n);
        } else {
          slots[I(4)] = d->io_init(I(2), type)->start();
          res         = "posted";
        }
      } else if (o == "iexec") {
        slots[I(2)] = sg4::this_actor::exec_async(atof(op.at(1).c_str()));
        res         = "posted";
      } else if (o == "wait" || o == "waitto" || o == "test") {
        auto it = slots.find(I(1));
        if (it == slots.end())
          res = "skip";
        else {
          bool done = true;
          if (o == "wait")
            it->second->wait();
          else if (o == "waitto")
            it->second->wait_for(T(op.at(2)));
          else
            done = it->second->test();
          if (done) {
            res = std::string("done state=") + it->second->get_state_str();
            auto pl = slot_payload.find(I(1));
            if (pl != slot_payload.end()) {
              int* v = *reinterpret_cast<int**>(pl->second.first);
              res += v ? " val=" + std::to_string(*v) : " val=none";
              slot_payload.erase(pl);
            }
            slots.erase(it);
          } else
            res = "pending";
        }
      } else if (o == "wany" || o == "wanyto" || o == "wall") {
        if (slots.empty())
          res = "skip";
        else {
          sg4::ActivitySet set;
          for (auto const& [s, a] : slots)
            set.push(a);
          if (o == "wall") {
            set.wait_all();
            res = "all n=" + std::to_string(slots.size());
            for (auto const& [s, cellp] : slot_payload) {
              int* v = *reinterpret_cast<int**>(cellp.first);
              res += " " + std::to_string(s) + ":" + (v ? std::to_string(*v) : "none");
            }
            slots.clear();
            slot_payload.clear();
          } else {
            sg4::ActivityPtr a = o == "wany" ? set.wait_any() : set.wait_any_for(T(op.at(1)));
            int which          = -1;
            for (auto const& [s, b] : slots)
              if (b == a)
                which = s;
            res = "slot=" + std::to_string(which) + " state=" + (a ? a->get_state_str() : "null");
            auto pl = slot_payload.find(which);
            if (pl != slot_payload.end()) {
              int* v = *reinterpret_cast<int**>(pl->second.first);
              res += v ? " val=" + std::to_string(*v) : " val=none";
              slot_payload.erase(pl);
            }
            slots.erase(which);
          }
        }
      } else if (o == "lock") {
        if (held[I(1)])
          res = "skip";
        else {
          g_mutex.at(I(1))->lock();
          held[I(1)] = true;
          res        = "ok";
        }
      } else if (o == "trylock") {
        if (held[I(1)])
          res = "skip";
        else {
          bool got   = g_mutex.at(I(1))->try_lock();
          held[I(1)] = got;
          res        = got ? "got" : "busy";
        }
      } else if (o == "unlock") {
        if (not held[I(1)])
          res = "skip";
        else {
          g_mutex.at(I(1))->unlock();
          held[I(1)] = false;
          res        = "ok";
        }
      } else if (o == "acq") {
        g_sem.at(I(1))->acquire();
        res = "ok";
      } else if (o == "acqto") {
        res = g_sem.at(I(1))->acquire_timeout(T(op.at(2))) ? "timeout" : "ok";
      } else if (o == "rel") {
        g_sem.at(I(1))->release();
        res = "ok";
      } else if (o == "cvwait" || o == "cvwaitto") {
        if (not held[I(2)])
          res = "skip";
        else if (o == "cvwait") {
          g_cv.at(I(1))->wait(g_mutex.at(I(2)));
          res = "ok";
        } else
          res = g_cv.at(I(1))->wait_for(g_mutex.at(I(2)), T(op.at(3))) == std::cv_status::timeout ? "timeout" : "ok";
      } else if (o == "cvsig") {
        g_cv.at(I(1))->notify_one();
        res = "ok";
      } else if (o == "cvall") {
        g_cv.at(I(1))->notify_all();
        res = "ok";
      } else if (o == "bar") {
        res = g_bar.at(I(1))->wait() ? "serial" : "ok";
      } else if (o == "create") {
        int c = I(1);
        if (c < 0 || c >= (int)g_specs.size() || g_specs[c].by_main || children.count(c))
          res = "skip";
        else {
          children[c] = spawn(c);
          res         = "pid=" + std::to_string(children[c]->get_pid());
        }
      } else if (o == "kill" || o == "join" || o == "jointo" || o == "susp" || o == "resu" || o == "setkill") {
        sg4::ActorPtr t = target(I(1));
        if (t == nullptr || (t.get() == sg4::Actor::self() && o != "kill"))
          res = "skip";
        else if (o == "kill") {
          t->kill();
          res = "ok";
        } else if (o == "join") {
          t->join();
          res = "ok";
        } else if (o == "jointo") {
          t->join(T(op.at(2)));
          res = "ok";
        } else if (o == "susp") {
          t->suspend();
          res = "ok";
        } else if (o == "resu") {
          t->resume();
          res = "ok";
        } else {
          t->set_kill_time(sg4::Engine::get_clock() + T(op.at(2)));
          res = "ok";
        }
      } else if (o == "killall") {
        sg4::Actor::kill_all();
        res = "ok";
      } else if (o == "selfsusp") {
        sg4::this_actor::suspend();
        res = "ok";
      } else if (o == "exit") {
        logto(idx, "op " + std::to_string(k) + " exit");
        sg4::this_actor::exit();
      } else if (o == "daemon") {
        sg4::Actor::self()->daemonize();
        if (g_addr_rank) {
          g_daemon_pids.push_back(sg4::this_actor::get_pid());
          g_daemon_addr.push_back(sg4::Actor::self()->get_impl());
        }
        res = "ok";
      } else if (o == "onexit") {
        register_on_exit(idx, op.size() > 1 ? I(1) : -1);
        res = "ok";
      } else {
        res = "badop";
      }
    } catch (const simgrid::Exception& e) {
      res = std::string("exc=") + exkind(e);
    } catch (const std::out_of_range&) {
      res = "badarg";
    }
    logto(idx, "op " + std::to_string(k) + " " + o + " " + res);
  }
  logto(idx, "end");
}

int main(int argc, char** argv)
{
  struct rlimit rl = {0, 0};
  setrlimit(RLIMIT_CORE, &rl);
  sg4::Engine e(&argc, argv);
  if (argc < 2) {
    fprintf(stderr, "usage: interp <program> [--addr-rank]\n");
    return 2;
  }
  for (int i = 2; i < argc; i++)
    if (strcmp(argv[i], "--addr-rank") == 0)
      g_addr_rank = true;

  std::ifstream in(argv[1]);
  if (not in) {
    fprintf(stderr, "cannot read %s\n", argv[1]);
    return 2;
  }
  auto* zone = e.get_netzone_root();
  std::vector<const sg4::Link*> links;
  std::string line;
  std::vector<std::string> route_lines;
  std::vector<std::string> disk_lines;
  while (std::getline(in, line)) {
    if (line.empty() || line[0] == '#')
      continue;
    std::istringstream ls(line);
    std::string kw;
    ls >> kw;
    if (kw == "host") {
      double speed;
      ls >> speed;
      g_hosts.push_back(zone->add_host("h" + std::to_string(g_hosts.size()), speed));
    } else if (kw == "disk") {
      disk_lines.push_back(line);
    } else if (kw == "link") {
      double bw, lat;
      ls >> bw >> lat;
      links.push_back(zone->add_link("l" + std::to_string(links.size()), bw)->set_latency(lat));
    } else if (kw == "route") {
      route_lines.push_back(line);
    } else if (kw == "mutex") {
      int n;
      ls >> n;
      for (int i = 0; i < n; i++)
        g_mutex.push_back(sg4::Mutex::create());
    } else if (kw == "sem") {
      int c;
      while (ls >> c)
        g_sem.push_back(sg4::Semaphore::create(c));
    } else if (kw == "cv") {
      int n;
      ls >> n;
      for (int i = 0; i < n; i++)
        g_cv.push_back(sg4::ConditionVariable::create());
    } else if (kw == "bar") {
      int c;
      while (ls >> c)
        g_bar.push_back(sg4::Barrier::create(c));
    } else if (kw == "actor") {
      ActorSpec sp;
      std::string flags, ops;
      ls >> sp.idx >> sp.host >> flags >> ops;
      sp.by_main = flags.find('m') != std::string::npos;
      sp.daemon  = flags.find('d') != std::string::npos;
      auto x     = flags.find('x');
      if (x != std::string::npos) {
        sp.onexit = true;
        if (x + 1 < flags.size() && flags[x + 1] == 't')
          sp.exit_trylock = atoi(flags.c_str() + x + 2);
      }
      if (ops != "-")
        for (auto const& t : split(ops, ','))
          sp.ops.push_back(split(t, '.'));
      if (sp.idx != (int)g_specs.size()) {
        fprintf(stderr, "actor indices must be 0,1,2...\n");
        return 2;
      }
      g_specs.push_back(sp);
    } else {
      fprintf(stderr, "bad line: %s\n", line.c_str());
      return 2;
    }
  }
  std::vector<double> rbw(g_hosts.size(), 1048576.0), wbw(g_hosts.size(), 524288.0);
  for (auto const& l : disk_lines) {
    std::istringstream ls(l);
    std::string kw;
    int h;
    double r, w;
    ls >> kw >> h >> r >> w;
    rbw.at(h) = r;
    wbw.at(h) = w;
  }
  for (size_t h = 0; h < g_hosts.size(); h++)
    g_disks.push_back(g_hosts[h]->add_disk("d" + std::to_string(h), rbw[h], wbw[h]));
  for (auto const& l : route_lines) {
    std::istringstream ls(l);
    std::string kw, path;
    int i, j;
    ls >> kw >> i >> j >> path;
    std::vector<const sg4::Link*> r;
    for (auto const& x : split(path, '.'))
      r.push_back(links.at(atoi(x.c_str())));
    zone->add_route(g_hosts.at(i), g_hosts.at(j), r);
  }
  zone->seal();

  int n = (int)g_specs.size();
  g_logs.resize(n + 1);
  for (auto& l : g_logs)
    l.reserve(64);
  g_main_actors.resize(n);

  // signals: fired either by maestro (logged in M) or by the actor that runs the code (logged in that actor's vector)
  sg4::Actor::on_creation_cb([](sg4::Actor& a) {
    logme("sig creation " + a.get_name() + " pid=" + std::to_string(a.get_pid()) + " host=" + a.get_host()->get_name());
  });
  sg4::Actor::on_termination_cb([](sg4::Actor const& a) { logme("sig termination " + a.get_name()); });
  sg4::Engine::on_time_advance_cb([](double d) {
    char b[64];
    snprintf(b, sizeof b, "sig advance %a", d);
    logme(b);
  });
  sg4::Engine::on_deadlock_cb([]() { logme("sig deadlock"); });
  sg4::Exec::on_start_cb([](sg4::Exec const&) { logme("sig exec-start"); });
  sg4::Exec::on_completion_cb([](sg4::Exec const& x) { logme(std::string("sig exec-done ") + x.get_state_str()); });
  sg4::Comm::on_start_cb([](sg4::Comm const&) { logme("sig comm-start"); });
  sg4::Comm::on_completion_cb([](sg4::Comm const& x) { logme(std::string("sig comm-done ") + x.get_state_str()); });
  sg4::Io::on_start_cb([](sg4::Io const&) { logme("sig io-start"); });
  sg4::Io::on_completion_cb([](sg4::Io const& x) { logme(std::string("sig io-done ") + x.get_state_str()); });

  for (int i = 0; i < n; i++)
    if (g_specs[i].by_main)
      g_main_actors[i] = spawn(i);

  e.run();

  bool serial = simgrid::config::get_value<int>("contexts/nthreads") == 1;
  std::vector<std::tuple<unsigned long, int, const Entry*>> all;
  for (int i = 0; i <= n; i++)
    for (auto const& en : g_logs[i]) {
      if (i < n)
        printf("A %d %a %s\n", i, en.clock, en.text.c_str());
      else
        printf("M %a %s\n", en.clock, en.text.c_str());
      all.emplace_back(en.seq, i, &en);
    }
  if (serial) {
    std::sort(all.begin(), all.end());
    for (auto const& [s, i, en] : all) {
      if (i < n)
        printf("G %a a%d %s\n", en->clock, i, en->text.c_str());
      else
        printf("G %a M %s\n", en->clock, en->text.c_str());
    }
  }
  if (g_addr_rank && serial) {
    printf("R");
    for (size_t i = 0; i < g_daemon_addr.size(); i++) {
      int rank = 0;
      for (size_t j = 0; j < g_daemon_addr.size(); j++)
        if (g_daemon_addr[j] < g_daemon_addr[i])
          rank++;
      printf(" %ld:%d", g_daemon_pids[i], rank);
    }
    printf("\n");
  }
  printf("END %a\n", sg4::Engine::get_clock());
  fflush(stdout);
  // No static destruction: a mutex still held by a killed actor, for instance, makes the library abort in ~MutexImpl,
  // long after the observations have been printed.  The log is complete at this point.
  _exit(0);
}
