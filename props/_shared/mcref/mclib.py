"""Shared by the checks of C38, C40, C41: generator of mini-language programs, runner of simgrid-mc on the S4U
interpreter (props/_shared/mcref/interp.cpp), parsing of its reports.  Every random choice comes from SplitMix."""
import os
import re
import subprocess
from concurrent.futures import ThreadPoolExecutor

from vlib import core

HERE = os.path.dirname(os.path.abspath(__file__))
INTERP_SRC = os.path.join(HERE, "interp.cpp")
MC = os.path.join(core.SGBUILD, "bin", "simgrid-mc")

# ----------------------------------------------------------------------------------------------- generator


def _fmt(header, statics, children, forbid=None):
    h = ["H"]
    for k in ("m", "s", "b", "c", "x"):
        if k in header:
            v = header[k]
            h.append("%s=%s" % (k, ",".join(map(str, v)) if isinstance(v, list) else v))
    if forbid is not None:
        h.append("forbid=" + forbid)
    parts = [" ".join(h)]
    for a in statics:
        parts.append(" ".join(["A"] + a))
    for c in children:
        parts.append(" ".join(["C"] + c))
    return " ; ".join(parts)


def with_forbid(prog, outcome):
    """Same program with `forbid=<outcome>` in the header (the last actor to finish asserts outcome != forbid)."""
    secs = prog.split(" ; ")
    toks = [t for t in secs[0].split() if not t.startswith("forbid=")]
    secs[0] = " ".join(toks + ["forbid=" + outcome])
    return " ; ".join(secs)


def features(prog):
    """Which op letters occur, where (static / child)."""
    f = {"ops": set(), "child_ops": set(), "nstatic": 0, "nchild": 0}
    for sec in prog.split(" ; "):
        toks = sec.split()
        if not toks:
            continue
        if toks[0] == "A":
            f["nstatic"] += 1
            f["ops"].update(t[0] for t in toks[1:])
        elif toks[0] == "C":
            f["nchild"] += 1
            f["ops"].update(t[0] for t in toks[1:])
            f["child_ops"].update(t[0] for t in toks[1:])
    return f


UDPOR_OPS = set("LUARSGsgw")      # kinds for which UdporChecker has an extension-set computation (no trylock/test/...)


def gen_program(rng, klass=None, big=False):
    """One program of the quantifier domain (<= 4 actors x <= 8 ops).  Mostly well-formed synchronisation patterns,
    with deliberate ill-ordered ones (lock-order inversion, missing release, lost signal) so that deadlocks occur."""
    klass = klass if klass is not None else rng.below(9)
    nact = rng.choice([2, 2, 2, 3, 3] + ([3, 4] if big else []))
    hdr, statics, children = {}, [], []
    maxops = 8

    def trim(ops):
        return ops[:maxops]

    if klass == 0:      # mutexes: critical sections, possibly nested in opposite orders, trylock
        nm = rng.choice([1, 1, 2])
        hdr["m"] = nm
        for _ in range(nact):
            ops = []
            for _ in range(rng.range(1, 2)):
                m = rng.below(nm)
                k = rng.below(6)
                if k <= 2:
                    ops += ["L%d" % m, "U%d" % m]
                elif k == 3:
                    ops += ["T%d" % m, "U%d" % m]
                elif k == 4 and nm == 2:
                    ops += ["L%d" % m, "L%d" % (1 - m), "U%d" % (1 - m), "U%d" % m]
                else:
                    ops += ["T%d" % m]          # may keep the mutex for ever
            statics.append(trim(ops))
    elif klass == 1:    # semaphores
        ns = rng.choice([1, 1, 2])
        hdr["s"] = [rng.choice([0, 1, 1, 2]) for _ in range(ns)]
        for _ in range(nact):
            ops = []
            for _ in range(rng.range(1, 3)):
                s = rng.below(ns)
                k = rng.below(4)
                ops += (["A%d" % s, "R%d" % s] if k <= 1 else ["R%d" % s] if k == 2 else ["A%d" % s])
            statics.append(trim(ops))
    elif klass == 2:    # barriers (sometimes one participant missing or one too many)
        hdr["b"] = [rng.choice([nact, nact, 2, max(1, nact - 1)])]
        hdr["m"] = 1
        for _ in range(nact):
            ops = []
            if rng.chance(1, 3):
                ops += ["T0"]
            ops += ["B0"]
            if rng.chance(1, 3):
                ops += ["U0"]
            if rng.chance(1, 4):
                ops += ["B0"]
            statics.append(trim(ops))
    elif klass == 3:    # condition variables: waiters and notifiers (lost signals -> deadlock)
        hdr["m"] = 1
        hdr["c"] = 1
        for i in range(nact):
            if i == 0 or rng.chance(1, 3):
                ops = ["L0", "W0.0", "U0"]
            else:
                ops = rng.choice([["L0", "N0", "U0"], ["N0"], ["Y0"], ["L0", "Y0", "U0"], ["N0", "N0"]])
            statics.append(trim(ops))
    elif klass == 4:    # mailboxes, blocking
        nx = rng.choice([1, 1, 2])
        hdr["x"] = nx
        nsend = 0
        for i in range(nact):
            ops = []
            for _ in range(rng.range(1, 2)):
                x = rng.below(nx)
                if (i % 2 == 0) != rng.chance(1, 5):
                    nsend += 1
                    ops.append("S%d.%d" % (x, nsend))
                else:
                    ops.append("G%d" % x)
            statics.append(trim(ops))
    elif klass == 5:    # mailboxes, asynchronous with wait (and test in a minority of programs)
        nx = rng.choice([1, 1, 2])
        hdr["x"] = nx
        use_test = rng.chance(1, 3)
        v = 0
        for i in range(nact):
            ops = []
            for sl in range(rng.range(1, 2)):
                x = rng.below(nx)
                if (i % 2 == 0) != rng.chance(1, 5):
                    v += 1
                    ops.append("s%d.%d.%d" % (x, v, sl))
                else:
                    ops.append("g%d.%d" % (x, sl))
            for sl in range(len(ops)):
                if use_test and rng.chance(1, 2):
                    ops.append("t%d" % sl)
                ops.append("w%d" % sl)
            statics.append(trim(ops))
    elif klass == 6:    # actor creation / join, MC_random
        hdr["m"] = 1
        nchild = rng.choice([1, 1, 2])
        child_random = rng.chance(1, 4)
        for k in range(nchild):
            c = rng.choice([["T0"], ["L0", "U0"], ["T0", "U0"]])
            if child_random:
                c = c + ["X0.1"]
            children.append(c)
        creators = list(range(nchild))
        for i in range(min(nact, 3)):
            ops = rng.choice([["T0"], ["L0", "U0"], ["X0.1"], ["X1.2", "T0", "U0"], []])
            ops = list(ops)
            for k in creators:
                if k % min(nact, 3) == i:
                    ops.append("C%d" % k)
                    if rng.chance(1, 2):
                        ops.append("K%d" % k)
            statics.append(trim(ops))
    elif klass == 7:    # mixed: semaphore-protected mailbox use + mutex
        hdr["m"] = 1
        hdr["s"] = [rng.choice([0, 1])]
        hdr["x"] = 1
        v = 0
        for i in range(nact):
            ops = []
            k = rng.below(4)
            if k == 0:
                v += 1
                ops = ["A0", "S0.%d" % v, "R0"]
            elif k == 1:
                ops = ["G0", "R0"]
            elif k == 2:
                ops = ["L0", "R0", "U0"]
            else:
                v += 1
                ops = ["L0", "U0", "S0.%d" % v]
            statics.append(trim(ops))
    else:               # random small soup over everything declared
        hdr["m"] = 1
        hdr["s"] = [1]
        hdr["x"] = 1
        v = 0
        for i in range(nact):
            ops = []
            for _ in range(rng.range(1, 3)):
                k = rng.below(8)
                if k == 0:
                    ops += ["L0", "U0"]
                elif k == 1:
                    ops += ["T0"]
                elif k == 2:
                    ops += ["A0"]
                elif k == 3:
                    ops += ["R0"]
                elif k == 4:
                    v += 1
                    ops += ["S0.%d" % v]
                elif k == 5:
                    ops += ["G0"]
                elif k == 6:
                    ops += ["X0.1"]
                else:
                    ops += ["U0"]
            statics.append(trim(ops))
    if rng.chance(1, 3) and len(statics) < 4:     # a joiner
        statics.append(["J%d" % (i + 1) for i in range(len(statics))][:maxops])
    return _fmt(hdr, statics, children), klass


# ----------------------------------------------------------------------------------------------- running


def mc_flags(reduction, algo="DFS", strategy="none", extra=()):
    f = ["--cfg=model-check/reduction:" + reduction, "--log=no_loc", "--cfg=model-check/search-critical:0"]
    if algo != "DFS":
        f.append("--cfg=model-check/exploration-algo:" + algo)
    if strategy != "none":
        f.append("--cfg=model-check/strategy:" + strategy)
    return f + list(extra)


PATH_RE = re.compile(r"--cfg=model-check/replay:'([^']*)'")
END_RE = re.compile(r"Execution came to an end at (\S*)")


def run_mc(ctx, interp, prog, flags, timeout=30):
    """-> dict(rc, outs (list, with repetitions), text, timeout)"""
    env = dict(os.environ)
    env.update(ctx.sg_env())
    try:
        p = subprocess.run([MC] + flags + [interp, prog], capture_output=True, text=True, timeout=timeout, env=env,
                           cwd=ctx.work)
    except subprocess.TimeoutExpired:
        return {"rc": None, "outs": [], "text": "", "timeout": True}
    text = p.stdout + p.stderr
    outs = [l[4:] for l in text.split("\n") if l.startswith("OUT ")]
    rc = p.returncode if p.returncode >= 0 else 128 - p.returncode      # killed by a signal: shell convention
    return {"rc": rc, "outs": outs, "text": text, "timeout": False}


def run_many(ctx, interp, jobs, workers=None, timeout=30):
    """jobs: list of (key, prog, flags) -> {key: result}"""
    workers = workers or int(os.environ.get("VERIF_MC_WORKERS", "12"))
    res = {}
    with ThreadPoolExecutor(max_workers=workers) as ex:
        futs = {ex.submit(run_mc, ctx, interp, prog, flags, timeout): key for key, prog, flags in jobs}
        for f, key in futs.items():
            res[key] = f.result()
    # An unexpected exit (abort, loader error, socket already in use, timeout under load) is confirmed by a second,
    # serial run before anybody draws a conclusion from it: transient infrastructure failures must not become alarms.
    byk = {key: (prog, flags) for key, prog, flags in jobs}
    for key, r in list(res.items()):
        if r["timeout"] or r["rc"] not in (0, 1, 2, 3):
            prog, flags = byk[key]
            r2 = run_mc(ctx, interp, prog, flags, timeout * 4)
            r2["retried_after"] = {"rc": r["rc"], "timeout": r["timeout"]}
            res[key] = r2
    return res


def run_plain(ctx, interp, prog, path, timeout=30):
    """Replay `path` outside simgrid-mc: interp --cfg=model-check/replay:<path>."""
    env = dict(os.environ)
    env.update(ctx.sg_env())
    try:
        p = subprocess.run([interp, "--cfg=model-check/replay:" + path, "--log=no_loc", prog], capture_output=True,
                           text=True, timeout=timeout, env=env, cwd=ctx.work)
    except subprocess.TimeoutExpired:
        return {"rc": None, "text": "", "timeout": True}
    return {"rc": p.returncode, "text": p.stdout + p.stderr, "timeout": False}


def parse_ref(line):
    """`REF nexec=… dl=… af=… crash=… capped=… exh=… o=…` -> dict"""
    toks = line.split()
    if not toks or toks[0] != "REF":
        return None
    d = {"outs": []}
    for t in toks[1:]:
        k, _, v = t.partition("=")
        if k == "o":
            d["outs"].append(v)
        else:
            d[k] = int(v)
    return d


def oracle(ctx, drv, progs, cap):
    """Reference results of the programs (Lean explorer)."""
    rc, out, err = ctx.run_lines([drv], ["ref %d %s" % (cap, p) for p in progs], timeout=1200)
    if rc != 0 or len(out) != len(progs) + 1 or out[-1] != "END %d" % len(progs):
        ctx.broken.append({"kind": "driver-run", "rc": rc, "stderr": err[-2000:], "out": out[-3:]})
        return None
    return [parse_ref(l) for l in out[:-1]]
