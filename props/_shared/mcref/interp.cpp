/* Interpreter of the McRef mini-language through the public S4U API (shared by C38, C40, C41).
 *
 * usage: interp "<program>"        (run under simgrid-mc, or stand-alone with --cfg=model-check/replay:<path>)
 *
 * program := section (';' section)*
 *   H m=<#mutexes> s=<cap,cap,..|-> b=<n,n,..|-> c=<#condvars> x=<#mailboxes> [forbid=<outcome>]
 *   A op*          a static actor (pids 1,2,... in order of appearance)
 *   C op*          a child body (index 0,1,... in order of appearance), started by the op C<k>
 * ops:  L<m> lock   T<m> try_lock (obs 0/1)   U<m> unlock if held   A<s> acquire   R<s> release   B<b> barrier wait
 *       W<c>.<m> condvar wait (only if m is held)   N<c> notify_one   Y<c> notify_all
 *       S<x>.<v> put   G<x> get (obs v)   s<x>.<v>.<slot> put_async   g<x>.<slot> get_async   w<slot> wait (obs v for a recv)
 *       t<slot> test (obs 0/1, then v for a completed recv)   C<k> create child k   J<pid> join static actor   K<k> join child k
 *       X<lo>.<hi> MC_random (obs)   F<v> MC_assert(last obs != v)
 * The actor that terminates last prints "OUT <outcome>" on stderr and asserts outcome != forbid.
 * outcome = observation vectors of all actors (statics then children), ',' inside, '|' between.
 */
#include <simgrid/modelchecker.h>
#include <simgrid/s4u.hpp>
#include <cstdio>
#include <cstdlib>
#include <sstream>
#include <string>
#include <vector>

namespace sg4 = simgrid::s4u;

struct Op {
  char k;
  int a = 0, b = 0, c = 0;
};
struct Body {
  bool child;
  std::vector<Op> ops;
};

static std::vector<Body> bodies;            // statics first (in order), then children (in order)
static std::vector<int> static_idx, child_idx; // indexes into bodies
static std::vector<sg4::MutexPtr> mutexes;
static std::vector<sg4::SemaphorePtr> sems;
static std::vector<sg4::BarrierPtr> bars;
static std::vector<sg4::ConditionVariablePtr> cvs;
static std::vector<sg4::Mailbox*> mboxes;
static std::vector<std::vector<int>> obs;   // per actor (position in the outcome)
static std::vector<sg4::ActorPtr> child_actor, static_actor;
static std::string forbid;
static bool has_forbid = false;
static int finished = 0, expected = 0;
static sg4::Host* host = nullptr;

static std::string outcome()
{
  std::ostringstream o;
  for (size_t i = 0; i < obs.size(); i++) {
    if (i)
      o << '|';
    for (size_t j = 0; j < obs[i].size(); j++) {
      if (j)
        o << ',';
      o << obs[i][j];
    }
  }
  return o.str();
}

struct Slot {
  sg4::CommPtr comm;
  bool recv   = false;
  int* buf    = nullptr;
  bool active = false;
};

static void run_body(int pos /* position in the outcome */, int bidx)
{
  const Body& body = bodies[bidx];
  std::vector<bool> held(mutexes.size(), false);
  std::vector<Slot> slots(8);
  auto& my = obs[pos];
  for (const Op& op : body.ops) {
    switch (op.k) {
      case 'L':
        mutexes[op.a]->lock();
        held[op.a] = true;
        break;
      case 'T': {
        bool r = mutexes[op.a]->try_lock();
        if (r)
          held[op.a] = true;
        my.push_back(r ? 1 : 0);
        break;
      }
      case 'U':
        if (held[op.a]) {
          mutexes[op.a]->unlock();
          held[op.a] = false;
        }
        break;
      case 'A':
        sems[op.a]->acquire();
        break;
      case 'R':
        sems[op.a]->release();
        break;
      case 'B':
        bars[op.a]->wait();
        break;
      case 'W':
        if (held[op.b])
          cvs[op.a]->wait(mutexes[op.b]);
        break;
      case 'N':
        cvs[op.a]->notify_one();
        break;
      case 'Y':
        cvs[op.a]->notify_all();
        break;
      case 'S':
        mboxes[op.a]->put(new int(op.b), 1);
        break;
      case 'G': {
        int* p = mboxes[op.a]->get<int>();
        my.push_back(*p);
        break;
      }
      case 's': {
        Slot& s = slots[op.c];
        if (s.active)
          break;
        s.comm   = mboxes[op.a]->put_async(new int(op.b), 1);
        s.recv   = false;
        s.active = true;
        break;
      }
      case 'g': {
        Slot& s = slots[op.b];
        if (s.active)
          break;
        s.buf    = nullptr;
        s.comm   = mboxes[op.a]->get_async<int>(&s.buf);
        s.recv   = true;
        s.active = true;
        break;
      }
      case 'w': {
        Slot& s = slots[op.a];
        if (not s.active)
          break;
        s.comm->wait();
        if (s.recv)
          my.push_back(*s.buf);
        s.active = false;
        s.comm   = nullptr;
        break;
      }
      case 't': {
        Slot& s = slots[op.a];
        if (not s.active)
          break;
        bool r = s.comm->test();
        my.push_back(r ? 1 : 0);
        if (r) {
          if (s.recv)
            my.push_back(*s.buf);
          s.active = false;
          s.comm   = nullptr;
        }
        break;
      }
      case 'C': {
        int k          = op.a;
        int cpos       = (int)static_idx.size() + k;
        int cb         = child_idx[k];
        child_actor[k] = host->add_actor("c" + std::to_string(k), [cpos, cb]() { run_body(cpos, cb); });
        break;
      }
      case 'J': {
        if (op.a >= 1 && op.a <= (int)static_actor.size())
          static_actor[op.a - 1]->join();
        break;
      }
      case 'K':
        if (child_actor[op.a])
          child_actor[op.a]->join();
        break;
      case 'X':
        my.push_back(MC_random(op.a, op.b));
        break;
      case 'F':
        if (not my.empty())
          MC_assert(my.back() != op.a);
        break;
      default:
        fprintf(stderr, "bad op %c\n", op.k);
        abort();
    }
  }
  finished++;
  if (finished == expected) {
    std::string o = outcome();
    fprintf(stderr, "OUT %s\n", o.c_str());
    fflush(stderr);
    if (has_forbid)
      MC_assert(o != forbid);
  }
}

static std::vector<int> nums(const std::string& s)
{
  std::vector<int> r;
  std::string cur;
  for (char ch : s + ".") {
    if (ch == '.' || ch == ',') {
      if (not cur.empty() && cur != "-")
        r.push_back(atoi(cur.c_str()));
      cur.clear();
    } else
      cur += ch;
  }
  return r;
}

int main(int argc, char* argv[])
{
  sg4::Engine e(&argc, argv);
  if (argc < 2) {
    fprintf(stderr, "usage: interp <program>\n");
    return 63;
  }
  auto* zone = e.get_netzone_root();
  host       = zone->add_host("h0", 1e9);
  zone->seal();

  std::istringstream in(argv[1]);
  std::string tok;
  char mode = 0;
  while (in >> tok) {
    if (tok == ";")
      continue;
    if (tok == "H" || tok == "A" || tok == "C") {
      mode = tok[0];
      if (mode != 'H') {
        bodies.push_back(Body{mode == 'C', {}});
        (mode == 'A' ? static_idx : child_idx).push_back((int)bodies.size() - 1);
      }
      continue;
    }
    if (mode == 'H') {
      auto eq         = tok.find('=');
      std::string key = tok.substr(0, eq), val = tok.substr(eq + 1);
      if (key == "m")
        for (int i = 0; i < atoi(val.c_str()); i++)
          mutexes.push_back(sg4::Mutex::create());
      else if (key == "s")
        for (int c : nums(val))
          sems.push_back(sg4::Semaphore::create(c));
      else if (key == "b")
        for (int c : nums(val))
          bars.push_back(sg4::Barrier::create(c));
      else if (key == "c")
        for (int i = 0; i < atoi(val.c_str()); i++)
          cvs.push_back(sg4::ConditionVariable::create());
      else if (key == "x")
        for (int i = 0; i < atoi(val.c_str()); i++)
          mboxes.push_back(sg4::Mailbox::by_name("mb" + std::to_string(i)));
      else if (key == "forbid") {
        has_forbid = true;
        forbid     = val;
      }
    } else {
      Op op;
      op.k   = tok[0];
      auto v = nums(tok.substr(1));
      if (v.size() > 0)
        op.a = v[0];
      if (v.size() > 1)
        op.b = v[1];
      if (v.size() > 2)
        op.c = v[2];
      bodies.back().ops.push_back(op);
    }
  }
  obs.resize(bodies.size());
  child_actor.resize(child_idx.size());
  expected = (int)static_idx.size();
  for (auto const& b : bodies)
    for (auto const& op : b.ops)
      if (op.k == 'C')
        expected++;
  for (size_t i = 0; i < static_idx.size(); i++) {
    int pos = (int)i, bi = static_idx[i];
    static_actor.push_back(host->add_actor("a" + std::to_string(i + 1), [pos, bi]() { run_body(pos, bi); }));
  }
  e.run();
  return 0;
}
