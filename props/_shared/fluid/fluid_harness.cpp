// Shared harness of C21 and C19: runs one generated workload on a generated platform with the REAL SimGrid kernel.
// stdin: one scenario per line; stdout: `<scenario> => <tokens>` (one forked child per scenario: the Engine is a singleton).
//
// Scenario = sections separated by " ; ":
//   cfg k:v,k:v,...                 --cfg= options (cpu/optim, network/optim, */maxmin-selective-update, ...); `cfg -` = none
//   sample 0|1|2                    0: only final E records; 1: a T record at every Engine::on_time_advance;
//                                   2: idem, but remaining is read through the kernel without update (no perturbation)
//   H name speed cores [period t:v,t:v,...]      host (+ repeating speed profile, values are scale factors);
//                                                `speed` may be s0,s1,... = one speed per pstate (starts in pstate 0)
//   L name bw lat S|F [period t:v,...]           link SHARED / FATPIPE (+ bandwidth profile, values are absolute bw)
//   D host name rbw wbw                          disk
//   R hostA hostB l1,l2,...                      symmetrical route
//   X t exec id host flops bound prio threads    start an exec at date t (bound<=0: none)
//   X t comm id src dst bytes rate               host-to-host comm (rate<0: none)
//   X t io id disk bytes r|w
//   X t susp id | X t res id | X t bound id b (kernel Action::set_bound) | X t prio id p (Exec::update_priority)
//   X t pstate host idx                          Host::set_pstate(idx) at date t
// Numbers are C doubles (hex-floats accepted).  Output tokens (doubles as %a):
//   T now delta  A id remaining rate  ...  R resid load cap ...      (per on_time_advance)
//   E id start finish kernel-state(DONE|RUNNING|...)                                          (per activity, at the end)
//   ERR msg                                                           (exception) ; child crash => `CRASH status`
#include <simgrid/kernel/ProfileBuilder.hpp>
#include <simgrid/s4u.hpp>
#include "src/kernel/activity/ActivityImpl.hpp"
#include "src/kernel/lmm/System.hpp"
#include "src/kernel/resource/CpuImpl.hpp"
#include "src/kernel/resource/DiskImpl.hpp"
#include "src/kernel/resource/StandardLinkImpl.hpp"
#include <simgrid/kernel/resource/Action.hpp>

#include <cstdio>
#include <fcntl.h>
#include <cstdlib>
#include <iostream>
#include <map>
#include <sstream>
#include <string>
#include <sys/wait.h>
#include <unistd.h>
#include <vector>

namespace sg4 = simgrid::s4u;

struct Op {
  double t;
  std::string kind;
  std::vector<std::string> a;
};
struct Act {
  std::string id;
  sg4::ActivityPtr act;
  char kind;
};

static std::vector<std::string> split(const std::string& s, char c)
{
  std::vector<std::string> r;
  std::string cur;
  for (char ch : s) {
    if (ch == c) {
      r.push_back(cur);
      cur.clear();
    } else
      cur += ch;
  }
  r.push_back(cur);
  return r;
}
static std::vector<std::string> toks(const std::string& s)
{
  std::istringstream in(s);
  std::vector<std::string> r;
  std::string t;
  while (in >> t)
    r.push_back(t);
  return r;
}
static double num(const std::string& s)
{
  return strtod(s.c_str(), nullptr);
}
static std::string profile_text(const std::string& pts)
{
  std::ostringstream o;
  o.precision(17);
  for (auto const& p : split(pts, ',')) {
    auto tv = split(p, ':');
    o << num(tv[0]) << " " << num(tv[1]) << "\n";
  }
  return o.str();
}

static std::vector<Act> acts;
static std::map<std::string, size_t> act_idx;
static std::vector<sg4::Host*> hosts;
static std::vector<sg4::Link*> links;
static std::vector<sg4::Disk*> disks;
static int sample_mode = 1;
static std::map<std::string, double> prev_cap;
static FILE* out;

static void emit_sample(double delta)
{
  fprintf(out, " T %a %a", sg4::Engine::get_clock(), delta);
  for (auto const& a : acts) {
    auto* impl = a.act->get_impl();
    if (impl == nullptr || impl->model_action_ == nullptr)
      continue;
    auto* ma   = impl->model_action_;
    // Activity::get_remaining() is what an actor can call; on an action that just FINISHED (the activity is only
    // terminated after this callback) the Lazy code asserts, so read the field directly in that case.
    bool started = ma->get_state() == simgrid::kernel::resource::Action::State::STARTED;
    double rem   = (sample_mode == 2 || not started) ? ma->get_remains_no_update() : a.act->get_remaining();
    fprintf(out, " A %s %a %a", a.id.c_str(), rem, ma->get_rate());
  }
  // capacities: the one in force during the step that just ended, i.e. the one read at the previous sample (profile
  // events dated `now` are applied before this callback, while the loads still come from the solve of the past step)
  std::vector<std::pair<std::string, std::pair<double, double>>> cur;
  for (auto* h : hosts) {
    auto* c = h->get_cpu()->get_constraint();
    if (c) // no LMM constraint under the TI model
      cur.push_back({h->get_name(), {h->get_load(), h->get_speed() * h->get_available_speed() * h->get_core_count()}});
  }
  for (auto* l : links)
    cur.push_back({l->get_name(), {l->get_load(), l->get_bandwidth()}});
  for (auto* d : disks) {
    auto* di = d->get_impl();
    cur.push_back({d->get_name(), {di->get_constraint()->get_load(), di->get_readwrite_bandwidth()}});
    cur.push_back({d->get_name() + ".r", {di->get_read_constraint()->get_load(), di->get_read_bandwidth()}});
    cur.push_back({d->get_name() + ".w", {di->get_write_constraint()->get_load(), di->get_write_bandwidth()}});
  }
  for (auto const& [name, lc] : cur) {
    double cap = prev_cap.count(name) ? prev_cap[name] : lc.second;
    fprintf(out, " R %s %a %a", name.c_str(), lc.first, cap);
    prev_cap[name] = lc.second;
  }
}

static int run_scenario(const std::string& line)
{
  std::vector<std::string> cfgs;
  std::vector<Op> ops;
  std::vector<std::vector<std::string>> secs;
  for (auto const& s : split(line, ';')) {
    auto t = toks(s);
    if (not t.empty())
      secs.push_back(t);
  }
  std::vector<std::string> argv_s = {"fluid_harness", "--log=root.thres:critical", "--cfg=debug/stacktrace:none"};
  for (auto const& t : secs) {
    if (t[0] == "cfg" && t.size() > 1 && t[1] != "-")
      for (auto const& kv : split(t[1], ','))
        argv_s.push_back("--cfg=" + kv);
    if (t[0] == "sample")
      sample_mode = atoi(t[1].c_str());
  }
  std::vector<char*> argv;
  for (auto& s : argv_s)
    argv.push_back(s.data());
  argv.push_back(nullptr);
  int argc = (int)argv_s.size();
  sg4::Engine e(&argc, argv.data());
  auto* zone = e.get_netzone_root();
  std::map<std::string, sg4::Host*> hmap;
  std::map<std::string, sg4::Link*> lmap;
  std::map<std::string, sg4::Disk*> dmap;
  auto* ctl = zone->add_host("ctl", 1.0);
  int pcount = 0;
  for (auto const& t : secs) {
    if (t[0] == "H") {
      std::vector<double> speeds;
      for (auto const& sp : split(t[2], ','))
        speeds.push_back(num(sp));
      auto* h = zone->add_host(t[1], speeds);
      h->set_core_count(atoi(t[3].c_str()));
      if (t.size() > 5)
        h->set_speed_profile(simgrid::kernel::profile::ProfileBuilder::from_string("p" + std::to_string(pcount++),
                                                                                   profile_text(t[5]), num(t[4])));
      hmap[t[1]] = h;
      hosts.push_back(h);
    } else if (t[0] == "L") {
      auto* l = zone->add_link(t[1], num(t[2]));
      l->set_latency(num(t[3]));
      if (t[4] == "F")
        l->set_sharing_policy(sg4::Link::SharingPolicy::FATPIPE);
      if (t.size() > 6)
        l->set_bandwidth_profile(simgrid::kernel::profile::ProfileBuilder::from_string("p" + std::to_string(pcount++),
                                                                                       profile_text(t[6]), num(t[5])));
      lmap[t[1]] = l;
      links.push_back(l);
    } else if (t[0] == "D") {
      auto* d    = hmap.at(t[1])->add_disk(t[2], num(t[3]), num(t[4]));
      dmap[t[2]] = d;
      disks.push_back(d);
    }
  }
  for (auto const& t : secs) {
    if (t[0] == "R") {
      std::vector<const sg4::Link*> ls;
      for (auto const& n : split(t[3], ','))
        ls.push_back(lmap.at(n));
      zone->add_route(hmap.at(t[1]), hmap.at(t[2]), ls);
    } else if (t[0] == "X") {
      Op op;
      op.t    = num(t[1]);
      op.kind = t[2];
      op.a.assign(t.begin() + 3, t.end());
      ops.push_back(op);
    }
  }
  zone->seal();

  for (auto* h : hosts) // capacities before the first event (profiles not applied yet: scale 1)
    prev_cap[h->get_name()] = h->get_speed() * h->get_core_count();
  for (auto* l : links)
    prev_cap[l->get_name()] = l->get_bandwidth();
  if (sample_mode > 0)
    sg4::Engine::on_time_advance_cb([](double delta) { emit_sample(delta); });

  ctl->add_actor("ctl", [&]() {
    for (auto const& op : ops) {
      if (op.t > sg4::Engine::get_clock())
        sg4::this_actor::sleep_until(op.t);
      if (op.kind == "exec") {
        auto ex = sg4::Exec::init();
        ex->set_host(hmap.at(op.a[1]))->set_flops_amount(num(op.a[2]));
        if (num(op.a[3]) > 0)
          ex->set_bound(num(op.a[3]));
        ex->set_priority(num(op.a[4]));
        if (atoi(op.a[5].c_str()) > 1)
          ex->set_thread_count(atoi(op.a[5].c_str()));
        ex->start();
        act_idx[op.a[0]] = acts.size();
        acts.push_back({op.a[0], ex, 'e'});
      } else if (op.kind == "comm") {
        auto c = sg4::Comm::sendto_init(); // set_rate() is only accepted before source and destination are known
        if (num(op.a[4]) >= 0)
          c->set_rate(num(op.a[4]));
        c->set_payload_size((uint64_t)num(op.a[3]));
        c->set_source(hmap.at(op.a[1]))->set_destination(hmap.at(op.a[2])); // starts the comm
        if (c->get_state() != sg4::Activity::State::STARTED)
          c->start(); // zero-byte payload
        act_idx[op.a[0]] = acts.size();
        acts.push_back({op.a[0], c, 'c'});
      } else if (op.kind == "io") {
        auto io = dmap.at(op.a[1])->io_init((sg_size_t)num(op.a[2]),
                                            op.a[3] == "r" ? sg4::Io::OpType::READ : sg4::Io::OpType::WRITE);
        io->start();
        act_idx[op.a[0]] = acts.size();
        acts.push_back({op.a[0], io, 'i'});
      } else if (op.kind == "pstate") {
        auto* h = hmap.at(op.a[0]);
        h->set_pstate(atoi(op.a[1].c_str()));
        // in force from now on, i.e. during the step that the next sample reports (unlike profile events, which are
        // applied at the end of the step they close)
        prev_cap[h->get_name()] = h->get_speed() * h->get_available_speed() * h->get_core_count();
      } else {
        auto it = act_idx.find(op.a[0]);
        if (it == act_idx.end())
          continue;
        auto& a = acts[it->second];
        // ActivityImpl::suspend() dereferences model_action_ without a check (resume() has one): an activity whose
        // kernel action already completed (but that nobody waited for yet) must not be touched.
        if (a.act->get_state() != sg4::Activity::State::STARTED || a.act->get_impl()->model_action_ == nullptr)
          continue;
        if (op.kind == "susp")
          a.act->suspend();
        else if (op.kind == "res")
          a.act->resume();
        else if (op.kind == "prio" && a.kind == 'e')
          boost::static_pointer_cast<sg4::Exec>(a.act)->update_priority(num(op.a[1]));
        else if (op.kind == "bound") {
          double b = num(op.a[1]);
          auto* ma = a.act->get_impl()->model_action_;
          if (ma)
            simgrid::kernel::actor::simcall_answered([ma, b] { ma->set_bound(b); });
        }
      }
    }
    for (auto& a : acts)
      a.act->wait();
  });
  e.run();
  for (auto const& a : acts)
    fprintf(out, " E %s %a %a %s", a.id.c_str(), a.act->get_start_time(), a.act->get_finish_time(),
            a.act->get_impl()->get_state_str()); // kernel state: DONE once the action completed (waited for or not)
  fprintf(out, " END %a", sg4::Engine::get_clock());
  return 0;
}

int main()
{
  std::string line;
  while (std::getline(std::cin, line)) {
    if (line.empty())
      continue;
    int fd[2];
    if (pipe(fd) != 0)
      return 3;
    fflush(stdout);
    pid_t pid = fork();
    if (pid == 0) {
      close(fd[0]);
      out = fdopen(fd[1], "w");
      int devnull = open("/dev/null", 1);
      if (not getenv("FH_STDERR")) dup2(devnull, 2); // xbt_assert messages of invalid configurations are reported through the exit status
      int rc = 0;
      try {
        rc = run_scenario(line);
      } catch (std::exception const& ex) {
        fprintf(out, " ERR exception");
        rc = 0;
      }
      fflush(out);
      _exit(rc);
    }
    close(fd[1]);
    std::string res;
    char buf[65536];
    ssize_t n;
    while ((n = read(fd[0], buf, sizeof buf)) > 0)
      res.append(buf, n);
    close(fd[0]);
    int st = 0;
    waitpid(pid, &st, 0);
    if (not(WIFEXITED(st) && WEXITSTATUS(st) == 0))
      res += " CRASH " + std::to_string(WIFEXITED(st) ? WEXITSTATUS(st) : 128 + WTERMSIG(st));
    printf("%s =>%s\n", line.c_str(), res.c_str());
    fflush(stdout);
  }
  return 0;
}
