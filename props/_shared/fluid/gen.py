"""Generators shared by C21 and C19: platforms + timed workloads for props/_shared/fluid/fluid_harness.cpp.
A scenario is a dict {plat: [...sections], ops: [...], acts: {id: (kind, cost, [resources])}, fat: [rid], eq: (S,n,k)|None,
klass: str, feats: set}.  Every random choice comes from the SplitMix passed in (replayable from (seed, index))."""
from fractions import Fraction


def fx(x):
    """a double as the hex literal the harness parses back to the very same double"""
    return float(x).hex()


SPEEDS = [1e8, 1e9, 2.5e9, 100.0, 1024.0, 3e7, 7.5e8]
BWS = [1.25e8, 1e7, 1.25e9, 1000.0, 4096.0, 5e6]
LATS = [0.0, 1e-4, 5e-5, 0.001, 0.5, 0.0078125]
DBW = [1e8, 2e8, 5e7, 4e8]


def rnd_time(rng, horizon):
    k = rng.below(4)
    if k == 0:
        return rng.below(int(horizon) + 1) * 1.0                      # integers
    if k == 1:
        return rng.below(int(horizon * 1024) + 1) / 1024.0            # dyadic
    if k == 2:
        return rng.below(int(horizon * 1000) + 1) / 1000.0            # decimal (inexact in binary)
    return horizon * rng.below(10 ** 6) / 10.0 ** 6


def gen_profile(rng, values):
    """repeating profile: (period, [(date, value)...]) with increasing dates starting at 0"""
    n = rng.range(2, 4)
    step = rng.choice([0.5, 1.0, 2.0, 0.25, 3.0, 0.1])
    pts = [(i * step, rng.choice(values)) for i in range(n)]
    period = n * step
    return period, pts


def prof_tokens(period, pts):
    return "%s %s" % (fx(period), ",".join("%s:%s" % (fx(t), fx(v)) for t, v in pts))


def gen_scenario(rng, klass=None, ti_ok=False, profiles=True, no_io=False):
    """klass: equal | execs | comms | ios | mixed | boundary | eqdyn (only on request: hosts with several pstates and/or a
    speed profile, Host::set_pstate ops, and a uniform population of execs (same thread count, no bound, priority 1, no
    control op) whose number changes over time; see platform_tokens() for what the monitor derives from the description)"""
    klass = klass or rng.choice(["equal", "execs", "execs", "comms", "comms", "ios", "mixed", "mixed", "boundary"])
    sc = {"plat": [], "ops": [], "acts": {}, "fat": [], "eq": None, "klass": klass, "feats": set(), "caps": {}}
    hosts, links, disks, routes = [], [], [], {}
    nh = 1 if klass in ("equal",) else rng.range(1, 2) if klass == "eqdyn" else rng.range(1, 3) if klass in ("execs", "ios", "boundary") else rng.range(2, 3)
    single_core = ti_ok
    for i in range(nh):
        speed = rng.choice(SPEEDS)
        cores = 1 if single_core else rng.choice([1, 1, 2, 4, 8])
        h = {"name": "h%d" % i, "speed": speed, "cores": cores, "prof": None, "speeds": [speed]}
        if klass == "eqdyn":
            h["cores"] = 1 if single_core else rng.choice([1, 2, 2, 3, 4, 4, 8])
            h["speeds"] += [speed * rng.choice([0.5, 0.25, 2.0, 0.75]) for _ in range(rng.choice([0, 1, 1, 2]))]
            if len(h["speeds"]) > 1:
                sc["feats"].add("pstates")
            if profiles and rng.chance(1, 2):
                h["prof"] = gen_profile(rng, [1.0, 0.5, 0.25, 0.75])
                sc["feats"].add("speed-profile")
        elif profiles and klass != "equal" and rng.chance(1, 4):
            h["prof"] = gen_profile(rng, [1.0, 0.5, 0.25, 0.75, 0.1])
            sc["feats"].add("speed-profile")
        hosts.append(h)
    if klass in ("comms", "mixed") or (klass == "boundary" and nh > 1):
        nl = rng.range(1, 3)
        for i in range(nl):
            l = {"name": "l%d" % i, "bw": rng.choice(BWS), "lat": rng.choice(LATS), "pol": "F" if rng.chance(1, 6) else "S",
                 "prof": None}
            if profiles and rng.chance(1, 5):
                l["prof"] = gen_profile(rng, [l["bw"], l["bw"] / 2, l["bw"] / 4])
                sc["feats"].add("bw-profile")
            if l["pol"] == "F":
                sc["fat"].append(l["name"])
                sc["feats"].add("fatpipe")
            links.append(l)
        for a in range(nh):
            for b in range(a + 1, nh):
                k = rng.range(1, min(2, nl))
                ls = list(range(nl))
                rng.shuffle(ls)
                routes[(a, b)] = ["l%d" % x for x in sorted(ls[:k])]
    if klass in ("ios", "mixed") and not no_io:
        nd = rng.range(1, 2)
        for i in range(nd):
            disks.append({"host": "h%d" % rng.below(nh), "name": "d%d" % i, "r": rng.choice(DBW), "w": rng.choice(DBW)})
    for h in hosts:
        s = "H %s %s %d" % (h["name"], ",".join(fx(x) for x in h["speeds"]), h["cores"])
        if h["prof"]:
            s += " " + prof_tokens(*h["prof"])
        sc["plat"].append(s)
        sc["caps"][h["name"]] = h["speed"] * h["cores"]
    for l in links:
        s = "L %s %s %s %s" % (l["name"], fx(l["bw"]), fx(l["lat"]), l["pol"])
        if l["prof"]:
            s += " " + prof_tokens(*l["prof"])
        sc["plat"].append(s)
    for d in disks:
        sc["plat"].append("D %s %s %s %s" % (d["host"], d["name"], fx(d["r"]), fx(d["w"])))
    for (a, b), ls in routes.items():
        sc["plat"].append("R h%d h%d %s" % (a, b, ",".join(ls)))

    ops = []          # (time, text)
    nact = [0]

    def new_id(p):
        nact[0] += 1
        return "%s%d" % (p, nact[0])

    def add_exec(t, host, flops, bound=0.0, prio=1.0, threads=1):
        i = new_id("e")
        ops.append((t, "exec %s %s %s %s %s %d" % (i, host["name"], fx(flops), fx(bound), fx(prio), threads)))
        # HostCLM03Model::execute_thread starts an action of cost flops*threads using `threads` cores
        sc["acts"][i] = ("e", flops * threads if threads > 1 else flops, [host["name"]])
        return i

    def add_comm(t, a, b, size, rate=-1.0):
        i = new_id("c")
        src, dst = (a, b) if rng.chance(1, 2) else (b, a)
        ops.append((t, "comm %s h%d h%d %s %s" % (i, src, dst, fx(size), fx(rate))))
        sc["acts"][i] = ("c", float(size), list(routes[(min(a, b), max(a, b))]))
        return i

    def add_io(t, d, size, rw):
        i = new_id("i")
        ops.append((t, "io %s %s %s %s" % (i, d["name"], fx(size), rw)))
        sc["acts"][i] = ("i", float(size), [d["name"], d["name"] + "." + rw])
        return i

    def controls(i, t0, dur, kind):
        """suspend/resume, bound and priority changes on activity i, some exactly at its isolated completion date"""
        n = rng.below(3)
        for _ in range(n):
            k = rng.below(6)
            t = t0 + dur * rng.choice([0.25, 0.5, 0.75, 1.0, 1.0, 1.5, rng.below(1000) / 500.0])
            if k <= 1:
                t2 = t + dur * rng.choice([0.125, 0.5, 1.0, 2.0])
                ops.append((t, "susp %s" % i))
                ops.append((t2, "res %s" % i))
                sc["feats"].add("suspend")
            elif k == 2 and kind == "e" and not ti_ok:
                ops.append((t, "bound %s %s" % (i, fx(sc["bnd"] * rng.choice([0.125, 0.5, 0.9, 2.0])))))
                sc["feats"].add("bound-change")
            elif k == 3 and kind == "e":
                ops.append((t, "prio %s %s" % (i, fx(rng.choice([0.5, 2.0, 3.0, 1.0, 10.0])))))
                sc["feats"].add("prio-change")

    if klass == "equal":
        h = hosts[0]
        k = rng.range(1, 12)
        W = h["speed"] * rng.choice([1.0, 2.0, 0.5, 3.25, 10.0])
        for _ in range(k):
            add_exec(0.0, h, W)
        sc["eq"] = (h["speed"], h["cores"], k)
        sc["feats"].add("k<=n" if k <= h["cores"] else "k>n")
    if klass == "eqdyn":
        for h in hosts:
            n = h["cores"]
            threads = rng.range(2, n) if n > 1 and rng.chance(1, 3) else 1
            k = rng.range(1, 10) if threads == 1 else rng.range(1, 4)
            dur = rng.choice([1.0, 2.0, 0.5, 4.0])
            together = rng.chance(1, 3)
            tmax = 0.0
            for _ in range(k):
                t = 0.0 if together or rng.chance(1, 3) else rnd_time(rng, 4)
                flops = h["speed"] * dur * (1.0 if together else rng.choice([1.0, 1.0, 0.5, 1.5, 3.0]))
                add_exec(t, h, flops, 0.0, 1.0, threads)
                tmax = max(tmax, t)
            est = tmax + dur * max(1.0, k * threads / float(n))     # rough date of the last completion at full speed
            for _ in range(rng.range(1, 3) if len(h["speeds"]) > 1 else 0):
                t = rng.choice([0.0, est * 0.25, est * 0.5, est, rnd_time(rng, est), rnd_time(rng, est)])
                ops.append((t, "pstate %s %d" % (h["name"], rng.below(len(h["speeds"])))))
                sc["feats"].add("pstate-change")
            if threads > 1:
                sc["feats"].add("multi-thread")
            sc["feats"].add("k*t<=n" if k * threads <= n else "k*t>n")
            if n > 1 and k > 1 and (h["prof"] or len(h["speeds"]) > 1):
                sc["feats"].add("speed-change+multicore+concurrent")
    if klass in ("execs", "mixed", "boundary"):
        ne = rng.range(1, 6) if klass != "mixed" else rng.range(1, 3)
        for _ in range(ne):
            h = rng.choice(hosts)
            dur = rng.choice([1.0, 2.0, 0.5, 4.0, 10.0, 0.001])
            flops = h["speed"] * dur * rng.choice([1.0, 1.0, 0.5, 1.5, 3.0])
            if rng.chance(1, 10):
                flops = 0.0
                sc["feats"].add("zero-cost")
            t = rnd_time(rng, 4) if rng.chance(1, 2) else 0.0
            bound = 0.0
            if not ti_ok and rng.chance(1, 3):
                bound = h["speed"] * rng.choice([0.5, 0.25, 0.9, 2.0])
                sc["feats"].add("bound")
            prio = rng.choice([1.0, 1.0, 2.0, 0.5, 4.0])
            if prio != 1.0:
                sc["feats"].add("priority")
            threads = 1
            if h["cores"] > 1 and rng.chance(1, 4):
                threads = rng.range(2, h["cores"])
                sc["feats"].add("multi-thread")
            i = add_exec(t, h, flops, bound, prio, threads)
            sc["bnd"] = h["speed"]
            controls(i, t, dur, "e")
    if klass in ("comms", "mixed", "boundary") and routes:
        nc = rng.range(1, 5) if klass == "comms" else rng.range(1, 2)
        pairs = sorted(routes.keys())
        for _ in range(nc):
            a, b = rng.choice(pairs)
            ls = routes[(a, b)]
            bw = min(l["bw"] for l in links if l["name"] in ls)
            lat = sum(l["lat"] for l in links if l["name"] in ls)
            dur = rng.choice([1.0, 2.0, 0.5, 0.01])
            size = int(bw * dur * rng.choice([1.0, 0.5, 2.0]))
            if rng.chance(1, 12):
                size = 0
                sc["feats"].add("zero-cost")
            # staggered starts: a latency phase (13.01*lat under LV08) ends while another comm is in its data phase
            t = rng.choice([0.0, 0.0, lat * 13.01 / 2, dur / 2, rnd_time(rng, 2)])
            rate = -1.0
            if rng.chance(1, 4):
                rate = bw * rng.choice([0.5, 0.25, 2.0])
                sc["feats"].add("comm-rate")
            i = add_comm(t, a, b, size, rate)
            if lat > 0:
                sc["feats"].add("latency")
            controls(i, t, dur + lat * 13.01, "c")
    if klass in ("ios", "mixed") and disks:
        ni = rng.range(1, 4)
        for _ in range(ni):
            d = rng.choice(disks)
            rw = rng.choice(["r", "w"])
            dur = rng.choice([1.0, 0.5, 2.0])
            size = int(d[rw] * dur * rng.choice([1.0, 0.5, 1.5]))
            t = rng.choice([0.0, 0.0, rnd_time(rng, 2)])
            i = add_io(t, d, size, rw)
            controls(i, t, dur, "i")
    ops.sort(key=lambda o: o[0])          # stable: program order among equal dates
    sc["ops"] = ["X %s %s" % (fx(t), txt) for t, txt in ops]
    return sc


def scenario_line(sc, cfg, sample):
    return " ; ".join(["cfg " + (cfg or "-"), "sample %d" % sample] + sc["plat"] + sc["ops"])


def hex_to_rat(tok):
    f = Fraction(float.fromhex(tok))
    return "%d/%d" % (f.numerator, f.denominator) if f.denominator != 1 else "%d" % f.numerator


def is_hex(tok):
    return tok.startswith("0x") or tok.startswith("-0x")


def canon_tokens(ans):
    """hex doubles -> exact rationals; returns None when a non-finite value appears"""
    out = []
    for t in ans.split():
        if is_hex(t):
            out.append(hex_to_rat(t))
        elif t in ("inf", "-inf", "nan", "-nan"):
            return None
        else:
            out.append(t)
    return out


def run_harness(ctx, h, lines, workers=4, timeout=3000):
    """run the forking harness on `lines`, split in `workers` contiguous chunks run concurrently; returns the output
    lines in input order, or None (and ctx.broken) on failure"""
    from concurrent.futures import ThreadPoolExecutor
    if not lines:
        return []
    workers = max(1, min(workers, len(lines) // 8 or 1))
    size = (len(lines) + workers - 1) // workers
    chunks = [lines[i:i + size] for i in range(0, len(lines), size)]

    def one(chunk):
        return ctx.run_lines([h], chunk, timeout=timeout, env={"LD_BIND_NOW": "1"})
    with ThreadPoolExecutor(max_workers=workers) as ex:
        res = list(ex.map(one, chunks))
    out = []
    for chunk, (rc, o, err) in zip(chunks, res):
        if rc != 0 or len(o) != len(chunk):
            ctx.broken.append({"kind": "harness-run", "rc": rc, "stderr": err[-2000:], "lines": len(o)})
            return None
        out += o
    return out


def _num(t):
    return float.fromhex(t) if "x" in t else float(t)


def _rat(x):
    f = Fraction(x)
    return "%d/%d" % (f.numerator, f.denominator) if f.denominator != 1 else "%d" % f.numerator


def _profile_events(period, pts, tend):
    """dates and values of the events of a repeating profile up to `tend` (ProfileBuilder::from_string with a periodicity:
    the point (t_i, v_i) fires at t_i + m*period), exact rationals of the doubles of the description"""
    period = Fraction(period)
    pts = [(Fraction(t), Fraction(v)) for t, v in pts]
    ev, m = [], 0
    while True:
        base = m * period
        if base > tend or (m > 0 and period <= 0):
            break
        for t, v in pts:
            if base + t <= tend:
                ev.append((base + t, v))
        m += 1
    return ev


def _merge(initial, *streams):
    """piecewise-constant product of several (date, value) streams; each stream starts from initial[i] at date 0.
    Among events with the same date of one stream the last one wins (program order)."""
    cur = list(initial)
    dates = sorted(set([Fraction(0)] + [t for st in streams for t, _ in st]))
    idx = [0] * len(streams)
    out = []
    for d in dates:
        for i, st in enumerate(streams):
            while idx[i] < len(st) and st[idx[i]][0] <= d:
                cur[i] = st[idx[i]][1]
                idx[i] += 1
        v = Fraction(1)
        for c in cur:
            v *= c
        if not out or out[-1][1] != v:
            out.append((d, v))
    return out


def platform_tokens(line, tend):
    """What the monitor must know about the PLATFORM, derived from the scenario description alone (never from the kernel):
      CAP rid mult t0:v0,t1:v1,...   capacity of resource rid = mult * v(t), v piecewise constant from t_i on.
                                     Host: mult = cores, v = speed of the pstate in force (X .. pstate ops) * scale of the
                                     speed profile in force; link: mult = 1, v = bandwidth (profile values are absolute)
      EQH host threads               every exec ever started on that host uses `threads` cores, has no bound, priority 1 and
                                     is never suspended / re-bound / re-prioritised: at any time the k running ones are `k
                                     equal executions`, each must progress at v(t)*min(threads, cores/k)
    `tend`: date of the end of the run (profiles are expanded up to it)."""
    tend = Fraction(tend)
    secs = [sec.split() for sec in line.split(" ; ")]
    out = []
    pst = {}
    execs, touched = {}, set()
    for t in secs:
        if t and t[0] == "X":
            if t[2] == "pstate":
                pst.setdefault(t[3], []).append((Fraction(_num(t[1])), int(t[4])))
            elif t[2] == "exec":
                execs.setdefault(t[4], []).append((t[3], _num(t[6]), _num(t[7]), int(t[8])))
            elif t[2] in ("susp", "res", "bound", "prio"):
                touched.add(t[3])
    for t in secs:
        if not t:
            continue
        if t[0] == "H":
            speeds = [Fraction(_num(x)) for x in t[2].split(",")]
            peak = [(d, speeds[i]) for d, i in sorted(pst.get(t[1], []), key=lambda e: e[0]) if d <= tend]
            scale = _profile_events(_num(t[4]), [tuple(_num(x) for x in p.split(":")) for p in t[5].split(",")], tend) \
                if len(t) > 5 else []
            tl = _merge([speeds[0], Fraction(1)], peak, scale)
            out += ["CAP", t[1], t[3], ",".join("%s:%s" % (_rat(d), _rat(v)) for d, v in tl)]
            ex = execs.get(t[1], [])
            if ex and all(b <= 0 and p == 1.0 and th == ex[0][3] for _, b, p, th in ex) \
                    and not any(i in touched for i, _, _, _ in ex):
                out += ["EQH", t[1], str(ex[0][3])]
        elif t[0] == "L":
            bw = _profile_events(_num(t[5]), [tuple(_num(x) for x in p.split(":")) for p in t[6].split(",")], tend) \
                if len(t) > 6 else []
            # a bandwidth profile gives absolute values: the stream replaces the initial bandwidth
            tl = _merge([Fraction(_num(t[2]))], bw)
            out += ["CAP", t[1], "1", ",".join("%s:%s" % (_rat(d), _rat(v)) for d, v in tl)]
    return out


def witness_classes(line, cfg):
    """{activity: set of witness-class keys} — stable classification of the defect classes found by C19/C21, all FIXED in
    the library since (NOTES.md; the descriptions are those of the code before the fixes).  A disagreement in one of these
    classes is now reported as a plain violation; the class only names the regression:
      noop-penalty   (cpu Lazy) Exec::update_priority() with the current priority, or a priority change while suspended
                     followed by resume(): update_variable_penalty() is a no-op but the heap entry is dropped
      bw-latency     a link with a bandwidth profile on the route of a comm that pays a latency: set_bandwidth() enables the
                     variable during the latency phase (and, Lazy, nothing re-inserts it in the heap at the end of the latency)
      ti-suspend     (cpu TI) suspend / resume / priority change: CpuTiAction does not bring `remains` up to date first"""
    secs = [sec.split() for sec in line.split(" ; ")]
    lazy_cpu, ti = is_lazy_cpu(cfg), "cpu/optim:TI" in cfg
    prof_links = set(t[1] for t in secs if t and t[0] == "L" and len(t) > 6)
    lat = dict((t[1], _num(t[3])) for t in secs if t and t[0] == "L")
    routes = {}
    for t in secs:
        if t and t[0] == "R":
            routes[(t[1], t[2])] = routes[(t[2], t[1])] = t[3].split(",")
    res = {}
    prio, susp = {}, {}
    for t in secs:
        if not t or t[0] != "X":
            continue
        k, a = t[2], t[3]
        if k == "exec":
            # ExecImpl::start() applies the priority only to single-thread execs; execute_thread() leaves the LMM penalty
            # at 1/threads (variable_new), i.e. "priority = threads" as far as update_variable_penalty() is concerned
            prio[a] = float(int(t[8])) if int(t[8]) > 1 else _num(t[7])
        elif k == "comm":
            r = routes.get((t[4], t[5]), [])
            if any(l in prof_links for l in r) and sum(lat[l] for l in r) > 0:
                res.setdefault(a, set()).add("bw-latency")
        elif k == "susp":
            susp[a] = "s"
            if ti:
                res.setdefault(a, set()).add("ti-suspend")
        elif k == "res":
            if susp.get(a) == "sp" and lazy_cpu:
                res.setdefault(a, set()).add("noop-penalty")
            susp[a] = ""
        elif k == "prio" and a in prio:
            if ti:
                res.setdefault(a, set()).add("ti-suspend")
            if prio[a] == _num(t[4]) and lazy_cpu:
                res.setdefault(a, set()).add("noop-penalty")
            prio[a] = _num(t[4])
            if susp.get(a):
                susp[a] = "sp"
    return res


def is_lazy_cpu(cfg):
    return "cpu/optim:Full" not in cfg and "cpu/optim:TI" not in cfg


def build_harness(ctx):
    """the shared harness"""
    import os
    src = os.path.join(os.path.dirname(os.path.abspath(__file__)), "fluid_harness.cpp")
    return ctx.build_harness(src, name="fluid_harness")
