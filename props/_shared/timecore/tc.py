"""Shared by props/C03 and props/C12: generators of time-core programs, canonicalisation of the harness log
(%a doubles -> exact rationals), the run pipeline (harness -> driver) and the decision logic.

Program grammar: see harness.cpp.  Every random choice derives from SplitMix(seed)."""
import json
import os
from fractions import Fraction

HERE = os.path.dirname(os.path.abspath(__file__))
G = 1024                      # grid: dates k/1024
SUB = 2 ** 32                 # finest step of the platform: 2^-32 s (speeds and bandwidths are 2^32)
LAT = Fraction(1, 1024)       # latency of the private links
PREC = Fraction(1, 2 ** 30)   # --cfg=precision/timing used by the harness (dyadic)


def rs(f):
    f = Fraction(f)
    return str(f.numerator) if f.denominator == 1 else "%d/%d" % (f.numerator, f.denominator)


def fr(h):
    return rs(Fraction(float.fromhex(h)))


def canon(line):
    """harness line -> driver line (hexfloats -> p/q)"""
    if " => " not in line:
        return line
    q, a = line.split(" => ", 1)
    if a.startswith("CRASH") or a.startswith("BADPROG"):
        return line
    evs = []
    for e in a.split(" ; "):
        t, ac, w, v = e.split()
        if w == "times":
            k, s, f = v.split(",")
            v = "%s,%s,%s" % (k, fr(s), fr(f))
        elif w == "dur":
            v = fr(v)
        evs.append("%s %s %s %s" % (fr(t), ac, w, v))
    return q + " => " + " ; ".join(evs)


# ------------------------------------------------------------------------------------------------ generators
class Gen:
    """one program; `style` biases the phrases: 'c03' sleeps/timers/kill, 'c12' timed waits, 'mix' both"""

    def __init__(self, rng, style):
        self.r = rng
        self.style = style
        self.next_timed = 0
        self.next_mess = 100
        self.nongrid = rng.chance(1, 3)         # allow sub-precision values / 2^-32 offsets in this program
        self.base = [Fraction(k, G) for k in (1, 2, 3, 512, 1024, 1536, 2048, 3072)]
        # a small pool per program so that dates coincide across actors
        self.pool = [rng.choice(self.base) for _ in range(3)] + [Fraction(rng.range(1, 4096), G)]
        self.tags = set()
        self.kind_of = {}

    def dur(self):
        return self.r.choice(self.pool)

    def subprec(self):
        return Fraction(self.r.choice([1, 2, 3]), SUB)

    def sleepdur(self):
        r = self.r
        k = r.below(12)
        if k == 0:
            self.tags.add("sleep0")
            return Fraction(0)
        if k == 1:
            self.tags.add("sleepneg")
            return Fraction(-1, 2)
        if k == 2 and self.nongrid:
            self.tags.add("sleepsub")
            return self.subprec()
        if k == 3 and self.nongrid:
            self.tags.add("sleepoff")
            return self.dur() + self.r.choice([-1, 1]) * self.subprec()
        return self.dur()

    def actdur(self, kind):
        r = self.r
        d = self.dur()
        k = r.below(10)
        if k == 0 and kind != "c":
            self.tags.add("dur0")
            d = Fraction(0)
        elif k == 1 and self.nongrid:
            self.tags.add("dursub")
            d = self.subprec() if kind != "c" else LAT + self.subprec()
        elif k == 2 and self.nongrid:
            self.tags.add("duroff")
            d = d + r.choice([-1, 1]) * self.subprec()
        if kind == "c" and d <= LAT:
            d = LAT + Fraction(1, G)
        return d

    def deadline(self, d):
        """timeout placed before / at / after the natural duration d (None: unknown, e.g. mess)"""
        r = self.r
        if d is None:
            return r.choice([Fraction(0), self.dur(), self.dur()])
        k = r.below(10)
        if k <= 2:
            self.tags.add("dl_eq")
            return d
        if k == 3:
            self.tags.add("dl_minus_ulp")
            return max(Fraction(0), d - Fraction(1, G))
        if k == 4:
            self.tags.add("dl_plus_ulp")
            return d + Fraction(1, G)
        if k == 5:
            self.tags.add("dl_0")
            return Fraction(0)
        if k == 6 and self.nongrid:
            self.tags.add("dl_sub")
            return max(Fraction(0), d + r.choice([-1, 1]) * self.subprec())
        if k == 7:
            return Fraction((d * G / 2).__floor__(), G)      # stay on the 2^-32 lattice of the platform (integer bytes)
        return self.dur()

    def timed_phrase(self, ops, st):
        """start 1-3 activities, maybe sleep, then wait them in some way"""
        r = self.r
        n = 1 if r.chance(2, 3) else r.range(2, 3)
        started = []
        for _ in range(n):
            if self.next_timed >= 12:
                break
            k = self.next_timed
            self.next_timed += 1
            kind = r.choice(["e", "e", "c", "i"])
            d = self.actdur(kind)
            ops.append("X %d %s %s" % (k, kind, rs(d)))
            started.append((k, d))
            self.kind_of[k] = kind
        if not started:
            return
        elapsed = Fraction(0)
        if r.chance(1, 4):
            s = self.sleepdur()
            ops.append("S %s" % rs(s))
            if s > 0:
                elapsed = max(s, PREC)
            self.tags.add("sleep_between")
        mode = r.below(8)
        if len(started) > 1 or mode == 0:
            # wait_any_for over the started ones (plus maybe an already finished one)
            ks = [k for k, _ in started]
            if st["finished"] and r.chance(1, 3):
                ks.insert(r.below(len(ks) + 1), r.choice(st["finished"]))
                self.tags.add("any_with_done")
            r.shuffle(ks)
            dmin = min(d for _, d in started)
            tau = Fraction(-1) if r.chance(1, 5) else self.deadline(max(Fraction(0), dmin - elapsed))
            ops.append("A %s %d %s" % (rs(tau), len(ks), " ".join(map(str, ks))))
            self.tags.add("any")
            if r.chance(1, 2):
                ops.append("A %s %d %s" % (rs(self.deadline(None)), len(ks), " ".join(map(str, ks))))
                self.tags.add("any_again")
            for k, _ in started:
                if r.chance(2, 3):
                    ops.append(r.choice(["W %d", "T %d"]) % k)
            st["finished"] += [k for k, _ in started]   # "possibly finished": only used for any_with_done
            return
        k, d = started[0]
        rem = max(Fraction(0), d - elapsed)
        if mode <= 3:
            ops.append("F %d %s" % (k, rs(self.deadline(rem))))
            self.tags.add("waitfor")
            nxt = r.below(5)
            if nxt == 0:
                ops.append("S %s" % rs(self.sleepdur()))
                ops.append("T %d" % k)
            elif nxt == 1:
                ops.append("F %d %s" % (k, rs(self.deadline(None))))
                self.tags.add("waitfor_again")
            elif nxt == 2:
                ops.append("W %d" % k)
                st["finished"].append(k)
            elif nxt == 3:
                ops.append("T %d" % k)
        elif mode <= 5:
            ops.append("C %d %s" % (k, rs(self.deadline(rem))))
            self.tags.add("waitfor_or_cancel")
            if r.chance(1, 2):
                # the slot's resources must be free again: reuse them
                kind = self.kind_of[k]        # same kind = same private resource: it must be free again
                d2 = self.actdur(kind)
                ops.append("X %d %s %s" % (k, kind, rs(d2)))
                ops.append("W %d" % k)
                self.tags.add("reuse_after_cancel")
            elif r.chance(1, 2):
                ops.append("T %d" % k)
        elif mode == 6:
            ops.append("T %d" % k)
            ops.append("W %d" % k)
            ops.append("T %d" % k)
            st["finished"].append(k)
        else:
            ops.append("W %d" % k)
            st["finished"].append(k)
            if r.chance(1, 3):
                ops.append("F %d %s" % (k, rs(self.deadline(None))))
                self.tags.add("waitfor_on_finished")

    def program(self):
        r = self.r
        na = r.range(1, 4)
        progs = [[] for _ in range(na)]
        sts = [{"finished": []} for _ in range(na)]
        # message exchanges between pairs of actors are laid out first as (actor, position-independent) phrases
        mess = []
        if na >= 2 and r.chance(2, 5 if self.style != "c03" else 4):
            for _ in range(r.range(1, 2)):
                a, b = r.range(0, na - 1), r.range(0, na - 1)
                if a == b:
                    b = (a + 1) % na
                mess.append((a, b, r.below(2)))
        for a in range(na):
            ops = progs[a]
            if r.chance(1, 4 if self.style != "c12" else 8):
                t = r.choice([self.dur(), self.dur() + self.dur(), self.dur() / 2, Fraction(0)])
                ops.append("K %s" % rs(t))
                self.tags.add("kill")
            nph = r.range(1, 4)
            for _ in range(nph):
                x = r.below(10)
                sl = 6 if self.style == "c03" else (2 if self.style == "c12" else 4)
                if x < sl:
                    ops.append("S %s" % rs(self.sleepdur()))
                else:
                    self.timed_phrase(ops, sts[a])
        for (a, b, q) in mess:
            # a: get (+ timed wait), b: put after a sleep
            ka = self.next_mess
            kb = self.next_mess + 1
            self.next_mess += 2
            self.tags.add("mess")
            d = self.dur()
            ga = ["G %d %d" % (ka, q)]
            m = r.below(6)
            tau = r.choice([d, d, max(Fraction(0), d - Fraction(1, G)), d + Fraction(1, G), Fraction(0), self.dur()])
            if m <= 2:
                ga.append("F %d %s" % (ka, rs(tau)))
                self.tags.add("mess_waitfor")
                ga.append(r.choice(["S %s" % rs(self.dur() * 2), "W %d" % ka, "T %d" % ka, "F %d %s" % (ka, rs(self.dur()))]))
            elif m == 3:
                ga.append("A %s 1 %d" % (rs(tau), ka))
                self.tags.add("mess_any")
                ga.append("S %s" % rs(self.dur()))
                ga.append("T %d" % ka)
            elif m == 4:
                ga.append("C %d %s" % (ka, rs(tau)))
                self.tags.add("mess_cancel")
            else:
                ga.append("S %s" % rs(d))
                ga.append("T %d" % ka)
            pb = ["S %s" % rs(d), "U %d %d" % (kb, q)]
            if r.chance(1, 2):
                pb.append(r.choice(["W %d", "T %d", "F %d 0"]) % kb)
            # splice the phrases at random op boundaries
            pa = r.below(len(progs[a]) + 1)
            progs[a][pa:pa] = ga
            pbp = r.below(len(progs[b]) + 1)
            progs[b][pbp:pbp] = pb
        return "prog | " + " | ".join(" ".join(p) for p in progs)


def gen_programs(rng, n, style):
    out = []
    tags = {}
    for i in range(n):
        g = Gen(rng.fork(i), style)
        out.append(g.program())
        for t in g.tags:
            tags[t] = tags.get(t, 0) + 1
    return out, tags


# ------------------------------------------------------------------------------------------------ classification
def classify(driver_line):
    """coverage classes measured on the implementation's log (which branches of the kernel were exercised)"""
    q, a = driver_line.split(" => ", 1)
    cls = set()
    evs = [e.split() for e in a.split(" ; ")]
    dates = {}
    for t, ac, w, v in evs:
        if ac != "-1":
            dates.setdefault(t, set()).add(ac)
        if w == "wait" and v.endswith("timeout"):
            cls.add("wait_timeout")
        if w == "wait" and v.endswith("ok"):
            cls.add("wait_ok")
        if w == "any":
            cls.add("any_timeout" if v == "timeout" else "any_index")
        if w == "killed":
            cls.add("killed")
        if w == "test":
            cls.add("test_" + v.split(",")[1])
        if w == "state" and v.endswith("CANCELED"):
            cls.add("canceled")
    if any(len(s) > 1 for s in dates.values()):
        cls.add("coinciding_dates_across_actors")
    if any(Fraction(t).denominator > G for t in dates):
        cls.add("offgrid_dates")
    return cls


# ------------------------------------------------------------------------------------------------ pipeline
KNOWN_KEYS = {}


def run_cases(ctx, h, drv, queries, tagname):
    """harness (8 processes in parallel, one forked child per program) -> canon -> driver;
    returns list of (query, canon line, verdict)"""
    from concurrent.futures import ThreadPoolExecutor
    B = 16
    chunks = [queries[off:off + B] for off in range(0, len(queries), B)]

    def one(chunk):
        # rc 127 = the shared libsimgrid.so is being re-linked by another check's ensure_simgrid: wait and retry
        for attempt in range(6):
            rc, out, err = ctx.run_lines([h], chunk, timeout=1200)
            out = [l for l in out if " => " in l]
            if rc != 127 and "error while loading shared libraries" not in err:
                break
            import time
            time.sleep(20)
        return rc, out, err, chunk

    lines = []
    with ThreadPoolExecutor(max_workers=8) as ex:
        for rc, out, err, chunk in ex.map(one, chunks):
            if rc != 0 or len(out) != len(chunk):
                ctx.broken.append({"kind": "harness-run", "rc": rc, "stderr": err[-1500:], "lines": len(out), "want": len(chunk)})
                return []
            lines += [canon(l) for l in out]
    rc, verdicts, err = ctx.run_lines([drv], lines, timeout=2400)
    if rc != 0 or not verdicts or verdicts[-1] != "END %d" % len(lines):
        ctx.broken.append({"kind": "driver-run", "rc": rc, "stderr": err[-1500:], "tail": verdicts[-2:]})
        return []
    return list(zip(queries, lines, verdicts))


def calibrate(ctx, h):
    """the platform arithmetic: an activity alone on its private resources lasts exactly the duration asked for"""
    qs = ["calib e 1/4", "calib e 1/4294967296", "calib e 0", "calib c 3/1024", "calib c 4194305/4294967296",
          "calib i 1/2", "calib i 3/4294967296", "calib i 0", "calib e 4095/1024", "calib c 4095/1024"]
    for attempt in range(6):
        rc, out, err = ctx.run_lines([h], qs)
        if rc != 127 and "error while loading shared libraries" not in err:
            break
        import time
        time.sleep(20)
    ok = rc == 0 and len(out) == len(qs)
    if ok:
        for q, l in zip(qs, out):
            want = Fraction(q.split()[2])
            got = canon(l).split(" => ")[1].split(" ; ")[0].split()
            if got[2] != "dur" or Fraction(got[3]) != want:
                ok = False
                ctx.broken.append({"kind": "calibration", "query": q, "got": l})
    else:
        ctx.broken.append({"kind": "calibration-run", "rc": rc, "stderr": err[-1000:]})
    return ok


def key_of(verdict):
    """stable classification key of a monitor failure"""
    v = verdict
    for pat, key in [("sleep not exact", "sleep-not-exact"), ("timeout not at exactly", "timeout-date"),
                     ("timeout although the activity completes", "timeout-despite-completion-by-deadline"),
                     ("wait_any_for timeout not at", "waitany-timeout-date"),
                     ("timeout although an activity completed before", "waitany-missed-completion"),
                     ("kill time", "kill-time"), ("clock decreases", "clock-decreases"),
                     ("did not cancel", "wait-for-or-cancel-no-cancel"), ("crashed", "crash")]:
        if pat in v:
            return key
    return None


def decide(ctx, results, ncorpus):
    kinds = {}
    seen = set()
    classes = {}
    for idx, (q, l, v) in enumerate(results):
        ctx.cov["evaluations"] += 1
        if v == "ok":
            ctx.cov["traces_validated_against_impl"] += 1
            cl = classify(l)
            for c in cl:
                classes[c] = classes.get(c, 0) + 1
            if q not in seen and len(cl) > 0:
                seen.add(q)
                ctx.cov["distinct_nontrivial"] += 1
        elif v.startswith("MONFAIL"):
            ctx.violation(v, {"query": q, "impl": l, "verdict": v}, key=key_of(v))
        elif v.startswith("DISAGREE"):
            # the monitor holds on this log but the model (= the code as it was proved about) cannot produce it: the
            # correspondence is broken on this input (guide §5); run_property then searches harder for a failing input
            if len([b for b in ctx.broken if b.get("kind") == "disagree"]) < 5:
                ctx.broken.append({"kind": "disagree", "query": q, "impl": l[:1500], "verdict": v[:600]})
            else:
                ctx.cov["more_disagreements"] = ctx.cov.get("more_disagreements", 0) + 1
        else:
            ctx.broken.append({"kind": "badline", "query": q, "verdict": v[:300]})
    ctx.cov["classes_hit"] = classes
    ctx.cov["samples"] = [r[1][:400] for r in results[:2]] + [r[1][:400] for r in results[ncorpus:ncorpus + 3]]


def run_property(ctx, style, n_quick, n_thorough):
    ctx.ensure_simgrid(["simgrid"])
    ctx.lean_prove()
    drv = ctx.lean_exe()
    h = ctx.build_harness(os.path.join(HERE, "harness.cpp"), name="timecore")
    if not (drv and h):
        return
    if not calibrate(ctx, h):
        return
    corpus = [l.strip() for l in open(os.path.join(ctx.pdir, "corpus.txt")) if l.strip() and not l.startswith("#")]
    if ctx.replay:
        rep = json.load(open(ctx.replay))
        if "case" in rep:
            queries = [rep["case"]["query"]]
        else:       # replay file of a broken correspondence: the disagreeing programs
            queries = [b["query"] for b in rep.get("broken", []) if isinstance(b, dict) and "query" in b]
        corpus = []
    else:
        from vlib.core import SplitMix
        n = n_quick if ctx.tier == "quick" else n_thorough
        if ctx.broken:
            n *= 10
        progs, tags = gen_programs(SplitMix(ctx.seed), n, style)
        ctx.cov["generator_tags"] = tags
        queries = corpus + progs
    results = run_cases(ctx, h, drv, queries, style)
    decide(ctx, results, len(corpus))
    if ctx.broken and not ctx.violations and not ctx.replay:
        # search mode: proof / build / correspondence broke without a failing input: look harder (5x more programs
        # of all three styles) for an input on which the implementation fails the monitor
        from vlib.core import SplitMix
        n = (n_quick if ctx.tier == "quick" else n_thorough) * 5 // 3
        extra = []
        for j, st in enumerate(("c03", "c12", "mix")):
            extra += gen_programs(SplitMix(ctx.seed).fork(1000 + j), n, st)[0]
        saved = list(ctx.broken)
        for q, l, v in run_cases(ctx, h, drv, extra, "search"):
            ctx.cov["evaluations"] += 1
            if v.startswith("MONFAIL"):
                ctx.violation(v, {"query": q, "impl": l, "verdict": v}, key=key_of(v))
        ctx.broken[:] = saved + [b for b in ctx.broken if b not in saved]
        ctx.cov["search_mode_programs"] = len(extra)
