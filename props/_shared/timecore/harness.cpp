// Shared harness of C03 / C12: interpreter of generated *time-core programs* through the public S4U API.
//
// stdin : one program per line (see props/_shared/timecore/README in NOTES.md of C03 for the grammar)
//           prog | <ops of actor 0> | <ops of actor 1> | ...
//         ops (blank separated tokens; rationals are p/q with q a power of two, exactly representable):
//           S d            this_actor::sleep_for(d)
//           X k e|c|i d    start activity in slot k: exec / host-to-host comm / disk write whose duration *alone on its
//                          private resources* is d (the harness turns d into flops / bytes for the slot's resources)
//           G k q | U k q  MessageQueue q: get_async / put_async into slot k
//           W k            wait()                      F k tau   wait_for(tau)        C k tau   wait_for_or_cancel(tau)
//           A tau n k1..kn ActivitySet{k1..kn}.wait_any_for(tau)   (tau = -1: no timeout)
//           T k            test()
//           K t            Actor::self()->set_kill_time(t)   (absolute date)
//         calib e|c|i d    measure the duration of one such activity alone (calibration of the platform arithmetic)
// stdout: `<line> => <event>;<event>;...` with event = `<clock %a> <actor> <what> <value>`
//         every program runs in a forked child (one s4u::Engine per process); a crash gives `=> CRASH <status>`.
#include <simgrid/Exception.hpp>
#include <simgrid/s4u.hpp>
#include <cstdio>
#include <cstring>
#include <iostream>
#include <map>
#include <sstream>
#include <string>
#include <sys/wait.h>
#include <unistd.h>
#include <vector>
namespace sg4 = simgrid::s4u;

static const int NSLOT   = 12;
static const double SPEED = 4294967296.0; // 2^32 flops/s, 2^32 B/s: durations are multiples of 2^-32 s
static const double LAT   = 0.0009765625; // 2^-10 s on every private link

struct Op {
  char c;
  int k = -1, q = -1;
  char kind = 0;
  double d  = 0;
  std::vector<int> ks;
};

static double rat(const std::string& s)
{
  auto p = s.find('/');
  if (p == std::string::npos)
    return std::stod(s);
  return std::stod(s.substr(0, p)) / std::stod(s.substr(p + 1));
}

static std::vector<std::string> events;
static void ev(int actor, const std::string& what, const std::string& val)
{
  char buf[256];
  snprintf(buf, sizeof buf, "%a %d %s %s", sg4::Engine::get_clock(), actor, what.c_str(), val.c_str());
  events.emplace_back(buf);
}
static std::string hx(double d)
{
  char buf[64];
  snprintf(buf, sizeof buf, "%a", d);
  return buf;
}

static std::vector<sg4::Host*> hE, hCa, hCb;
static std::vector<sg4::Disk*> disks;
static sg4::Host* hA;
static std::vector<sg4::MessageQueue*> queues; // created before the run: MessageQueue::by_name is itself a simcall

static sg4::ActivityPtr start_activity(char kind, int k, double d)
{
  if (kind == 'e') {
    sg4::ExecPtr x = sg4::Exec::init();
    x->set_flops_amount(d * SPEED)->set_host(hE[k]);
    x->start();
    return x;
  } else if (kind == 'c') {
    // natural duration = LAT + bytes / 2^32
    auto bytes = static_cast<uint64_t>((d - LAT) * SPEED);
    sg4::CommPtr c = sg4::Comm::sendto_async(hCa[k], hCb[k], bytes);
    return c;
  } else {
    sg4::IoPtr io = disks[k]->io_init(static_cast<sg_size_t>(d * SPEED), sg4::Io::OpType::WRITE);
    io->start();
    return io;
  }
}

static std::string excname(const std::exception& e)
{
  if (dynamic_cast<const simgrid::TimeoutException*>(&e))
    return "timeout";
  if (dynamic_cast<const simgrid::CancelException*>(&e))
    return "cancel";
  if (dynamic_cast<const simgrid::HostFailureException*>(&e))
    return "hostfailure";
  if (dynamic_cast<const simgrid::NetworkFailureException*>(&e))
    return "networkfailure";
  if (dynamic_cast<const simgrid::StorageFailureException*>(&e))
    return "storagefailure";
  return "other";
}

static void* const PAYLOAD = (void*)&events;

static void actor_body(int me, std::vector<Op> ops)
{
  // the activities outlive the actor (the child leaves with _exit): destroying a still running s4u::Comm at the end of
  // the actor is a misuse of the API that the library answers with a backtrace, not something this check is about
  static std::vector<std::map<int, sg4::ActivityPtr>*> keep;
  keep.push_back(new std::map<int, sg4::ActivityPtr>());
  std::map<int, sg4::ActivityPtr>& act = *keep.back();
  std::map<int, char> kind;
  std::map<int, void*> slotbuf;
  sg4::this_actor::on_exit([me](bool failed) { ev(me, failed ? "killed" : "end", "-"); });
  auto times = [&](int k) {
    if (kind[k] == 'e' || kind[k] == 'c' || kind[k] == 'i')
      ev(me, "times", std::to_string(k) + "," + hx(act[k]->get_start_time()) + "," + hx(act[k]->get_finish_time()));
  };
  for (const Op& op : ops) {
    switch (op.c) {
      case 'S':
        sg4::this_actor::sleep_for(op.d);
        ev(me, "slept", "-");
        break;
      case 'X':
        act[op.k]  = start_activity(op.kind, op.k, op.d);
        kind[op.k] = op.kind;
        ev(me, "started", std::to_string(op.k));
        break;
      case 'G':
        act[op.k]  = queues.at(op.q)->get_async<void>(&slotbuf[op.k]);
        kind[op.k] = 'g';
        ev(me, "started", std::to_string(op.k));
        break;
      case 'U':
        act[op.k]  = queues.at(op.q)->put_async(PAYLOAD);
        kind[op.k] = 'u';
        ev(me, "started", std::to_string(op.k));
        break;
      case 'W':
      case 'F':
      case 'C': {
        std::string res = "ok";
        try {
          if (op.c == 'W')
            act[op.k]->wait();
          else if (op.c == 'F')
            act[op.k]->wait_for(op.d);
          else
            act[op.k]->wait_for_or_cancel(op.d);
        } catch (const simgrid::Exception& e) {
          res = excname(e);
        }
        ev(me, "wait", std::to_string(op.k) + "," + res);
        if (res == "ok")
          times(op.k);
        if (op.c == 'C')
          ev(me, "state", std::to_string(op.k) + "," + act[op.k]->get_state_str());
        break;
      }
      case 'A': {
        sg4::ActivitySet set;
        for (int k : op.ks)
          set.push(act[k]);
        std::string res;
        try {
          sg4::ActivityPtr r = set.wait_any_for(op.d);
          res                = "?";
          for (int k : op.ks)
            if (act[k] == r) {
              res = std::to_string(k);
              break;
            }
        } catch (const simgrid::Exception& e) {
          res = excname(e);
        }
        ev(me, "any", res);
        break;
      }
      case 'T': {
        std::string res;
        try {
          res = act[op.k]->test() ? "1" : "0";
        } catch (const simgrid::Exception& e) {
          res = excname(e);
        }
        ev(me, "test", std::to_string(op.k) + "," + res);
        break;
      }
      case 'K':
        sg4::Actor::self()->set_kill_time(op.d);
        ev(me, "killat", "-");
        break;
      default:
        break;
    }
  }
}

static bool parse(const std::string& line, std::vector<std::vector<Op>>& progs)
{
  std::istringstream in(line);
  std::string tok;
  in >> tok;
  if (tok != "prog")
    return false;
  std::vector<Op>* cur = nullptr;
  while (in >> tok) {
    if (tok == "|") {
      progs.emplace_back();
      cur = &progs.back();
      continue;
    }
    if (cur == nullptr)
      return false;
    Op op;
    op.c = tok[0];
    std::string a, b, c;
    switch (op.c) {
      case 'S':
      case 'K':
        in >> a;
        op.d = rat(a);
        break;
      case 'X':
        in >> a >> b >> c;
        op.k    = std::stoi(a);
        op.kind = b[0];
        op.d    = rat(c);
        break;
      case 'G':
      case 'U':
        in >> a >> b;
        op.k = std::stoi(a);
        op.q = std::stoi(b);
        break;
      case 'W':
      case 'T':
        in >> a;
        op.k = std::stoi(a);
        break;
      case 'F':
      case 'C':
        in >> a >> b;
        op.k = std::stoi(a);
        op.d = rat(b);
        break;
      case 'A': {
        in >> a >> b;
        op.d  = rat(a);
        int n = std::stoi(b);
        for (int i = 0; i < n; i++) {
          in >> c;
          op.ks.push_back(std::stoi(c));
        }
        break;
      }
      default:
        return false;
    }
    cur->push_back(op);
  }
  return true;
}

static void build_platform(sg4::Engine& e)
{
  auto* root = e.get_netzone_root();
  hA         = root->add_host("A", SPEED);
  for (int k = 0; k < NSLOT; k++) {
    std::string s = std::to_string(k);
    hE.push_back(root->add_host("E" + s, SPEED));
    hCa.push_back(root->add_host("Ca" + s, SPEED));
    hCb.push_back(root->add_host("Cb" + s, SPEED));
    auto* l = root->add_link("L" + s, SPEED)->set_latency(LAT);
    root->add_route(hCa[k], hCb[k], {l});
    disks.push_back(hE[k]->add_disk("D" + s, SPEED, SPEED));
  }
  root->seal();
  for (int q = 0; q < 4; q++)
    queues.push_back(sg4::MessageQueue::by_name("q" + std::to_string(q)));
}

static int child(const std::string& line)
{
  std::vector<std::string> args = {"harness",
                                   "--log=root.thres:critical",
                                   "--cfg=precision/timing:9.313225746154785e-10", // 2^-30: a dyadic timing precision
                                   "--cfg=network/model:CM02",
                                   "--cfg=network/crosstraffic:0",
                                   "--cfg=network/TCP-gamma:0"};
  std::vector<char*> argv;
  for (auto& a : args)
    argv.push_back(a.data());
  int argc = static_cast<int>(argv.size());
  argv.push_back(nullptr);
  sg4::Engine e(&argc, argv.data());
  build_platform(e);

  std::istringstream in(line);
  std::string first;
  in >> first;
  if (first == "calib") {
    std::string kind, d;
    in >> kind >> d;
    double dur = rat(d);
    char kd    = kind[0];
    hA->add_actor("a0", [kd, dur]() {
      double t0 = sg4::Engine::get_clock();
      auto a    = start_activity(kd, 0, dur);
      a->wait();
      ev(0, "dur", hx(sg4::Engine::get_clock() - t0));
    });
  } else {
    std::vector<std::vector<Op>> progs;
    if (not parse(line, progs)) {
      printf("%s => BADPROG\n", line.c_str());
      return 0;
    }
    for (size_t i = 0; i < progs.size(); i++)
      hA->add_actor("a" + std::to_string(i), actor_body, static_cast<int>(i), progs[i]);
  }
  e.run();
  std::string out = line + " =>";
  for (size_t i = 0; i < events.size(); i++)
    out += (i ? " ; " : " ") + events[i];
  out += " ; " + hx(sg4::Engine::get_clock()) + " -1 simend -";
  printf("%s\n", out.c_str());
  fflush(stdout);
  return 0;
}

int main()
{
  std::string line;
  while (std::getline(std::cin, line)) {
    if (line.empty())
      continue;
    fflush(stdout);
    pid_t pid = fork();
    if (pid == 0) {
      int rc = child(line);
      fflush(stdout);
      _exit(rc);
    }
    int status = 0;
    waitpid(pid, &status, 0);
    if (not(WIFEXITED(status) && WEXITSTATUS(status) == 0)) {
      printf("%s => CRASH %d\n", line.c_str(), status);
      fflush(stdout);
    }
  }
  return 0;
}
