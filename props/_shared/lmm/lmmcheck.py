"""Shared correspondence machinery of C15 (capacities) and C16 (fairness): generator of LMM systems + histories,
harness run, canonicalisation (%a -> exact p/q), driver run, decisions.  See props/C15/NOTES.md."""
import json
from fractions import Fraction
from vlib.core import SplitMix

BOUNDS = ["1", "2", "3", "4", "5", "8", "10", "16", "100", "1/2", "3/4", "5/2", "7", "12", "1000"]
WEIGHTS = ["1", "1", "1", "2", "1/2", "1/4", "3", "1/16", "5", "3/2"]
PENS = ["1", "1", "2", "4", "1/2", "3", "1/4", "8"]
VBOUNDS = ["1", "2", "1/2", "1/4", "3", "5", "1/8", "10", "3/8"]


def gen_case(rng, cid, klass=None):
    """one case = initial system + history of modifications with solves in between.
    classes: 0 shared-only no bounds | 1 shared-only with bounds | 2 mixed policies | 3 mixed + bounds + disabled + frees
             4 tiny (1-2 constraints, many ties) | 5 with concurrency limits (staging)"""
    k = rng.below(6) if klass is None else klass
    solver = rng.choice(["maxmin", "maxmin", "maxmin", "fairbottleneck", "bmf"])
    sel = 1 if rng.chance(1, 4) else 0
    nc = rng.range(1, 2) if k == 4 else rng.range(1, 12)
    nv = rng.range(1, 5) if k == 4 else rng.range(1, 20)
    fat_ok = k in (2, 3, 4, 5)
    bounds_ok = k in (1, 3, 4, 5)
    ops = []
    pol = []
    for c in range(nc):
        f = fat_ok and rng.chance(1, 3)
        pol.append(f)
        ops.append("c %s %s" % (rng.choice(BOUNDS), "F" if f else "S"))
        if k == 5 and rng.chance(1, 3):
            ops.append("cl %d %d" % (c, rng.range(1, 3)))
    nexp = [0] * nv
    alive = [True] * nv

    def w_for(c):
        # fairbottleneck never terminates with a zero weight on a FATPIPE constraint (outside the property's domain:
        # "activities using it"); keep weights positive there; elsewhere a few zero weights exercise the w>0 tests
        if rng.chance(1, 25) and not (solver == "fairbottleneck"):
            return "0"
        return rng.choice(WEIGHTS)

    for v in range(nv):
        pen = "0" if (k in (3, 5) and rng.chance(1, 8)) else rng.choice(PENS)
        bnd = rng.choice(VBOUNDS) if (bounds_ok and rng.chance(1, 3)) else "-1"
        ops.append("v %s %s" % (pen, bnd))
        for c in rng_sample(rng, nc, rng.range(1, min(4, nc))):
            ops.append("e %d %d %s" % (c, v, w_for(c)))
            nexp[v] += 1
    ops.append("s")
    nh = rng.range(0, 60) if k != 4 else rng.range(0, 10)
    for _ in range(nh):
        r = rng.below(20)
        v = rng.below(nv)
        c = rng.below(nc)
        if r < 3:
            ops.append("vb %d %s" % (v, rng.choice(VBOUNDS) if (bounds_ok or rng.chance(1, 4)) else "-1"))
        elif r < 6:
            ops.append("vp %d %s" % (v, "0" if rng.chance(1, 3) else rng.choice(PENS)))
        elif r < 9:
            ops.append("cb %d %s" % (c, rng.choice(BOUNDS)))
        elif r < 11 and nexp[v] < 30:
            ops.append("%s %d %d %s" % ("E" if (k != 5 and rng.chance(1, 6)) else "e", c, v, w_for(c)))
            nexp[v] += 1
        elif r == 11 and k in (3, 5):
            ops.append("vf %d" % v)
        elif r == 12 and fat_ok:
            ops.append("sp %d %s" % (c, "F" if rng.chance(1, 2) else "S"))
        elif r == 13:
            nv += 1
            nexp.append(0)
            ops.append("v %s %s" % (rng.choice(PENS), rng.choice(VBOUNDS) if bounds_ok and rng.chance(1, 3) else "-1"))
            for cc in rng_sample(rng, nc, rng.range(1, min(3, nc))):
                ops.append("e %d %d %s" % (cc, nv - 1, w_for(cc)))
                nexp[-1] += 1
        else:
            ops.append("s")
    ops.append("s")
    return "case %s %s %d %s" % (cid, solver, sel, " ".join(ops))


def rng_sample(rng, n, k):
    xs = list(range(n))
    rng.shuffle(xs)
    return xs[:k]


def canon(line):
    out = []
    for t in line.split(" "):
        if t.startswith("0x") or t.startswith("-0x"):
            f = Fraction(float.fromhex(t))
            out.append("%d/%d" % (f.numerator, f.denominator))
        else:
            out.append(t)
    return " ".join(out)


def fatpipe_overloaded(cline):
    """classification of a capacity violation: are all constraints named over capacity FATPIPE ones?"""
    toks = cline.split(" ")
    i = toks.index("NC")
    nc = int(toks[i + 1])
    j = i + 2
    fat = []
    for _ in range(nc):
        fat.append(toks[j + 1] == "1")
        ne = int(toks[j + 2])
        j += 3 + 2 * ne
    return fat


def bounded_consumer_on(cline, bad):
    """classification of a BMF capacity violation: does some variable WITH A BOUND consume one of the constraints named
    over capacity?  (the registered finding bmf-capacity-exceeded is about get_alloc's treatment of bounded players; a
    capacity excess without any bounded consumer is a different defect)"""
    toks = cline.split(" ")
    i = toks.index("NC")
    nc = int(toks[i + 1])
    j = i + 2
    users = []
    for _ in range(nc):
        ne = int(toks[j + 2])
        users.append([int(toks[j + 3 + 2 * k]) for k in range(ne)])
        j += 3 + 2 * ne
    assert toks[j] == "NV"
    nv = int(toks[j + 1])
    j += 2
    bound = []
    for _ in range(nv):
        ncn = int(toks[j + 4])
        bound.append(not toks[j + 2].startswith("-") and toks[j + 2] not in ("0", "0/1", "0x0p+0"))
        j += 5 + 2 * ncn
    return any(bound[v] for c in bad if c < len(users) for v in users[c] if v < len(bound))


def coupled_fatpipe_overload(cline, bad):
    """second registered class of BMF capacity excess: every overloaded constraint is FATPIPE, no consumer is bounded, and
    each overloaded constraint has a consumer that also uses ANOTHER constraint (the excess comes out of the coupling
    between resources in the fixed point; a lone FATPIPE constraint is allocated correctly on the current code)"""
    toks = cline.split(" ")
    i = toks.index("NC")
    nc = int(toks[i + 1])
    j = i + 2
    users, fat = [], []
    for _ in range(nc):
        ne = int(toks[j + 2])
        fat.append(toks[j + 1] == "1")
        users.append([int(toks[j + 3 + 2 * k]) for k in range(ne)])
        j += 3 + 2 * ne
    nv = int(toks[j + 1])
    j += 2
    ncn = []
    for _ in range(nv):
        n = int(toks[j + 4])
        ncn.append(n)
        j += 5 + 2 * n
    return bool(bad) and all(c < nc and fat[c] and any(ncn[v] >= 2 for v in users[c]) for c in bad)


def run(ctx, mode):
    pid = ctx.pid
    ctx.cov["rule"] = ("cases = initial LMM system (<=12 constraints x <=20 variables, dyadic bounds/weights/penalties, 6 classes) + "
                       "history of <=60 modifications, built through the real System API; one evaluation = one solve(); "
                       "non-trivial = distinct dumped system with a constraint holding >= 2 enabled elements")
    ctx.assumptions += ["floating-point rounding is not modelled: exact Rat model vs double implementation compared at 1e-9 relative "
                        "(only when the model's precision tests are stable under a 1% change of the precision)",
                        "the system handed to the model is the dump of the real lists when solve() is entered "
                        "(how a history produces it is C17/C18's model, not this one)",
                        "Eigen's BMF fixed point is not modelled: BMF answers are only checked against the acceptance predicate"]
    ctx.ensure_simgrid(["simgrid"])
    ctx.lean_prove()
    drv = ctx.lean_exe()
    h = ctx.build_harness("harness.cpp")
    if not (drv and h):
        return
    n = 150 if ctx.tier == "quick" else 600
    if ctx.broken:
        n *= 10
    corpus = [l.strip() for l in open(ctx.pdir + "/corpus.txt") if l.strip() and not l.startswith("#")]
    if ctx.replay:
        cases = [json.load(open(ctx.replay))["case"]["case"]]
    else:
        rng = SplitMix(ctx.seed)
        cases = corpus + [gen_case(rng.fork(i), "g%d" % i) for i in range(n)]
    rc, out, err = ctx.run_lines([h], cases, timeout=3000)
    if rc != 0 or out.count("endcase => done") != len(cases):
        ctx.broken.append({"kind": "harness-run", "rc": rc, "stderr": err[-2000:], "lines": len(out)})
        return
    out = [canon(l) for l in out]
    rc, verdicts, err = ctx.run_lines([drv], out, timeout=3000)
    if rc != 0 or not verdicts or verdicts[-1] != "END %d" % len(out):
        ctx.broken.append({"kind": "driver-run", "rc": rc, "stderr": err[-2000:], "last": verdicts[-3:]})
        return
    ci = 0
    seen = set()
    kinds = {}
    for l, v in zip(out, verdicts):
        if l.startswith("endcase"):
            ci += 1
            continue
        case = cases[ci]
        if l.startswith("crash "):
            # the library aborted outside solve() (an xbt_assert of the concurrency bookkeeping of expand/enable_var:
            # C18's subject, not a statement about a solver's answer): counted, listed, not judged here
            ctx.cov["aborts_outside_solve"] = ctx.cov.get("aborts_outside_solve", 0) + 1
            ctx.notes.append("abort outside solve(): " + case[:400])
            continue
        toks = l.split(" ")
        solver = toks[3] if toks[0] == "solve" else "?"
        ctx.cov["evaluations"] += 1
        kk = solver + ("/sel" if toks[0] == "solve" and toks[4] == "1" else "")
        kinds[kk] = kinds.get(kk, 0) + 1
        if l.endswith("=> abort"):
            kinds["abort/" + solver] = kinds.get("abort/" + solver, 0) + 1
        q = l.split(" => ")[0]
        dump = " ".join(q.split(" ")[5:])
        if dump not in seen:
            seen.add(dump)
            if nontrivial(q):
                ctx.cov["distinct_nontrivial"] += 1
        if v == "ok":
            ctx.cov["traces_validated_against_impl"] += 1
        elif v.startswith("MONFAIL"):
            key = None
            if mode == "C16" and solver == "bmf":
                # the BMF fairness predicate of the model uses consumption_weight where bmf.cpp uses max_consumption_weight and
                # its own saturation test: not trusted enough to raise an alarm; counted and listed in the evidence only
                ctx.cov["bmf_fairness_monitor_failures"] = ctx.cov.get("bmf_fairness_monitor_failures", 0) + 1
                continue
            if solver == "bmf" and "over capacity []" in v and "values [" in v:
                vals = v.split("values [")[1].split("]")[0].replace(",", " ").split()
                if vals and all(not x.startswith("-") and not x.startswith("0/") for x in vals):
                    key = "bmf-variable-bound-exceeded"
            if solver == "bmf" and "over capacity [" in v and "over capacity []" not in v:
                bad = [int(x) for x in v.split("over capacity [")[1].split("]")[0].replace(",", " ").split()]
                try:
                    if bounded_consumer_on(q, bad):
                        key = "bmf-capacity-exceeded"
                    elif coupled_fatpipe_overload(q, bad):
                        key = "bmf-fatpipe-overload-coupled"
                except (ValueError, IndexError, AssertionError):
                    key = None
            if solver == "maxmin" and v.endswith(" precision-model-agrees") and "over capacity []" in v and "values [" in v:
                # (fixed defect: the model, which follows the fixed code, no longer reproduces it, so this key is not given any
                # more; a negative rate is an unclassified violation)
                # no capacity exceeded, a variable with a negative rate, reproduced by the model at the configured precision:
                # double_equals(min_bound, bound*penalty) matched a variable without bound (bound_ = -1), value_ = -1
                # (regression theorem maxmin_var_bounds_eps_regression)
                vals = v.split("values [")[1].split("]")[0].replace(",", " ").split()
                if vals and any(x.startswith("-") for x in vals):
                    key = "maxmin-precision-bound-test-unbounded-variable"
            if solver == "maxmin" and v.endswith(" precision-model-agrees") and "over capacity []" not in v:
                # the model run at the configured precision gives the same overloaded answer and the exact-arithmetic run is
                # feasible: a constraint was dropped from the light table by double_update's clamping while it still had
                # unfixed consumers (theorem maxmin_feasible_eps_counterexample)
                key = "maxmin-precision-drops-constraint"
            if solver == "fairbottleneck" and "over capacity" in v:
                fat = fatpipe_overloaded(q)
                bad = [int(x) for x in v.split("over capacity [")[1].split("]")[0].replace(",", " ").split()]
                if bad and all(fat[c] for c in bad):
                    key = "fairbottleneck-fatpipe-overload"
            ctx.violation(v[:400], {"case": case, "solve_line": l[:3000], "verdict": v[:1000]}, key=key)
        else:
            ctx.broken.append({"kind": "correspondence", "case": case[:2000], "verdict": v[:600]})
            # a disagreement where the monitor holds: report it as a violation of "the implementation computes what the
            # model of its own algorithm computes" only after the search below failed to find a monitor failure
    ctx.cov["samples"] = [c[:300] for c in cases[:2] + cases[len(corpus):len(corpus) + 3]]
    ctx.cov["distribution"] = kinds


def nontrivial(q):
    toks = q.split(" ")
    i = toks.index("NC")
    nc = int(toks[i + 1])
    j = i + 2
    for _ in range(nc):
        ne = int(toks[j + 2])
        if ne >= 2:
            return True
        j += 3 + 2 * ne
    return False
