// Shared harness of C15/C16: drives the REAL simgrid::kernel::lmm::System (maxmin | fairbottleneck | bmf) in-process.
// stdin : one case per line:   case <id> <solver> <sel:0|1> <op>*
//   ops:  c <bound> <S|F>            constraint_new (+ set_sharing_policy(FATPIPE))
//         v <penalty> <bound>         variable_new(action, penalty, bound, 32)
//         e <ci> <vi> <w>             expand           E <ci> <vi> <w>   expand(force_creation)
//         vb <vi> <b>  vp <vi> <p>  cb <ci> <b>  vf <vi>  sp <ci> <S|F>  cl <ci> <limit>
//         s                           solve()
//   numbers are `p/q` or `p` (dyadic: exactly representable), computed as (double)p/(double)q
// stdout: one line per solve:
//   solve <id> <k> <solver> <sel> <dump of the system as it is when solve() is entered> => <value_ of every variable, %a> act=<n>
//   (dump read from the real lists: enabled_element_set_ / cnsts_ / active_constraint_set / variable_set orders)
//   `=> abort` when the library aborted inside that call (xbt_assert, BMF's explicit "Unable to find a BMF allocation").
// Every case runs in a forked child so that an abort is an outcome, not the end of the run.
#include "src/kernel/lmm/System.hpp"
#include "src/kernel/lmm/maxmin.hpp"
#include "simgrid/kernel/resource/Action.hpp"
#include "xbt/log.h"
#include <cstdio>
#include <cstdlib>
#include <fcntl.h>
#include <iostream>
#include <map>
#include <sstream>
#include <string>
#include <sys/wait.h>
#include <unistd.h>
#include <vector>

namespace lmm = simgrid::kernel::lmm;
using simgrid::kernel::resource::Action;

static double num(const std::string& s)
{
  auto p = s.find('/');
  if (p == std::string::npos)
    return std::stod(s);
  return std::stod(s.substr(0, p)) / std::stod(s.substr(p + 1));
}

struct World {
  lmm::System* sys;
  std::vector<lmm::Constraint*> cn;
  std::vector<lmm::Variable*> va; // nullptr = freed
  std::map<const lmm::Constraint*, int> ci;
  std::map<const lmm::Variable*, int> vi;
};

static void dump(FILE* o, World& w)
{
  fprintf(o, " NC %zu", w.cn.size());
  for (auto* c : w.cn) {
    fprintf(o, " %a %d %zu", c->bound_, c->get_sharing_policy() == lmm::Constraint::SharingPolicy::FATPIPE ? 1 : 0,
            c->enabled_element_set_.size());
    for (auto const& e : c->enabled_element_set_)
      fprintf(o, " %d %a", w.vi.at(e.variable), e.consumption_weight);
  }
  fprintf(o, " NV %zu", w.va.size());
  for (auto* v : w.va) {
    if (v == nullptr) {
      fprintf(o, " 1 0x0p+0 -0x1p+0 0x0p+0 0");
      continue;
    }
    fprintf(o, " 0 %a %a %a %zu", v->sharing_penalty_, v->bound_, v->value_, v->cnsts_.size());
    for (auto const& e : v->cnsts_)
      fprintf(o, " %d %a", w.ci.at(e.constraint), e.consumption_weight);
  }
  fprintf(o, " A %zu", w.sys->active_constraint_set.size());
  for (auto const& c : w.sys->active_constraint_set)
    fprintf(o, " %d", w.ci.at(&c));
  fprintf(o, " O %zu", w.sys->variable_set.size());
  for (auto const& v : w.sys->variable_set)
    fprintf(o, " %d", w.vi.at(&v));
}

static void run_case(const std::string& line, FILE* o)
{
  std::istringstream in(line);
  std::string kw, id, solver, tok;
  int sel;
  in >> kw >> id >> solver >> sel;
  World w;
  w.sys = lmm::System::build(solver, sel != 0);
  int k = 0;
  auto pol = [](const std::string& s) {
    return s == "F" ? lmm::Constraint::SharingPolicy::FATPIPE : lmm::Constraint::SharingPolicy::SHARED;
  };
  while (in >> tok) {
    std::string a, b, c;
    if (tok == "c") {
      in >> a >> b;
      auto* cn = w.sys->constraint_new(nullptr, num(a));
      if (b == "F")
        cn->set_sharing_policy(pol(b), {});
      w.ci[cn] = (int)w.cn.size();
      w.cn.push_back(cn);
    } else if (tok == "v") {
      in >> a >> b;
      // selective update dereferences Variable::id_ (Action::modified_set_hook_): give it zeroed storage of the right size
      auto* act = static_cast<Action*>(calloc(1, sizeof(Action)));
      auto* v   = w.sys->variable_new(act, num(a), num(b), 32);
      w.vi[v]   = (int)w.va.size();
      w.va.push_back(v);
    } else if (tok == "e" || tok == "E") {
      in >> a >> b >> c;
      auto* v = w.va.at(std::stoi(b));
      if (v && v->cnsts_.size() < 32)
        w.sys->expand(w.cn.at(std::stoi(a)), v, num(c), tok == "E");
    } else if (tok == "vb") {
      in >> a >> b;
      if (auto* v = w.va.at(std::stoi(a)))
        w.sys->update_variable_bound(v, num(b));
    } else if (tok == "vp") {
      in >> a >> b;
      if (auto* v = w.va.at(std::stoi(a)))
        w.sys->update_variable_penalty(v, num(b));
    } else if (tok == "cb") {
      in >> a >> b;
      w.sys->update_constraint_bound(w.cn.at(std::stoi(a)), num(b));
    } else if (tok == "vf") {
      in >> a;
      int i = std::stoi(a);
      if (auto* v = w.va.at(i)) {
        w.vi.erase(v);
        w.sys->variable_free(v);
        w.va[i] = nullptr;
      }
    } else if (tok == "sp") {
      in >> a >> b;
      w.cn.at(std::stoi(a))->set_sharing_policy(pol(b), {});
      // set_sharing_policy does not flag the system (SimGrid calls it at platform creation only): register the change
      // through the public API so that selective update knows this constraint was modified
      w.sys->update_constraint_bound(w.cn.at(std::stoi(a)), w.cn.at(std::stoi(a))->bound_);
    } else if (tok == "cl") {
      in >> a >> b;
      w.cn.at(std::stoi(a))->set_concurrency_limit(std::stoi(b));
    } else if (tok == "s") {
      fprintf(o, "solve %s %d %s %d", id.c_str(), k++, solver.c_str(), sel);
      dump(o, w);
      fprintf(o, " =>");
      fflush(o);
      w.sys->modified_ = true; // solve() returns at once when nothing was modified; we want every `s` to solve
      w.sys->solve();
      for (auto* v : w.va)
        fprintf(o, " %a", v ? v->value_ : 0.0);
      int act = 0;
      for (auto* c : w.cn)
        act += c->active_element_set_.empty() ? 0 : 1;
      fprintf(o, " act=%d\n", act);
      fflush(o);
      if (auto* ms = w.sys->get_modified_action_set())
        while (not ms->empty())
          ms->pop_front();
    }
  }
}

int main()
{
  xbt_log_control_set("root.thres:critical");
  std::string line;
  while (std::getline(std::cin, line)) {
    if (line.empty())
      continue;
    int fd[2];
    if (pipe(fd) != 0)
      return 3;
    fflush(stdout);
    pid_t pid = fork();
    if (pid == 0) {
      close(fd[0]);
      int dn = open("/dev/null", O_WRONLY);
      dup2(dn, 2);
      FILE* o = fdopen(fd[1], "w");
      alarm(20); // a solver that does not terminate is reported as an abort of that solve
      run_case(line, o);
      fflush(o);
      _exit(0);
    }
    close(fd[1]);
    std::string outp;
    char buf[65536];
    ssize_t n;
    while ((n = read(fd[0], buf, sizeof buf)) > 0)
      outp.append(buf, n);
    close(fd[0]);
    int st = 0;
    waitpid(pid, &st, 0);
    bool okexit = WIFEXITED(st) && WEXITSTATUS(st) == 0;
    fputs(outp.c_str(), stdout);
    if (not okexit) {
      if (not outp.empty() && outp.back() != '\n')
        printf(" abort\n");
      else {
        std::istringstream in(line);
        std::string kw, id;
        in >> kw >> id;
        printf("crash %s => abort\n", id.c_str());
      }
    }
    printf("endcase => done\n");
  }
  return 0;
}
