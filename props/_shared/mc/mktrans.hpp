// Shared by the C42 and C44 harnesses: build REAL simgrid::mc::Transition objects from a textual description,
// in-process, without an engine.
//   token := <aid>,<KIND>[,<int param>]*
// comm kinds use their direct constructors; actor/random/synchro kinds only have Channel constructors: the
// serialised fields are `reinject`ed in a default Channel (no socket) and the channel constructor is called,
// exactly as `deserialize_transition` would after reading them from the application.
#ifndef VERIF_SHARED_MKTRANS_HPP
#define VERIF_SHARED_MKTRANS_HPP
#include "src/mc/api/Aid.hpp"
#include "src/mc/remote/Channel.hpp"
#include "src/mc/transition/Transition.hpp"
#include "src/mc/transition/TransitionActor.hpp"
#include "src/mc/transition/TransitionComm.hpp"
#include "src/mc/transition/TransitionRandom.hpp"
#include "src/mc/transition/TransitionSynchro.hpp"
#include <boost/intrusive_ptr.hpp>
#include <memory>
#include <sstream>
#include <stdexcept>
#include <string>
#include <vector>

namespace verif {
using simgrid::mc::Aid;
using simgrid::mc::Transition;
using Type = simgrid::mc::Transition::Type;

struct Chan {
  std::unique_ptr<simgrid::mc::Channel> ch = std::make_unique<simgrid::mc::Channel>(); // 2 MiB: keep it on the heap
  template <class T> void put(T v) { ch->reinject((const char*)&v, sizeof(T)); }
};
static Chan& chan()
{
  static Chan c;
  return c;
}
static Aid mkaid(long v) { return v < 0 ? Aid::INVALID : Aid{(int)v}; }

static std::vector<std::string> split(const std::string& s, char sep)
{
  std::vector<std::string> r;
  std::string cur;
  for (char c : s) {
    if (c == sep) {
      r.push_back(cur);
      cur.clear();
    } else
      cur += c;
  }
  r.push_back(cur);
  return r;
}

// returns a new Transition (refcount 0): wrap it at once in a TransitionPtr or a shared_ptr
static Transition* make_transition(const std::string& tok)
{
  auto f = split(tok, ',');
  if (f.size() < 2)
    throw std::runtime_error("bad transition token " + tok);
  Aid aid{std::stoi(f[0])};
  const std::string& k = f[1];
  std::vector<long> p;
  for (size_t i = 2; i < f.size(); i++)
    p.push_back(std::stol(f[i]));
  auto need = [&](size_t n) {
    if (p.size() != n)
      throw std::runtime_error("bad parameter count in " + tok);
  };
  auto& c = chan();
  using namespace simgrid::mc;
  if (k == "RANDOM") {
    need(2);
    c.put<int>(p[0]);
    c.put<int>(p[1]);
    return new RandomTransition(aid, 0, *c.ch);
  }
  if (k == "ACTOR_JOIN") {
    need(2);
    c.put<aid_t>(p[0]);
    c.put<bool>(p[1]);
    return new ActorJoinTransition(aid, 0, *c.ch);
  }
  if (k == "ACTOR_SLEEP") {
    need(0);
    return new ActorSleepTransition(aid, 0, *c.ch);
  }
  if (k == "ACTOR_EXIT") {
    need(0);
    return new ActorExitTransition(aid, 0, *c.ch);
  }
  if (k == "ACTOR_CREATE") {
    need(1);
    c.put<aid_t>(p[0]);
    return new ActorCreateTransition(aid, 0, *c.ch);
  }
  if (k == "COMM_ASYNC_SEND") {
    need(3);
    return new CommSendTransition(aid, 0, (unsigned)p[0], (unsigned)p[1], (int)p[2]);
  }
  if (k == "COMM_ASYNC_RECV") {
    need(3);
    return new CommRecvTransition(aid, 0, (unsigned)p[0], (unsigned)p[1], (int)p[2]);
  }
  if (k == "COMM_IPROBE") {
    need(3);
    return new CommIprobeTransition(aid, 0, p[0] != 0, (unsigned)p[1], (int)p[2]);
  }
  if (k == "COMM_TEST") {
    need(4);
    return new CommTestTransition(aid, 0, (unsigned)p[0], mkaid(p[1]), mkaid(p[2]), (unsigned)p[3]);
  }
  if (k == "COMM_WAIT") {
    need(5);
    return new CommWaitTransition(aid, 0, p[0] != 0, (unsigned)p[1], mkaid(p[2]), mkaid(p[3]), (unsigned)p[4]);
  }
  if (k == "BARRIER_ASYNC_LOCK" || k == "BARRIER_WAIT") {
    need(1);
    c.put<unsigned>(p[0]);
    return new BarrierTransition(aid, 0, k == "BARRIER_WAIT" ? Type::BARRIER_WAIT : Type::BARRIER_ASYNC_LOCK, *c.ch);
  }
  if (k.rfind("MUTEX_", 0) == 0) {
    need(2);
    Type t = k == "MUTEX_ASYNC_LOCK" ? Type::MUTEX_ASYNC_LOCK
             : k == "MUTEX_TEST"     ? Type::MUTEX_TEST
             : k == "MUTEX_TRYLOCK"  ? Type::MUTEX_TRYLOCK
             : k == "MUTEX_UNLOCK"   ? Type::MUTEX_UNLOCK
             : k == "MUTEX_WAIT"     ? Type::MUTEX_WAIT
                                     : Type::UNKNOWN;
    if (t == Type::UNKNOWN)
      throw std::runtime_error("bad kind " + k);
    c.put<unsigned>(p[0]);
    c.put<aid_t>(p[1]);
    return new MutexTransition(aid, 0, t, *c.ch);
  }
  if (k.rfind("SEM_", 0) == 0) {
    need(3);
    Type t = k == "SEM_ASYNC_LOCK" ? Type::SEM_ASYNC_LOCK
             : k == "SEM_UNLOCK"   ? Type::SEM_UNLOCK
             : k == "SEM_WAIT"     ? Type::SEM_WAIT
                                   : Type::UNKNOWN;
    if (t == Type::UNKNOWN)
      throw std::runtime_error("bad kind " + k);
    c.put<unsigned>(p[0]);
    c.put<bool>(p[1] != 0);
    c.put<int>(p[2]);
    return new SemaphoreTransition(aid, 0, t, *c.ch);
  }
  if (k == "CONDVAR_ASYNC_LOCK") {
    need(2);
    c.put<unsigned>(p[0]);
    c.put<unsigned>(p[1]);
    return new CondvarTransition(aid, 0, Type::CONDVAR_ASYNC_LOCK, *c.ch);
  }
  if (k == "CONDVAR_WAIT") {
    need(4);
    c.put<unsigned>(p[0]);
    c.put<unsigned>(p[1]);
    c.put<bool>(p[2] != 0);
    c.put<bool>(p[3] != 0);
    return new CondvarTransition(aid, 0, Type::CONDVAR_WAIT, *c.ch);
  }
  if (k == "CONDVAR_SIGNAL" || k == "CONDVAR_BROADCAST") {
    need(1);
    c.put<unsigned>(p[0]);
    return new CondvarTransition(aid, 0, k == "CONDVAR_SIGNAL" ? Type::CONDVAR_SIGNAL : Type::CONDVAR_BROADCAST, *c.ch);
  }
  throw std::runtime_error("unknown transition kind " + k);
}
} // namespace verif
#endif
