"""Random REAL transitions (token syntax of mktrans.hpp), shared by the C42 and C44 generators."""
MUTEX = ["MUTEX_ASYNC_LOCK", "MUTEX_TEST", "MUTEX_TRYLOCK", "MUTEX_UNLOCK", "MUTEX_WAIT"]
SEM = ["SEM_ASYNC_LOCK", "SEM_UNLOCK", "SEM_WAIT"]
CONDVAR = ["CONDVAR_ASYNC_LOCK", "CONDVAR_WAIT", "CONDVAR_SIGNAL", "CONDVAR_BROADCAST"]
BARRIER = ["BARRIER_ASYNC_LOCK", "BARRIER_WAIT"]
COMM = ["COMM_ASYNC_SEND", "COMM_ASYNC_RECV", "COMM_WAIT", "COMM_TEST", "COMM_IPROBE"]
ACTOR = ["ACTOR_JOIN", "ACTOR_SLEEP", "ACTOR_CREATE", "ACTOR_EXIT", "RANDOM"]
FAMILIES = {"mutex": MUTEX, "sem": SEM, "condvar": CONDVAR + MUTEX, "barrier": BARRIER, "comm": COMM,
            "actor": ACTOR, "mixed": MUTEX + SEM + CONDVAR + BARRIER + COMM + ACTOR}


def gen_transition(rng, aid, kind, aids, nres):
    """one token `<aid>,<KIND>,params`; resources are drawn from small pools (nres) so that dependencies are frequent"""
    r = lambda: rng.range(1, nres)
    other = lambda: rng.choice(aids + [-1]) if rng.chance(1, 6) else rng.choice(aids)
    if kind == "RANDOM":
        p = [0, rng.range(1, 3)]
    elif kind == "ACTOR_JOIN":
        p = [other(), rng.below(2)]
    elif kind in ("ACTOR_SLEEP", "ACTOR_EXIT"):
        p = []
    elif kind == "ACTOR_CREATE":
        p = [other()]
    elif kind in ("COMM_ASYNC_SEND", "COMM_ASYNC_RECV"):
        p = [rng.range(1, 2 * nres), r(), rng.below(2)]
    elif kind == "COMM_IPROBE":
        p = [rng.below(2), r(), rng.below(2)]
    elif kind == "COMM_TEST":
        p = [rng.range(1, 2 * nres), other(), other(), r()]
    elif kind == "COMM_WAIT":
        p = [1 if rng.chance(1, 8) else 0, rng.range(1, 2 * nres), other(), other(), r()]
    elif kind in BARRIER:
        p = [r()]
    elif kind in MUTEX:
        p = [r(), other()]
    elif kind in SEM:
        p = [r(), rng.below(2), rng.range(0, 3)]
    elif kind == "CONDVAR_ASYNC_LOCK":
        p = [r(), r()]
    elif kind == "CONDVAR_WAIT":
        p = [r(), r(), rng.below(2), rng.below(2)]
    else:
        p = [r()]
    return ",".join([str(aid), kind] + [str(x) for x in p])
