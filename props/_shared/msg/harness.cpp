// Shared harness of C08 (mailboxes) and C09 (message queues): an interpreter of generated actor programs that drives
// the REAL simgrid kernel through the public S4U API (Mailbox/Comm, MessageQueue/Mess).  Operations with a match filter
// use the kernel calls SMPI uses (CommIsendSimcall / CommIrecvSimcall + CommImpl::isend/irecv, Comm::send/recv), because
// the public Mailbox API has no way to pass a match function.
//
// stdin: one program per line
//   P <idx> <nactors> <bandwidth> <latency> | <host> <op> ; <op> ; ... | <host> <op> ; ...
// ops (M mailbox, Q queue, H handle id chosen by the generator, F filter, T tag, D duration as C hexfloat):
//   sleep D | put M H SIZE RATE F T | puta M H SIZE RATE F T | putd M H SIZE RATE F T | get M H RATE F T | geta M H RATE F T
//   wait H | test H | cancel H | setrecv M s|n | clear M | probe M F T
//   mput Q H | mputa Q H | mputd Q H | mget Q H | mgeta Q H B | mwait H | mwaitfor H D | mtest H | mcancel H
// filters: n (no match function, public API) a (accept all) sK (other side's actor == K) pB (other's tag % 2 == B)
//          tK (other's tag < K) iK (other's payload id < K)
// stdout, one line per event in global order ("query => answer", see Common/Proto.lean):
//   prog <idx> =>                       start of a program
//   c <actor> <op tokens> [pid] =>      just before the S4U call (pid = payload id for puts; sleep: current date)
//   r <actor> sleep 0 => <date>         date at which the sleep returned
//   r <actor> <opname> <H> => ok [pid size] | true [pid size] | false | exc <kind>      just after it returned
//   x <actor> =>                        the actor function returned
//   dump mb <M> => q <entries> | d <entries> | p <actor|none>     final content of comm_queue_ / done_comm_queue_
//   dump mq <Q> => <entries>            entries: S<pid> / R<actor> (mailbox), P<pid> / G<actor> (queue)
//   late <H> => <pid|none>              content of the buffer of a get that did not return successfully
//   rewrite <H> => <pid|none>           content of the buffer of a get that returned (the harness cleared it then)
//   end => ok <clock> | deadlock <clock> | crash <status>
// Each program runs in a forked child (one Engine per process).
#include <simgrid/Exception.hpp>
#include <simgrid/s4u.hpp>
#include <simgrid/simcall.hpp>

#include "src/kernel/activity/CommImpl.hpp"
#include "src/kernel/activity/MailboxImpl.hpp"
#include "src/kernel/activity/MessImpl.hpp"
#include "src/kernel/activity/MessageQueueImpl.hpp"
#include "src/kernel/actor/ActorImpl.hpp"
#include "src/kernel/actor/CommObserver.hpp"
#include "src/kernel/actor/WaitTestObserver.hpp"

#include <cstdio>
#include <cstdlib>
#include <iostream>
#include <map>
#include <sstream>
#include <string>
#include <sys/wait.h>
#include <unistd.h>
#include <vector>

namespace sg4 = simgrid::s4u;
namespace ka  = simgrid::kernel::activity;
namespace kx  = simgrid::kernel::actor;

struct Payload {
  int magic;
  int sender;
  int seq;
  long size;
};
struct MData {
  int actor;
  int tag;
  int pid;
};
struct Handle {
  int id      = -1;
  int owner   = -1;
  bool is_recv = false;
  bool is_mess = false;
  bool open    = true; // not yet waited successfully / cancelled
  bool returned_ok = false;
  sg4::CommPtr comm;
  sg4::MessPtr mess;
  ka::ActivityImplPtr kact; // filtered operations: kernel-level handle
  void** slot = nullptr;    // heap buffer of a get
  size_t* slot_size = nullptr;
};

static std::vector<std::vector<std::vector<std::string>>> prog; // actor -> op -> tokens
static std::vector<int> host_of;
static std::map<int, Handle> handles;
static std::vector<int> handle_order;
static std::vector<int> seq_of;
static std::map<long, int> actor_of_pid; // simgrid aid -> actor index
static int nmb = 3, nq = 3;
static bool over = false;

static void out(const std::string& s)
{
  if (over)
    return;
  fputs(s.c_str(), stdout);
  fputc('\n', stdout);
  fflush(stdout);
}

static bool feval(const std::string& f, const MData* o)
{
  char k = f[0];
  int v  = atoi(f.c_str() + 1);
  switch (k) {
    case 'a':
      return true;
    case 's':
      return o != nullptr && o->actor == v;
    case 'p':
      return o != nullptr && o->tag % 2 == v;
    case 't':
      return o != nullptr && o->tag < v;
    case 'i':
      return o != nullptr && o->pid < v;
    default:
      return false;
  }
}
static std::function<bool(void*, void*, ka::CommImpl*)> mkfilter(const std::string& f)
{
  if (f == "n")
    return nullptr;
  return [f](void*, void* other, ka::CommImpl*) { return feval(f, static_cast<MData*>(other)); };
}

// Mailbox::by_name / MessageQueue::by_name are simcalls when issued by an actor: resolve them once, from maestro, so
// that every operation of a program is exactly the simcalls of the S4U call it names.
static std::vector<sg4::Mailbox*> mbs;
static std::vector<sg4::MessageQueue*> mqs;
static sg4::Mailbox* mb(int m)
{
  return mbs.at(m);
}
static sg4::MessageQueue* mq(int q)
{
  return mqs.at(q);
}
static std::string join(const std::vector<std::string>& t)
{
  std::string s;
  for (auto const& x : t)
    s += (s.empty() ? "" : " ") + x;
  return s;
}
static std::string payload_str(void* p)
{
  if (p == nullptr)
    return "none";
  auto* pl = static_cast<Payload*>(p);
  if (pl->magic != 0x5ca1ab1e)
    return "garbled";
  return std::to_string(pl->sender * 1000 + pl->seq);
}
static long comm_size(const Handle& h)
{
  ka::CommImpl* c = nullptr;
  if (h.comm && h.comm->get_impl())
    c = static_cast<ka::CommImpl*>(h.comm->get_impl());
  else if (h.kact)
    c = static_cast<ka::CommImpl*>(h.kact.get());
  return c ? static_cast<long>(c->size_) : -1;
}
// The result of a successful get; the application then consumes the message: it clears its buffer.  If the kernel
// writes the buffer again later (finish() running again without a "copied" guard) the final `rewrite` line shows it.
static std::string recv_result(Handle& h)
{
  std::string res;
  if (h.is_mess) {
    void* p = h.slot ? *h.slot : (h.mess ? h.mess->get_payload() : nullptr);
    res     = payload_str(p);
  } else {
    void* p = h.slot ? *h.slot : nullptr;
    res     = payload_str(p) + " " + std::to_string(comm_size(h));
  }
  if (h.slot)
    *h.slot = nullptr;
  return res;
}

static bool kwait(Handle& h, double timeout)
{
  auto* issuer = kx::ActorImpl::self();
  kx::ActivityWaitSimcall obs{issuer, h.kact.get(), timeout, "Wait"};
  return simgrid::kernel::actor::simcall_blocking(
      [&obs] { obs.get_activity()->wait_for(obs.get_issuer(), obs.get_timeout()); }, &obs);
}
static bool ktest(Handle& h)
{
  auto* issuer = kx::ActorImpl::self();
  kx::ActivityTestSimcall obs{issuer, h.kact.get(), "test"};
  return simgrid::kernel::actor::simcall_answered([&obs] { return obs.get_activity()->test(obs.get_issuer()); }, &obs);
}

static Payload* new_payload(int me, long size)
{
  auto* p = new Payload{0x5ca1ab1e, me, seq_of[me]++, size};
  return p;
}

template <class F> static std::string guarded(F&& f)
{
  try {
    return f();
  } catch (const simgrid::CancelException&) {
    return "exc cancel";
  } catch (const simgrid::TimeoutException&) {
    return "exc timeout";
  } catch (const simgrid::NetworkFailureException&) {
    return "exc netfail";
  } catch (const simgrid::Exception&) {
    return "exc other";
  }
}

static void exec_op(int me, const std::vector<std::string>& t)
{
  const std::string& op = t[0];
  auto num             = [&t](size_t i) { return strtod(t[i].c_str(), nullptr); };
  auto inum            = [&t](size_t i) { return atol(t[i].c_str()); };
  if (op == "sleep") {
    char b1[64], b2[64];
    snprintf(b1, sizeof b1, "%a", sg4::Engine::get_clock());
    out("c " + std::to_string(me) + " " + join(t) + " " + b1 + " =>");
    sg4::this_actor::sleep_for(num(1));
    snprintf(b2, sizeof b2, "%a", sg4::Engine::get_clock());
    out("r " + std::to_string(me) + " sleep 0 => " + b2);
    return;
  }
  std::string cl = "c " + std::to_string(me) + " " + join(t);
  auto* self     = kx::ActorImpl::self();

  if (op == "put" || op == "puta" || op == "putd") {
    int m = inum(1), hid = inum(2);
    long size   = inum(3);
    double rate = num(4);
    const std::string& f = t[5];
    int tag              = inum(6);
    Payload* p           = new_payload(me, size);
    int pid              = p->sender * 1000 + p->seq;
    Handle& h            = handles[hid];
    h.id                 = hid;
    h.owner              = me;
    handle_order.push_back(hid);
    out(cl + " " + std::to_string(pid) + " =>");
    std::string res = guarded([&]() -> std::string {
      if (f == "n") {
        if (op == "put") {
          h.open = false;
          if (rate < 0)
            mb(m)->put(p, size);
          else
            mb(m)->put_init(p, size)->set_rate(rate)->wait(); // INITED wait: Comm::send() in one simcall
        } else if (op == "puta") {
          if (rate < 0)
            h.comm = mb(m)->put_async(p, size);
          else {
            h.comm = mb(m)->put_init(p, size)->set_rate(rate);
            h.comm->start();
          }
        } else {
          h.open = false;
          h.comm = mb(m)->put_init(p, size)->set_rate(rate);
          h.comm->detach();
        }
      } else {
        auto* md = new MData{me, tag, pid};
        auto mf  = mkfilter(f);
        if (op == "put") {
          h.open = false;
          sg4::Comm::send(self, mb(m), static_cast<double>(size), rate, p, sizeof(void*), mf, nullptr, md, -1.0);
        } else {
          bool det = (op == "putd");
          kx::CommIsendSimcall obs{self,    mb(m)->get_impl(), static_cast<double>(size), rate, reinterpret_cast<unsigned char*>(p),
                                   sizeof(void*), mf, nullptr, nullptr, md, det, "Isend"};
          h.kact = simgrid::kernel::actor::simcall_answered([&obs] { return ka::CommImpl::isend(&obs); }, &obs);
          if (det)
            h.open = false;
        }
      }
      return "ok";
    });
    if (res != "ok")
      h.open = false;
    out("r " + std::to_string(me) + " " + op + " " + std::to_string(hid) + " => " + res);
    return;
  }
  if (op == "get" || op == "geta") {
    int m = inum(1), hid = inum(2);
    double rate          = num(3);
    const std::string& f = t[4];
    int tag              = inum(5);
    Handle& h            = handles[hid];
    h.id                 = hid;
    h.owner              = me;
    h.is_recv            = true;
    h.slot               = new void*(nullptr);
    h.slot_size          = new size_t(sizeof(void*));
    handle_order.push_back(hid);
    out(cl + " =>");
    std::string res = guarded([&]() -> std::string {
      if (f == "n") {
        if (op == "get") {
          h.open = false;
          if (rate < 0) {
            *h.slot = mb(m)->get<Payload>(); // the real blocking get (its buffer is a local of Mailbox::get)
          } else {
            h.comm = mb(m)->get_init()->set_dst_data(h.slot, sizeof(void*))->set_rate(rate);
            h.comm->wait(); // INITED wait: Comm::recv() in one simcall
          }
          h.returned_ok = true;
          // the size is read from the payload for the plain blocking get (no handle to the comm)
          if (!h.comm && *h.slot) {
            std::string r = "ok " + payload_str(*h.slot) + " " + std::to_string(static_cast<Payload*>(*h.slot)->size);
            *h.slot       = nullptr;
            return r;
          }
          return "ok " + recv_result(h);
        }
        if (rate < 0)
          h.comm = mb(m)->get_async<void>(h.slot);
        else {
          h.comm = mb(m)->get_init()->set_dst_data(h.slot, sizeof(void*))->set_rate(rate);
          h.comm->start();
        }
        return "ok";
      }
      auto* md = new MData{me, tag, 0};
      auto mf  = mkfilter(f);
      if (op == "get") {
        h.open = false;
        sg4::Comm::recv(self, mb(m), h.slot, h.slot_size, mf, nullptr, md, -1.0, rate);
        h.returned_ok = true;
        std::string r = "ok " + payload_str(*h.slot) + " " +
                        std::to_string(*h.slot ? static_cast<Payload*>(*h.slot)->size : -1);
        *h.slot = nullptr;
        return r;
      }
      kx::CommIrecvSimcall obs{self, mb(m)->get_impl(), reinterpret_cast<unsigned char*>(h.slot), h.slot_size, mf,
                               nullptr, md, rate, "Irecv"};
      h.kact = simgrid::kernel::actor::simcall_answered([&obs] { return ka::CommImpl::irecv(&obs); }, &obs);
      return "ok";
    });
    if (res.rfind("exc", 0) == 0)
      h.open = false;
    out("r " + std::to_string(me) + " " + op + " " + std::to_string(hid) + " => " + res);
    return;
  }
  if (op == "wait" || op == "test" || op == "cancel" || op == "mwait" || op == "mwaitfor" || op == "mtest" ||
      op == "mcancel") {
    int hid = inum(1);
    auto it = handles.find(hid);
    out(cl + " =>");
    if (it == handles.end() || (!it->second.comm && !it->second.mess && !it->second.kact)) {
      out("r " + std::to_string(me) + " " + op + " " + std::to_string(hid) + " => nohandle");
      return;
    }
    Handle& h       = it->second;
    std::string res = guarded([&]() -> std::string {
      if (op == "wait" || op == "mwait" || op == "mwaitfor") {
        double to = (op == "mwaitfor") ? num(2) : -1.0;
        if (h.kact) {
          if (kwait(h, to))
            return "exc timeout";
        } else if (h.comm)
          h.comm->wait_for(to);
        else
          h.mess->wait_for(to);
        h.open        = false;
        h.returned_ok = true;
        return h.is_recv ? "ok " + recv_result(h) : "ok";
      }
      if (op == "test" || op == "mtest") {
        bool r = h.kact ? ktest(h) : (h.comm ? h.comm->test() : h.mess->test());
        if (not r)
          return "false";
        h.open        = false;
        h.returned_ok = true;
        return h.is_recv ? "true " + recv_result(h) : "true";
      }
      // cancel
      if (h.kact) {
        ka::ActivityImplPtr a = h.kact;
        simgrid::kernel::actor::simcall_answered([a] { a->cancel(); });
      } else if (h.comm)
        h.comm->cancel();
      else
        h.mess->cancel();
      h.open = false;
      return "ok";
    });
    if (res.rfind("exc", 0) == 0 && res != "exc timeout")
      h.open = false;
    out("r " + std::to_string(me) + " " + op + " " + std::to_string(hid) + " => " + res);
    return;
  }
  if (op == "setrecv") {
    int m = inum(1);
    out(cl + " =>");
    if (t[2] == "s")
      mb(m)->set_receiver(sg4::Actor::self());
    else
      mb(m)->set_receiver(nullptr);
    out("r " + std::to_string(me) + " setrecv " + std::to_string(m) + " => ok");
    return;
  }
  if (op == "clear") {
    int m = inum(1);
    out(cl + " =>");
    mb(m)->clear();
    out("r " + std::to_string(me) + " clear " + std::to_string(m) + " => ok");
    return;
  }
  if (op == "probe") { // iprobe as a receiver: is there a send I would match?
    int m                = inum(1);
    const std::string& f = t[2];
    int tag              = inum(3);
    out(cl + " =>");
    auto* md                   = new MData{me, tag, 0};
    auto mf                    = mkfilter(f);
    ka::ActivityImplPtr found = mb(m)->iprobe(sg4::Mailbox::IprobeKind::RECV, mf, md);
    std::string res            = "none";
    if (found) {
      auto* c = static_cast<ka::CommImpl*>(found.get());
      res     = payload_str(c->src_buff_);
    }
    out("r " + std::to_string(me) + " probe " + std::to_string(m) + " => " + res);
    return;
  }
  if (op == "mput" || op == "mputa" || op == "mputd") {
    int q = inum(1), hid = inum(2);
    Payload* p = new_payload(me, 0);
    int pid    = p->sender * 1000 + p->seq;
    Handle& h  = handles[hid];
    h.id       = hid;
    h.owner    = me;
    h.is_mess  = true;
    handle_order.push_back(hid);
    out(cl + " " + std::to_string(pid) + " =>");
    std::string res = guarded([&]() -> std::string {
      if (op == "mput") {
        h.open = false;
        mq(q)->put(p);
      } else if (op == "mputa")
        h.mess = mq(q)->put_async(p);
      else {
        h.open = false;
        h.mess = mq(q)->put_init(p);
        h.mess->detach();
      }
      return "ok";
    });
    out("r " + std::to_string(me) + " " + op + " " + std::to_string(hid) + " => " + res);
    return;
  }
  if (op == "mget" || op == "mgeta") {
    int q = inum(1), hid = inum(2);
    bool buf   = op == "mget" || inum(3) != 0;
    Handle& h  = handles[hid];
    h.id       = hid;
    h.owner    = me;
    h.is_mess  = true;
    h.is_recv  = true;
    if (buf)
      h.slot = new void*(nullptr);
    handle_order.push_back(hid);
    out(cl + " =>");
    std::string res = guarded([&]() -> std::string {
      if (op == "mget") {
        h.open        = false;
        *h.slot       = mq(q)->get<Payload>(); // the real blocking get: its buffer is a local of MessageQueue::get
        h.returned_ok = true;
        std::string r = "ok " + payload_str(*h.slot);
        *h.slot       = nullptr;
        return r;
      }
      h.mess = buf ? mq(q)->get_async<void>(h.slot) : mq(q)->get_async();
      return "ok";
    });
    out("r " + std::to_string(me) + " " + op + " " + std::to_string(hid) + " => " + res);
    return;
  }
  out("r " + std::to_string(me) + " badop => " + op);
}

static void actor_fun(int me)
{
  for (auto const& op : prog[me])
    exec_op(me, op);
  // Explicitly cancel what is still open: ActorImpl::cleanup_from_self() would cancel it anyway, but from the actor's
  // context (not in a simcall), i.e. *before* maestro handles the simcalls issued earlier in the same scheduling
  // round; doing it through cancel() keeps the kernel order equal to the order of the `c` lines.
  std::vector<int> mine;
  for (int hid : handle_order)
    if (handles[hid].owner == me && handles[hid].open)
      mine.push_back(hid);
  for (int hid : mine)
    exec_op(me, {handles[hid].is_mess ? "mcancel" : "cancel", std::to_string(hid)});
  out("x " + std::to_string(me) + " =>");
}

static std::string actor_name_of(kx::ActorImpl* a)
{
  if (a == nullptr)
    return "none";
  auto it = actor_of_pid.find(a->get_pid());
  return it == actor_of_pid.end() ? "?" : std::to_string(it->second);
}

static void final_dump(bool deadlock)
{
  for (int m = 0; m < nmb; m++) {
    auto* impl    = mb(m)->get_impl();
    std::string s = "dump mb " + std::to_string(m) + " => q";
    for (auto const& c : impl->comm_queue_)
      s += c->get_type() == ka::CommImplType::SEND ? " S" + payload_str(c->src_buff_) : " R" + actor_name_of(c->dst_actor_.get());
    s += " | d";
    for (auto const& c : impl->done_comm_queue_)
      s += c->get_type() == ka::CommImplType::SEND ? " S" + payload_str(c->src_buff_) : " R" + actor_name_of(c->dst_actor_.get());
    s += " | p " + actor_name_of(impl->permanent_receiver_.get());
    out(s);
  }
  for (int q = 0; q < nq; q++) {
    auto* impl    = mq(q)->get_impl();
    std::string s = "dump mq " + std::to_string(q) + " =>";
    for (auto const& c : impl->queue_)
      s += c->get_type() == ka::MessImplType::PUT ? " P" + payload_str(c->get_payload()) : " G" + actor_name_of(c->dst_actor_.get());
    out(s);
  }
  for (int hid : handle_order) {
    Handle& h = handles[hid];
    if (h.is_recv && not h.returned_ok) {
      void* p = h.slot ? *h.slot : nullptr;
      if (h.is_mess && h.slot == nullptr && h.mess && h.mess->get_impl())
        p = static_cast<ka::MessImpl*>(h.mess->get_impl())->get_payload();
      out("late " + std::to_string(hid) + " => " + payload_str(p));
    } else if (h.is_recv && h.slot) {
      out("rewrite " + std::to_string(hid) + " => " + payload_str(*h.slot));
    }
  }
  char buf[64];
  snprintf(buf, sizeof buf, "%a", sg4::Engine::get_clock());
  out(std::string("end => ") + (deadlock ? "deadlock " : "ok ") + buf);
  fflush(stdout);
}

static int run_program(const std::string& line, int argc, char** argv)
{
  // parse
  std::vector<std::string> parts;
  {
    std::stringstream ss(line);
    std::string part;
    while (std::getline(ss, part, '|'))
      parts.push_back(part);
  }
  std::stringstream hs(parts[0]);
  std::string P;
  long idx;
  int nact;
  std::string bw_s, lat_s;
  hs >> P >> idx >> nact >> bw_s >> lat_s;
  double bw = strtod(bw_s.c_str(), nullptr), lat = strtod(lat_s.c_str(), nullptr);
  prog.assign(nact, {});
  host_of.assign(nact, 0);
  seq_of.assign(nact, 0);
  for (int a = 0; a < nact && a + 1 < (int)parts.size(); a++) {
    std::stringstream as(parts[a + 1]);
    as >> host_of[a];
    std::string rest;
    std::getline(as, rest);
    std::stringstream os(rest);
    std::string opstr;
    while (std::getline(os, opstr, ';')) {
      std::stringstream ts(opstr);
      std::vector<std::string> toks;
      std::string tk;
      while (ts >> tk)
        toks.push_back(tk);
      if (not toks.empty())
        prog[a].push_back(toks);
    }
  }
  (void)idx;

  sg4::Engine e(&argc, argv);
  auto* zone = e.get_netzone_root();
  std::vector<sg4::Host*> hosts;
  int nhosts = 0;
  for (int h : host_of)
    nhosts = std::max(nhosts, h + 1);
  for (int i = 0; i < nhosts; i++)
    hosts.push_back(zone->add_host("h" + std::to_string(i), 1e9));
  auto* link = zone->add_link("L", bw)->set_latency(lat);
  for (int i = 0; i < nhosts; i++) {
    for (int j = i + 1; j < nhosts; j++)
      zone->add_route(hosts[i], hosts[j], {link});
  }
  zone->seal();
  for (int m = 0; m < nmb; m++)
    mbs.push_back(sg4::Mailbox::by_name("mb" + std::to_string(m)));
  for (int q = 0; q < nq; q++)
    mqs.push_back(sg4::MessageQueue::by_name("mq" + std::to_string(q)));
  for (int a = 0; a < nact; a++) {
    auto actor = hosts[host_of[a]]->add_actor("a" + std::to_string(a), [a]() { actor_fun(a); });
    actor_of_pid[actor->get_pid()] = a;
  }
  sg4::Engine::on_deadlock_cb([]() {
    final_dump(true);
    over = true;
    _exit(0);
  });
  e.run();
  final_dump(false);
  over = true;
  _exit(0);
}

int main(int argc, char** argv)
{
  std::string line;
  while (std::getline(std::cin, line)) {
    if (line.empty() || line[0] == '#')
      continue;
    printf("prog %ld =>\n", atol(line.c_str() + 2));
    fflush(stdout);
    pid_t pid = fork();
    if (pid == 0) {
      run_program(line, argc, argv);
      _exit(0);
    }
    int status = 0;
    waitpid(pid, &status, 0);
    if (not(WIFEXITED(status) && WEXITSTATUS(status) == 0)) {
      printf("end => crash %d\n", WIFSIGNALED(status) ? 1000 + WTERMSIG(status) : WEXITSTATUS(status));
    }
    fflush(stdout);
  }
  return 0;
}
