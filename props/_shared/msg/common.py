"""Shared by C08 and C09: program syntax helpers, hexfloat canonicalisation, running the harness + a Lean driver
and splitting the verdicts per program."""
import os
import re
from fractions import Fraction

HERE = os.path.dirname(os.path.abspath(__file__))
HARNESS = os.path.join(HERE, "harness.cpp")
HEX = re.compile(r"^-?0x[0-9a-fA-F.]+p[+-]?\d+$")


def hexf(x):
    """exact C hexfloat of a dyadic Fraction"""
    f = float(x)
    assert Fraction(f) == Fraction(x), x
    return f.hex()


def canon(line):
    """hexfloat tokens -> exact rationals n/d (the Lean drivers parse those)"""
    toks = line.split(" ")
    for i, t in enumerate(toks):
        if HEX.match(t):
            fr = Fraction(float.fromhex(t))
            toks[i] = "%d/%d" % (fr.numerator, fr.denominator)
    return " ".join(toks)


class Durations:
    """every duration of a program gets its own negative power of two, so that two different sums of durations never
    coincide: no timer ever fires at the date of another event (ties would be an allowed choice of the engine)."""

    def __init__(self):
        self.k = 0

    def make(self, whole):
        self.k += 1
        return hexf(Fraction(whole) + Fraction(1, 2 ** self.k))


def program_line(idx, actors, bw="1e6", lat="1e-3"):
    """actors: list of (host, [op strings])"""
    return "P %d %d %s %s | " % (idx, len(actors), bw, lat) + " | ".join(
        "%d %s" % (h, " ; ".join(ops)) for h, ops in actors)


def build(ctx):
    return ctx.build_harness(HARNESS, name="harness", flags=("-fno-access-control",))


def execute(ctx, harness, drv, programs, timeout=1200):
    """Run the programs; returns a list of dicts {program, log, verdicts, bad} (one per program), or None after having
    appended to ctx.broken when the machinery itself failed."""
    # the harness forks one child per program; run a few harness processes side by side on contiguous chunks
    import concurrent.futures
    nw = 1 if len(programs) < 400 else 6
    size = (len(programs) + nw - 1) // nw
    chunks = [programs[i:i + size] for i in range(0, len(programs), size)]
    with concurrent.futures.ThreadPoolExecutor(max_workers=nw) as ex:
        results = list(ex.map(lambda ch: ctx.run_lines([harness, "--log=root.thres:critical"], ch, timeout=timeout), chunks))
    out = []
    for rc, o, err in results:
        if rc != 0:
            ctx.broken.append({"kind": "harness-run", "rc": rc, "stderr": err[-2000:]})
            return None
        out += o
    out = [canon(l) for l in out if " =>" in l or l.endswith("=>")]
    rc, verdicts, err = ctx.run_lines([drv], out, timeout=timeout)
    if rc != 0 or not verdicts or verdicts[-1] != "END %d" % len(out):
        ctx.broken.append({"kind": "driver-run", "rc": rc, "stderr": err[-2000:], "tail": verdicts[-3:]})
        return None
    res = []
    cur = None
    for l, v in zip(out, verdicts):
        if l.startswith("prog "):
            cur = {"log": [], "verdicts": [], "bad": []}
            res.append(cur)
        if cur is None:
            continue
        cur["log"].append(l)
        cur["verdicts"].append(v)
        if v != "ok":
            cur["bad"].append((l, v))
    if len(res) != len(programs):
        ctx.broken.append({"kind": "harness-output", "programs": len(programs), "logs": len(res)})
        return None
    for r, p in zip(res, programs):
        r["program"] = p
        if not r["log"][-1].startswith("end =>"):
            r["bad"].append((r["log"][-1], "BADLINE truncated log"))
    return res
