/* Shared harness of C04 C05 C06 C07: an interpreter of small synchronisation programs over the public S4U API.
 *
 * Input (stdin, or the file given by --prog): a sequence of programs
 *     prog <id>
 *     mutex <k> <recursive 0|1>      sem <k> <capacity>      cond <k>      bar <k> <expected>
 *     actor <a> <op> <op> ...
 *     end
 * ops:  lock:m try:m tol:m (try_lock, then lock if it failed) unlock:m owner:m
 *        alock:m mwait:m (kernel-level split path: MutexImpl::lock_async / wait_for)
 *       acq:s acqt:s:<timeout> rel:s cap:s
 *       wait:c:m waitfor:c:m:<timeout> sig:c bcast:c
 *       bar:b   sleep:<duration>
 * Output: one line per event, in global order (single worker thread => the order of `call` lines inside a
 * scheduling round is the order in which maestro handles the simcalls):
 *     P <id>
 *     E <ospid> <clock %a> <actor> call <op> <args..>        just before the S4U call
 *     E <ospid> <clock %a> <actor> ret <op> <result..>       right after
 *     E <ospid> <clock %a> <actor> exit
 *     K <ospid> <file:line> <mc_client message>              (--mc only) what the checker asks this process to execute
 *     D <ospid> deadlock                                     Engine::on_deadlock fired
 *     X <exit status>                                        (normal mode) status of the forked child: ok | sig<n> | rc<n>
 * Normal mode: every program runs in a forked child (the Engine is a singleton; xbt_assert aborts the process).
 * MC mode (--mc LOG --prog FILE under simgrid-mc): one program, lines appended to LOG with O_APPEND by every
 * application process the checker creates.
 */
#include "src/kernel/activity/MutexImpl.hpp"
#include "src/kernel/actor/SynchroObserver.hpp"
#include "src/xbt/log_private.hpp"
#include <simgrid/s4u.hpp>

#include <cstdio>
#include <cstring>
#include <fcntl.h>
#include <fstream>
#include <iostream>
#include <sstream>
#include <string>
#include <sys/resource.h>
#include <sys/wait.h>
#include <unistd.h>
#include <vector>

namespace sg4 = simgrid::s4u;

XBT_LOG_EXTERNAL_CATEGORY(mc_client);

static int out_fd = 1;
static void emit(const std::string& s)
{
  std::string l = s + "\n";
  ssize_t r     = write(out_fd, l.data(), l.size());
  (void)r;
}

struct Op {
  std::string name;
  std::vector<std::string> args;
};
struct Program {
  std::string id;
  std::vector<std::pair<int, bool>> mutexes;
  std::vector<std::pair<int, unsigned>> sems;
  std::vector<int> conds;
  std::vector<std::pair<int, unsigned>> bars;
  std::vector<std::vector<Op>> actors;
};

static std::vector<std::string> split(const std::string& s, char c)
{
  std::vector<std::string> r;
  std::stringstream ss(s);
  std::string t;
  while (std::getline(ss, t, c))
    if (not t.empty())
      r.push_back(t);
  return r;
}

static bool read_program(std::istream& in, Program& p)
{
  std::string line;
  bool started = false;
  while (std::getline(in, line)) {
    auto t = split(line, ' ');
    if (t.empty())
      continue;
    if (t[0] == "prog") {
      p       = Program();
      p.id    = t.size() > 1 ? t[1] : "?";
      started = true;
    } else if (t[0] == "mutex")
      p.mutexes.emplace_back(std::stoi(t[1]), t[2] == "1");
    else if (t[0] == "sem")
      p.sems.emplace_back(std::stoi(t[1]), (unsigned)std::stoul(t[2]));
    else if (t[0] == "cond")
      p.conds.push_back(std::stoi(t[1]));
    else if (t[0] == "bar")
      p.bars.emplace_back(std::stoi(t[1]), (unsigned)std::stoul(t[2]));
    else if (t[0] == "actor") {
      std::vector<Op> ops;
      for (size_t i = 2; i < t.size(); i++) {
        auto f = split(t[i], ':');
        Op o;
        o.name = f[0];
        o.args.assign(f.begin() + 1, f.end());
        ops.push_back(o);
      }
      p.actors.push_back(ops);
    } else if (t[0] == "end")
      return started;
  }
  return false;
}

static std::string hexd(double d)
{
  char b[64];
  snprintf(b, sizeof b, "%a", d);
  return b;
}

struct World {
  std::vector<simgrid::kernel::activity::MutexImpl*> mimpl;
  std::vector<sg4::MutexPtr> mutexes;
  std::vector<sg4::SemaphorePtr> sems;
  std::vector<sg4::ConditionVariablePtr> conds;
  std::vector<sg4::BarrierPtr> bars;
};

static int owner_index(sg4::Mutex* m)
{
  sg4::Actor* o = m->get_owner();
  return o == nullptr ? -1 : (int)o->get_pid() - 1;
}

static void log_ev(int a, const std::string& what)
{
  emit("E " + std::to_string(getpid()) + " " + hexd(sg4::Engine::get_clock()) + " " + std::to_string(a) + " " + what);
}

static void actor_body(World* w, int a, std::vector<Op> ops)
{
  using namespace simgrid::kernel;
  activity::MutexAcquisitionImplPtr last_acq;
  bool last_try = false;
  log_ev(a, "start " + std::to_string(sg4::this_actor::get_pid()));
  std::vector<Op> todo(ops.rbegin(), ops.rend()); // stack: `tol:m` expands to try:m [+ lock:m when the try failed]
  while (not todo.empty()) {
    Op o = todo.back();
    todo.pop_back();
    if (o.name == "tol") {
      todo.push_back(Op{"lockif0", o.args});
      o.name = "try";
    }
    if (o.name == "lockif0") {
      if (last_try)
        continue;
      o.name = "lock";
    }
    std::string args;
    for (auto const& x : o.args)
      args += " " + x;
    log_ev(a, "call " + o.name + args);
    std::string res;
    int k = (o.name == "sleep") ? 0 : std::stoi(o.args[0]);
    if (o.name == "lock")
      w->mutexes[k]->lock();
    else if (o.name == "try")
    {
      last_try = w->mutexes[k]->try_lock();
      res      = last_try ? " 1" : " 0";
    }
    else if (o.name == "unlock")
      w->mutexes[k]->unlock();
    else if (o.name == "owner") {
      // read inside a simcall, so that the observation is ordered with the other simcalls of the scheduling round
      auto* mu = w->mutexes[k].get();
      res      = " " + std::to_string(actor::simcall_answered([mu] { return owner_index(mu); }));
    }
    else if (o.name == "alock") {
      actor::ActorImpl* issuer = actor::ActorImpl::self();
      auto* impl               = w->mimpl[k];
      actor::MutexObserver obs{issuer, simgrid::mc::Transition::Type::MUTEX_ASYNC_LOCK, impl};
      bool granted = false; // is_granted() read inside the simcall: later simcalls of the round may grant it
      last_acq     = actor::simcall_answered(
          [issuer, impl, &granted] {
            auto acq = impl->lock_async(issuer);
            granted  = acq->is_granted();
            return acq;
          },
          &obs);
      res = granted ? " 1" : " 0";
    } else if (o.name == "mwait") {
      actor::ActorImpl* issuer = actor::ActorImpl::self();
      actor::MutexAcquisitionObserver obs{issuer, simgrid::mc::Transition::Type::MUTEX_WAIT, last_acq.get(), -1};
      actor::simcall_blocking([issuer, &last_acq] { last_acq->wait_for(issuer, -1); }, &obs);
    } else if (o.name == "acq")
      w->sems[k]->acquire();
    else if (o.name == "acqt")
      res = w->sems[k]->acquire_timeout(std::strtod(o.args[1].c_str(), nullptr)) ? " timeout" : " ok";
    else if (o.name == "rel")
      w->sems[k]->release();
    else if (o.name == "cap") {
      auto* se = w->sems[k].get();
      res      = " " + std::to_string(actor::simcall_answered([se] { return se->get_capacity(); }));
    }
    else if (o.name == "wait") {
      int m = std::stoi(o.args[1]);
      w->conds[k]->wait(w->mutexes[m]);
      res = " ok " + std::to_string(owner_index(w->mutexes[m].get()));
    } else if (o.name == "waitfor") {
      int m  = std::stoi(o.args[1]);
      auto r = w->conds[k]->wait_for(w->mutexes[m], std::strtod(o.args[2].c_str(), nullptr));
      res    = std::string(r == std::cv_status::timeout ? " timeout " : " ok ") +
            std::to_string(owner_index(w->mutexes[m].get()));
    } else if (o.name == "sig")
      w->conds[k]->notify_one();
    else if (o.name == "bcast")
      w->conds[k]->notify_all();
    else if (o.name == "bar")
      res = w->bars[k]->wait() ? " 1" : " 0";
    else if (o.name == "sleep")
      sg4::this_actor::sleep_for(std::strtod(o.args[0].c_str(), nullptr));
    else
      xbt_die("unknown op %s", o.name.c_str());
    log_ev(a, "ret " + o.name + res);
  }
  log_ev(a, "exit");
}

/* kernel-side observation used in MC mode: which actor's pending simcall the checker makes the application execute.
 * Taken from the VERBOSE messages of the mc_client category (AppSide.cpp), captured by a private appender, so that
 * no hook in simgrid is needed:   "MC asked to replay <aid>(..."   "send SIMCALL_EXECUTE_REPLY(<name>:<aid>) ..."
 * "App <pid> forks subprocess <pid>." */
static void h_append(const s_xbt_log_appender_t*, const char* str)
{
  std::string m(str);
  while (not m.empty() && (m.back() == '\n' || m.back() == ' '))
    m.pop_back();
  emit("K " + std::to_string(getpid()) + " " + m);
}
static void h_free(const s_xbt_log_appender_t*) {}

static int run_program(const Program& p, int argc, char** argv, bool mc)
{
  sg4::Engine e(&argc, argv);
  auto* zone = e.get_netzone_root();
  std::vector<sg4::Host*> hosts;
  for (size_t i = 0; i < p.actors.size(); i++)
    hosts.push_back(zone->add_host("h" + std::to_string(i), 1e9));
  zone->seal();

  if (mc) {
    static s_xbt_log_appender_t app{h_append, h_free, nullptr};
    xbt_log_category_t cat = &_XBT_LOGV(mc_client);
    _xbt_log_cat_init(cat, xbt_log_priority_verbose); // initialise first: the lazy initialisation would reset the threshold
    xbt_log_threshold_set(cat, xbt_log_priority_verbose);
    xbt_log_appender_set(cat, &app);
    xbt_log_layout_set(cat, xbt_log_layout_format_new("%l %m"));
    xbt_log_additivity_set(cat, 0);
  }

  World w;
  auto fit = [](auto& v, size_t k) {
    if (v.size() <= k)
      v.resize(k + 1);
  };
  for (auto const& [k, rec] : p.mutexes) {
    fit(w.mutexes, k);
    fit(w.mimpl, k);
    auto* impl   = new simgrid::kernel::activity::MutexImpl(rec); // what Mutex::create(rec) does, keeping the impl
    w.mimpl[k]   = impl;
    w.mutexes[k] = sg4::MutexPtr(&impl->get_iface(), false);
  }
  for (auto const& [k, cap] : p.sems) {
    fit(w.sems, k);
    w.sems[k] = sg4::Semaphore::create(cap);
  }
  for (int k : p.conds) {
    fit(w.conds, k);
    w.conds[k] = sg4::ConditionVariable::create();
  }
  for (auto const& [k, n] : p.bars) {
    fit(w.bars, k);
    w.bars[k] = sg4::Barrier::create(n);
  }
  sg4::Engine::on_deadlock_cb([] {
    emit("D " + std::to_string(getpid()) + " deadlock");
    _exit(0); // the engine would now kill the blocked actors; nothing more to observe
  });
  World* wp = new World(w); // leaked on purpose: objects still held by blocked actors must not be destroyed
  for (size_t a = 0; a < p.actors.size(); a++) {
    auto ops = p.actors[a];
    int ai   = (int)a;
    hosts[a]->add_actor("a" + std::to_string(a), [wp, ai, ops] { actor_body(wp, ai, ops); });
  }
  w = World();
  e.run();
  emit("E " + std::to_string(getpid()) + " " + hexd(sg4::Engine::get_clock()) + " -1 end");
  return 0;
}

int main(int argc, char** argv)
{
  std::string mclog, progfile;
  std::vector<char*> rest;
  for (int i = 0; i < argc; i++) {
    if (strcmp(argv[i], "--mc") == 0 && i + 1 < argc)
      mclog = argv[++i];
    else if (strcmp(argv[i], "--prog") == 0 && i + 1 < argc)
      progfile = argv[++i];
    else
      rest.push_back(argv[i]);
  }
  int rargc = (int)rest.size();
  rest.push_back(nullptr);

  if (not mclog.empty()) {
    out_fd = open(mclog.c_str(), O_WRONLY | O_APPEND | O_CREAT, 0644);
    std::ifstream in(progfile);
    Program p;
    if (not read_program(in, p))
      return 64;
    return run_program(p, rargc, rest.data(), true);
  }

  std::ifstream fin;
  if (not progfile.empty())
    fin.open(progfile);
  std::istream& in = progfile.empty() ? std::cin : fin;
  Program p;
  while (read_program(in, p)) {
    emit("P " + p.id);
    fflush(nullptr);
    pid_t c = fork();
    if (c == 0) {
      int devnull = open("/dev/null", O_WRONLY);
      dup2(devnull, 2); // assertion messages and deadlock reports are not part of the observation
      struct rlimit rl = {0, 0};
      setrlimit(RLIMIT_CORE, &rl); // programs that unlock as non-owner abort on purpose: no core dump
      alarm(60);
      run_program(p, rargc, rest.data(), false);
      _exit(0);
    }
    int st = 0;
    waitpid(c, &st, 0);
    if (WIFSIGNALED(st))
      emit("X sig" + std::to_string(WTERMSIG(st)));
    else if (WEXITSTATUS(st) != 0)
      emit("X rc" + std::to_string(WEXITSTATUS(st)));
    else
      emit("X ok");
  }
  return 0;
}
