"""Shared correspondence machinery of C04 C05 C06 C07 (synchronisation objects).

programs (dicts) -> text for props/_shared/sync/sync_interp.cpp -> its event log -> canonical lines for the Lean
trace-acceptance driver (lean/SgVerif/Sync/DriverLib.lean) -> verdict per program.
Durations and clocks are integer ticks of 2^-20 s on the Python/Lean side (exact lane: the harness prints `%a`)."""
import json
import os
import re
import subprocess
from fractions import Fraction

from vlib import core

TICK = 2 ** 20
HERE = os.path.dirname(os.path.abspath(__file__))
DUR_ARG = {"sleep": 0, "acqt": 1, "waitfor": 2}      # index of the duration argument


def hexdur(t):
    return float.hex(t / TICK)


def ticks(tok):
    f = Fraction(float.fromhex(tok)) * TICK
    if f.denominator != 1:
        raise ValueError("clock/duration %s is not a multiple of 2^-20" % tok)
    return int(f)


def prog_text(p):
    out = ["prog %s" % p["id"]]
    for k, r in p.get("mutexes", []):
        out.append("mutex %d %d" % (k, 1 if r else 0))
    for k, c in p.get("sems", []):
        out.append("sem %d %d" % (k, c))
    for k in p.get("conds", []):
        out.append("cond %d" % k)
    for k, n in p.get("bars", []):
        out.append("bar %d %d" % (k, n))
    for a, ops in enumerate(p["actors"]):
        toks = []
        for op in ops:
            name, args = op[0], list(op[1:])
            if name in DUR_ARG:
                args[DUR_ARG[name]] = hexdur(args[DUR_ARG[name]])
            toks.append(":".join([name] + [str(x) for x in args]))
        out.append("actor %d %s" % (a, " ".join(toks)))
    out.append("end")
    return out


def header(p, mode):
    out = ["prog %s %d" % (mode, len(p["actors"]))]
    for k, r in p.get("mutexes", []):
        out.append("mutex %d %d" % (k, 1 if r else 0))
    for k, c in p.get("sems", []):
        out.append("sem %d %d" % (k, c))
    for k in p.get("conds", []):
        out.append("cond %d" % k)
    for k, n in p.get("bars", []):
        out.append("bar %d %d" % (k, n))
    return out


class Canon:
    """E-lines of one run -> driver lines"""

    def __init__(self):
        self.lines = []
        self.args = {}
        self.exited = set()
        self.err = None
        self.condtimers = []     # (mutex, deadline) of wait_for calls: equal pairs are a tie the check does not order
        self.nevents = 0

    def feed(self, t):
        # t = tokens after "E <pid>"
        clock, a, what = t[0], int(t[1]), t[2]
        try:
            ck = ticks(clock)
        except ValueError as e:
            self.err = str(e)
            return
        if what == "start":
            if int(t[3]) != a + 1:
                self.err = "actor %d has aid %s" % (a, t[3])
        elif what == "call":
            op, args = t[3], list(t[4:])
            if op in DUR_ARG:
                args[DUR_ARG[op]] = str(ticks(args[DUR_ARG[op]]))
            if op == "waitfor":
                self.condtimers.append((args[1], ck + int(args[2])))
            self.args[a] = args
            self.lines.append("c %d %d %s %s" % (ck, a, op, " ".join(args)))
            self.nevents += 1
        elif what == "ret":
            op, res = t[3], t[4:]
            self.lines.append(("r %d %d %s %s | %s" % (ck, a, op, " ".join(res), " ".join(self.args.get(a, [])))))
        elif what == "exit":
            self.exited.add(a)
            self.lines.append("x %d %d" % (ck, a))
        elif what == "end":
            pass

    def tie(self):
        return len(set(self.condtimers)) != len(self.condtimers)


def run_normal(ctx, h, progs):
    """-> list of dicts {prog, lines (canonical), log, infra (str|None), tie}"""
    # the harness forks one child per program; a few harness processes run side by side
    from concurrent.futures import ThreadPoolExecutor
    nw = 4 if len(progs) >= 16 else 1
    chunks = [progs[i::nw] for i in range(nw)]

    def one(chunk):
        text = []
        for p in chunk:
            text += prog_text(p)
        return ctx.run_lines([h, "--log=root.thres:critical", "--cfg=debug/stacktrace:none"], text, timeout=1800)
    with ThreadPoolExecutor(nw) as ex:
        outs = list(ex.map(one, chunks))
    rc = max(o[0] for o in outs)
    err = "".join(o[2] for o in outs)
    out = [l for o in outs for l in o[1]]
    res = []
    cur = None
    byid = {p["id"]: p for p in progs}
    for l in out:
        t = l.split()
        if not t:
            continue
        if t[0] == "P":
            p = byid.get(t[1])
            cur = {"prog": p, "canon": Canon(), "log": [], "infra": None, "dead": False, "end": False}
            res.append(cur)
            continue
        if cur is None:
            continue
        cur["log"].append(l)
        if t[0] == "E":
            if t[3] == "-1":
                cur["end"] = True
            else:
                cur["canon"].feed(t[2:])
        elif t[0] == "D":
            cur["dead"] = True
        elif t[0] == "X":
            c = cur["canon"]
            lastcall = [x for x in c.lines if x.startswith("c ")][-1:] or [""]
            if t[1] == "sig6":
                how = "abort"
            elif t[1] == "sig11" and lastcall[0].split()[3:4] in (["wait"], ["waitfor"]):
                # do_wait's ownership assertion formats `mutex->get_owner()->get_pid()`: with a free mutex the message
                # itself dereferences a null owner, so the failed assertion shows up as SIGSEGV instead of SIGABRT
                how = "abort"
            elif t[1] == "ok" and cur["dead"]:
                how = "deadlock"
            elif t[1] == "ok" and cur["end"]:
                how = "finish"
            else:
                how = None
                cur["infra"] = "harness child ended with %s" % t[1]
            if c.err:
                cur["infra"] = c.err
            cur["lines"] = header(cur["prog"], "n") + c.lines + ["end %s" % how]
            cur["tie"] = c.tie()
            cur["nevents"] = c.nevents
    pos = {p["id"]: i for i, p in enumerate(progs)}
    res.sort(key=lambda r: pos.get(r["prog"]["id"], 0) if r["prog"] else 0)
    if rc != 0 or len(res) != len(progs) or any("lines" not in r for r in res):
        ctx.broken.append({"kind": "harness-run", "rc": rc, "stderr": err[-1500:], "programs": len(progs), "got": len(res)})
        return [r for r in res if "lines" in r]
    return res


def run_mc(ctx, h, p, timeout=300):
    """run one program under simgrid-mc without reduction; -> (list of trace dicts, info)"""
    work = os.path.join(ctx.work, "mc")
    os.makedirs(work, exist_ok=True)
    pf = os.path.join(work, "%s.prog" % p["id"])
    lf = os.path.join(work, "%s.log" % p["id"])
    open(pf, "w").write("\n".join(prog_text(p)) + "\n")
    if os.path.exists(lf):
        os.remove(lf)
    cmd = [os.path.join(core.SGBUILD, "bin", "simgrid-mc"), "--cfg=model-check/reduction:none", h, "--mc", lf,
           "--prog", pf, "--log=root.thres:critical", "--cfg=debug/stacktrace:none"]
    try:
        q = core.sh(cmd, env=ctx.sg_env(), timeout=timeout, cwd=work)
        rc = q.returncode
    except subprocess.TimeoutExpired:
        return [], {"rc": "timeout"}
    if not os.path.exists(lf):
        return [], {"rc": rc, "stderr": q.stderr[-500:]}
    per = {}
    order = []
    forks = {}
    root = None
    for l in open(lf):
        t = l.split()
        if len(t) < 3 or t[0] not in "EK":
            continue
        pid = t[1]
        if root is None:
            root = pid
        if pid not in per:
            per[pid] = []
            order.append(pid)
        if t[0] == "K":
            msg = " ".join(t[3:])
            m = re.match(r"App (\d+) forks subprocess (\d+)\.", msg)
            if m:
                forks[m.group(2)] = (pid, len(per[pid]))
                continue
            m = re.match(r"MC asked to replay (\d+)\(", msg) or re.match(r"send SIMCALL_EXECUTE_REPLY\([^:]*:(\d+)\)", msg)
            if m:
                per[pid].append(("e", int(m.group(1)) - 1))
        else:
            per[pid].append(("E", t[2:]))

    def full(pid):
        if pid in forks:
            par, n = forks[pid]
            return full(par)[:n] + per.get(pid, [])
        return per.get(pid, [])

    traces = []
    children = [c for c in order if c in forks]
    for i, pid in enumerate(children):
        if any(forks[o][0] == pid for o in forks):      # an inner node (a process that was forked from): prefix only
            continue
        c = Canon()
        for kind, v in full(pid):
            if kind == "e":
                c.lines.append("e %d" % v)
            else:
                c.feed(v)
        complete = len(c.exited) == len(p["actors"])
        how = "finish" if complete else ("deadlock" if (rc == 2 and i == len(children) - 1) else "partial")
        traces.append({"prog": p, "lines": header(p, "m") + c.lines + ["end %s" % how], "infra": c.err, "complete": complete,
                       "tie": False, "pid": pid, "nevents": c.nevents})
    return traces, {"rc": rc, "traces": len(traces)}


def judge(ctx, drv, items):
    """feed the canonical lines of all items to the driver; sets item['verdict'] = 'ok' or the first non-ok verdict"""
    feed = []
    owner = []
    for i, it in enumerate(items):
        if it.get("infra") or it.get("tie"):
            continue
        for l in it["lines"]:
            feed.append(l)
            owner.append(i)
    rc, verdicts, err = ctx.run_lines([drv], feed, timeout=1200)
    if rc != 0 or not verdicts or verdicts[-1] != "END %d" % len(feed):
        ctx.broken.append({"kind": "driver-run", "rc": rc, "stderr": err[-1500:]})
        return False
    for it in items:
        it["verdict"] = "ok"
    for i, v in zip(owner, verdicts):
        if v != "ok" and items[i]["verdict"] == "ok":
            items[i]["verdict"] = v
    return True


def classify(verdict):
    if "more than one 'last'" in verdict or "waits returned true" in verdict:
        return "barrier-last-flag"
    return None


def account(ctx, items, mode, nontrivial, keyfn=None):
    """decision protocol for a list of judged items"""
    for it in items:
        ctx.cov["evaluations"] += 1
        if it.get("infra"):
            ctx.broken.append({"kind": "harness-infra", "prog": it["prog"]["id"], "what": it["infra"]})
            continue
        if it.get("tie"):
            ctx.cov["tie_skipped"] = ctx.cov.get("tie_skipped", 0) + 1
            continue
        v = it.get("verdict", "?")
        case = {"mode": mode, "program": it["prog"], "driver_input": it["lines"], "verdict": v}
        if v == "ok":
            ctx.cov["traces_validated_against_impl"] += 1
            if nontrivial(it):
                ctx.cov["distinct_nontrivial"] += 1
        elif v.startswith("MONFAIL"):
            key = (keyfn or classify)(v)
            ctx.violation(v, case, key=key)
        elif v.startswith("DISAGREE"):
            ctx.violation("trace of the real run is not accepted by the reference model (whose traces are proved to satisfy "
                          "the property): " + v, case, key=None)
        else:
            ctx.broken.append({"kind": "driver-badline", "verdict": v, "prog": it["prog"]["id"]})


def load_corpus(path):
    """corpus.txt: blocks in the harness program syntax, optional `#` comments -> program dicts"""
    progs = []
    cur = None
    for l in open(path):
        l = l.strip()
        if not l or l.startswith("#"):
            continue
        t = l.split()
        if t[0] == "prog":
            cur = {"id": t[1], "mutexes": [], "sems": [], "conds": [], "bars": [], "actors": []}
        elif t[0] == "mutex":
            cur["mutexes"].append((int(t[1]), t[2] == "1"))
        elif t[0] == "sem":
            cur["sems"].append((int(t[1]), int(t[2])))
        elif t[0] == "cond":
            cur["conds"].append(int(t[1]))
        elif t[0] == "bar":
            cur["bars"].append((int(t[1]), int(t[2])))
        elif t[0] == "actor":
            ops = []
            for tok in t[2:]:
                f = tok.split(":")
                name, args = f[0], f[1:]
                args = [ticks(x) if (name in DUR_ARG and i == DUR_ARG[name]) else int(x) for i, x in enumerate(args)]
                ops.append(tuple([name] + args))
            cur["actors"].append(ops)
        elif t[0] == "end":
            progs.append(cur)
            cur = None
    return progs


def replay_case(ctx):
    return json.load(open(ctx.replay))["case"]


def standard_run(ctx, gen_normal, gen_mc, nontrivial, quick=(150, 4), thorough=(4000, 40), mc_timeout=120, keyfn=None):
    """the run() shared by the four properties"""
    ctx.ensure_simgrid(["simgrid", "simgrid-mc"])
    ctx.lean_prove()
    drv = ctx.lean_exe()
    h = ctx.build_harness(os.path.join(HERE, "sync_interp.cpp"), name="sync_interp")
    if not (drv and h):
        return
    ctx.assumptions += [
        "single worker thread: the order of `call` lines inside a scheduling round is the order in which maestro handles "
        "the simcalls (EngineImpl::run iterates actors_that_ran_ in run order)",
        "MC mode: which actor's pending simcall is executed is read from the VERBOSE messages of the mc_client category "
        "(AppSide.cpp), captured in-process by a log appender",
        "timeouts: the driver feeds 'timeout fires' to the model when the observed clock reaches the deadline; two timed "
        "cond waits on the same mutex with equal deadlines are a tie the check does not order (skipped, counted)",
        "doubles: exact lane (dyadic durations, %a), no rounding modelled",
    ]
    nn, nm = quick if ctx.tier == "quick" else thorough
    if ctx.broken:
        nn *= 10
    if ctx.replay:
        case = replay_case(ctx)
        p = case["program"]
        p["actors"] = [[tuple(o) for o in ops] for ops in p["actors"]]
        for k in ("mutexes", "sems", "bars"):
            p[k] = [tuple(x) for x in p.get(k, [])]
        if case["mode"] == "n":
            items = run_normal(ctx, h, [p])
        else:
            items, _ = run_mc(ctx, h, p, timeout=mc_timeout)
        if judge(ctx, drv, items):
            account(ctx, items, case["mode"], nontrivial, keyfn)
        return
    rng = core.SplitMix(ctx.seed)
    corpus = load_corpus(os.path.join(ctx.pdir, "corpus.txt"))
    progs = corpus + [gen_normal(rng.fork(i), "g%d" % i) for i in range(nn)]
    items = run_normal(ctx, h, progs)
    if judge(ctx, drv, items):
        account(ctx, items, "n", nontrivial, keyfn)
    ops = {}
    ends = {}
    for it in items:
        for l in it["lines"]:
            t = l.split()
            if t[0] == "c":
                ops[t[3]] = ops.get(t[3], 0) + 1
            if t[0] == "end":
                ends[t[1]] = ends.get(t[1], 0) + 1
    ctx.cov["normal_programs"] = len(items)
    ctx.cov["op_distribution"] = ops
    ctx.cov["outcomes"] = ends
    ctx.cov["samples"] = [" / ".join(prog_text(it["prog"])) for it in items[len(corpus):len(corpus) + 3]]
    # model-checker interleavings
    mcn = 0
    mct = 0
    mcinfo = []
    for i in range(nm):
        p = gen_mc(rng.fork(100000 + i), "m%d" % i)
        traces, info = run_mc(ctx, h, p, timeout=mc_timeout)
        mcinfo.append(info)
        if info.get("rc") not in (0, 2):
            ctx.notes.append("simgrid-mc on %s: %s (program skipped)" % (p["id"], info))
            ctx.cov["mc_skipped"] = ctx.cov.get("mc_skipped", 0) + 1
            continue
        mcn += 1
        mct += len(traces)
        if judge(ctx, drv, traces):
            account(ctx, traces, "m", lambda it: it.get("complete", False), keyfn)
    ctx.cov["mc_programs"] = mcn
    ctx.cov["mc_traces"] = mct
