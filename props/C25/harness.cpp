// C25 harness: the same graph of one-hop routes is declared in a Floyd, a Dijkstra and a DijkstraCache zone of the REAL
// library (+ a Full zone with its own declared routes); every query asks Host::route_to inside one of them.
// stdin: cases.   new <id> ; n <nodes> ; route <a> <b> <sym> <links..> ; full <a> <b> <sym> <links..> ; seal ;
//                 Q <floyd|dijkstra|dijkstracache|full> <a> <b>
// stdout: description lines echoed, `Q .. => <links..>` | `exc` | `abort` | `timeout`.
// Hosts are f<i>, d<i>, c<i>, u<i> (netpoint id i in each zone); link k of zone z is "<z>l<k>"; the loopback is link 0.
// Process tree per case: builder (Engine + platform, never answers) -> worker (answers in-process: the DijkstraCache
// route cache lives from one query to the next); a query that aborts or spins (200 ms of CPU time) kills the worker, the
// builder reports it and forks a new worker from its pristine copy.
#include <simgrid/kernel/routing/NetPoint.hpp>
#include <simgrid/kernel/routing/NetZoneImpl.hpp>
#include <simgrid/s4u.hpp>

#include <cstdio>
#include <cstring>
#include <fcntl.h>
#include <iostream>
#include <map>
#include <sstream>
#include <string>
#include <sys/mman.h>
#include <sys/resource.h>
#include <sys/time.h>
#include <sys/wait.h>
#include <unistd.h>
#include <vector>

namespace sg4 = simgrid::s4u;

static std::vector<std::string> split(const std::string& s)
{
  std::istringstream in(s);
  std::vector<std::string> r;
  std::string t;
  while (in >> t)
    r.push_back(t);
  return r;
}

struct World {
  std::map<std::string, sg4::NetZone*> zones;                 // by algo name
  std::map<std::string, std::vector<sg4::Host*>> hosts;       // by algo name
  std::map<std::string, std::map<int, sg4::Link*>> links;     // by algo name
};

static const char* prefix_of(const std::string& algo)
{
  if (algo == "floyd")
    return "f";
  if (algo == "dijkstra")
    return "d";
  if (algo == "dijkstracache")
    return "c";
  return "u";
}

static sg4::Link* link_of(World& w, const std::string& algo, int k)
{
  auto& m = w.links[algo];
  auto it = m.find(k);
  if (it != m.end())
    return it->second;
  auto* l = w.zones[algo]->add_link(std::string(prefix_of(algo)) + "l" + std::to_string(k), 1e9);
  m[k]    = l;
  return l;
}

static void build(World& w, const std::vector<std::string>& lines)
{
  auto* root          = sg4::Engine::get_instance()->get_netzone_root();
  w.zones["floyd"]    = root->add_netzone_floyd("zf");
  w.zones["dijkstra"] = root->add_netzone_dijkstra("zd", false);
  w.zones["dijkstracache"] = root->add_netzone_dijkstra("zc", true);
  w.zones["full"]     = root->add_netzone_full("zu");
  for (auto const& l : lines) {
    auto t = split(l);
    if (t[0] == "n") {
      int n = std::stoi(t[1]);
      for (auto const& [algo, z] : w.zones)
        for (int i = 0; i < n; i++)
          w.hosts[algo].push_back(z->add_host(std::string(prefix_of(algo)) + std::to_string(i), 1e9));
    } else if (t[0] == "route" || t[0] == "full") {
      int a = std::stoi(t[1]), b = std::stoi(t[2]);
      bool sym = t[3] == "1";
      std::vector<std::string> algos =
          t[0] == "full" ? std::vector<std::string>{"full"} : std::vector<std::string>{"floyd", "dijkstra", "dijkstracache"};
      for (auto const& algo : algos) {
        std::vector<sg4::LinkInRoute> ll;
        for (size_t i = 4; i < t.size(); i++)
          ll.emplace_back(link_of(w, algo, std::stoi(t[i])));
        w.zones[algo]->get_impl()->add_route(w.hosts[algo][a]->get_netpoint(), w.hosts[algo][b]->get_netpoint(), nullptr,
                                            nullptr, ll, sym);
      }
    }
  }
  root->seal();
}

static std::string answer(World& w, const std::vector<std::string>& t)
{
  std::ostringstream out;
  std::vector<sg4::Link*> links;
  try {
    w.hosts.at(t[1])[std::stoi(t[2])]->route_to(w.hosts.at(t[1])[std::stoi(t[3])], links, nullptr);
    for (auto const* l : links) {
      const std::string& n = l->get_name();
      if (n == "__loopback__")
        out << " 0";
      else
        out << " " << n.substr(2);
    }
  } catch (std::exception const&) {
    return " exc";
  }
  return out.str();
}

static void run_case(const std::vector<std::string>& lines, char* argv0)
{
  int* progress = static_cast<int*>(mmap(nullptr, sizeof(int), PROT_READ | PROT_WRITE, MAP_SHARED | MAP_ANONYMOUS, -1, 0));
  *progress     = 0;
  fflush(stdout);
  pid_t builder = fork();
  if (builder == 0) {
    struct rlimit rl = {2000000000UL, 2000000000UL};
    setrlimit(RLIMIT_AS, &rl);
    struct rlimit nocore = {0, 0};
    setrlimit(RLIMIT_CORE, &nocore);
    if (not getenv("C25_STDERR")) {
      int devnull = open("/dev/null", O_WRONLY);
      dup2(devnull, 2);
    }
    char a1[]    = "--log=root.thres:critical";
    char a3[]    = "--cfg=debug/stacktrace:none";
    char a4[]    = "--log=no_loc";
    char* argv[] = {argv0, a1, a3, a4, nullptr};
    int argc     = 4;
    alarm(3000); // safety net only (wall clock: the machine may be heavily loaded)
    sg4::Engine e(&argc, argv);
    World w;
    build(w, lines);
    printf("%s\n", lines[0].c_str());
    fflush(stdout);
    *progress    = 1;
    size_t start = 1;
    while (start < lines.size()) {
      pid_t worker = fork();
      if (worker == 0) {
        alarm(0);
        for (size_t i = start; i < lines.size(); i++) {
          if (lines[i].rfind("Q ", 0) == 0) {
            // a query takes microseconds; D15 spins for ever.  CPU time of this process, not wall time: the machine
            // may be loaded
            // (queries the generator expects to spin carry a 5th token `s`: 200 ms; the others get 5 s)
            bool slow           = split(lines[i]).size() >= 5;
            struct itimerval tv = {{0, 0}, {slow ? 0 : 5, slow ? 200000 : 0}};
            setitimer(ITIMER_VIRTUAL, &tv, nullptr);
            std::string a = answer(w, split(lines[i]));
            struct itimerval off = {{0, 0}, {0, 0}};
            setitimer(ITIMER_VIRTUAL, &off, nullptr);
            printf("%s =>%s\n", lines[i].c_str(), a.c_str());
          } else
            printf("%s\n", lines[i].c_str());
          fflush(stdout);
          *progress = static_cast<int>(i + 1);
        }
        _exit(0);
      }
      int st = 0;
      waitpid(worker, &st, 0);
      size_t done = static_cast<size_t>(*progress);
      if (done >= lines.size())
        break;
      printf("%s => %s\n", lines[done].c_str(), (WIFSIGNALED(st) && WTERMSIG(st) == SIGVTALRM) ? "timeout" : "abort");
      fflush(stdout);
      *progress = static_cast<int>(done + 1);
      start     = done + 1;
    }
    fflush(stdout);
    _exit(0);
  }
  int st = 0;
  waitpid(builder, &st, 0);
  if (*progress == 0)
    printf("%s => buildfail\n", lines[0].c_str());
  else if (static_cast<size_t>(*progress) < lines.size())
    printf("%s => buildfail\n", lines[static_cast<size_t>(*progress)].c_str());
  fflush(stdout);
  munmap(progress, sizeof(int));
}

int main(int, char** argv)
{
  std::string line;
  std::vector<std::string> cur;
  while (std::getline(std::cin, line)) {
    if (line.empty())
      continue;
    if (line.rfind("new ", 0) == 0 && not cur.empty()) {
      run_case(cur, argv[0]);
      cur.clear();
    }
    cur.push_back(line);
  }
  if (not cur.empty())
    run_case(cur, argv[0]);
  return 0;
}
