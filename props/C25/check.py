"""C25 — shortest-path zones compute minimal routes.
Theorems: lean/SgVerif/C25/Props.lean.  Tie: the Lean models of FloydZone (add_route, do_seal, get_local_route),
DijkstraZone (new_edge, do_seal, get_local_route with its 64-bit costs, its guard against unreachable nodes and its front
insertion) and FullZone are run on the
same generated graphs as the library (Floyd, Dijkstra, DijkstraCache zones built from one route list, + a Full zone);
monitor: chain-of-declared-routes validity and minimal link count (Bellman-Ford spec), hence equal counts across the three."""
import json
from vlib.core import SplitMix

# The defects `dijkstra-multilink-hop-reversed` (D16) and `dijkstra-unreachable-node-wraps` (D15) are fixed (fix_series/):
# the model follows the fixed code, a monitor failure is a plain violation (no classification key any more); their
# witnesses are corpus cases d16 / d15 and the `…_prefix_witness` theorems.
# Still a finding (not fixed, a design decision): for src = dst a Dijkstra zone returns the declared self route even when a
# cycle through a neighbour has fewer links, which is what Floyd returns (unequal link counts).  Hidden behind D16 until its fix.
KEY_SELF = "self-route-longer-than-cycle"
ALGOS = ("floyd", "dijkstra", "dijkstracache")
SLOW_BUDGET = 60


def reach(n, edges, src):
    seen = {src}
    todo = [src]
    while todo:
        v = todo.pop()
        for (a, b) in edges:
            if a == v and b not in seen:
                seen.add(b)
                todo.append(b)
    return seen


def gen_case(seed, idx, klass=None):
    r = SplitMix(seed).fork(idx)
    klass = klass or r.choice(["sym", "sym", "mixed", "mixed", "oneway", "single", "single-oneway", "line", "complete", "ties"])
    n = {"line": r.range(2, 30), "complete": r.range(2, 9)}.get(klass, r.choice([2, 3, 4, 5, 6, 8, 10, 14, 20, 30, r.range(2, 30)]))
    nl = [1]
    routes = []        # (a, b, sym, links)
    have = set()

    def links(lo=1, hi=3):
        k = 1 if klass.startswith("single") else r.range(lo, hi)
        if klass == "ties":
            k = r.range(1, 2)
        out = []
        for _ in range(k):
            if nl[0] > 3 and r.chance(1, 6):
                out.append(r.range(1, nl[0] - 1))     # a link shared with another route
            else:
                out.append(nl[0])
                nl[0] += 1
        return out

    def add(a, b, sym):
        if (a, b) in have or (sym and (b, a) in have) or (a == b and sym):
            return
        have.add((a, b))
        if sym:
            have.add((b, a))
        routes.append((a, b, sym, links()))

    order = list(range(n))
    r.shuffle(order)
    if klass == "line":
        for i in range(1, n):
            add(order[i - 1], order[i], True)
    elif klass == "complete":
        for i in range(n):
            for j in range(i + 1, n):
                add(order[i], order[j], r.chance(2, 3))
                if (order[j], order[i]) not in have:
                    add(order[j], order[i], False)
    else:
        oneway = klass in ("oneway", "single-oneway")
        for i in range(1, n):
            a, b = order[r.below(i)], order[i]
            if r.chance(1, 2):
                a, b = b, a
            add(a, b, not (oneway and r.chance(2, 3)))          # weakly connected spanning tree
        extra = r.below(2 * n + 1) if klass != "ties" else r.range(n, 3 * n)
        for _ in range(extra):
            a, b = r.below(n), r.below(n)
            if a == b:
                if r.chance(1, 4):
                    add(a, a, False)                               # declared self route
                continue
            sym = klass in ("sym", "single", "ties") or (klass == "mixed" and r.chance(1, 2)) or (oneway and r.chance(1, 4))
            add(a, b, sym)
    edges = set()
    for a, b, sym, _ in routes:
        edges.add((a, b))
        if sym:
            edges.add((b, a))
    L = ["new s%d-%d" % (seed, idx), "n %d" % n]
    for a, b, sym, ll in routes:
        L.append("route %d %d %d %s" % (a, b, 1 if sym else 0, " ".join(map(str, ll))))
    # Full zone: its own declarations for (almost) all pairs
    fl = 1000
    fhave = set()
    for a in range(min(n, 12)):
        for b in range(min(n, 12)):
            if a == b or (a, b) in fhave or r.chance(1, 15):
                continue
            sym = (b, a) not in fhave and r.chance(1, 2)
            k = r.range(1, 3)
            L.append("full %d %d %d %s" % (a, b, 1 if sym else 0, " ".join(str(fl + i) for i in range(k))))
            fl += k
            fhave.add((a, b))
            if sym:
                fhave.add((b, a))
    L.append("seal")
    # queries
    unreachable = 0
    risky = 0
    rs = {a: reach(n, edges, a) for a in range(n)}
    pairs = [(a, b) for a in range(n) for b in range(n)]
    if len(pairs) > 300:
        r.shuffle(pairs)
        pairs = sorted(pairs[:300])      # sorted: consecutive queries share their source (DijkstraCache hits)
    # Queries that spun for ever before the fix of D15 (unreachable destination, or a predecessor corrupted by a node
    # popped with cost ULONG_MAX) take microseconds now.  They keep the flag `s` (CPU budget of 200 ms instead of 5 s in
    # the harness) and a budget of SLOW_BUDGET per graph, drawn at random, so that a tree where the defect is back
    # costs at most SLOW_BUDGET * 2 * 0.2 s per graph instead of hours.
    def is_slow(a, b):
        # D15: a node x unreachable from a with an edge into a reachable node (other than a) corrupted predecessors
        corrupt = any(x not in rs[a] and u in rs[a] and u != a for (x, u) in edges)
        return (b not in rs[a]) or corrupt
    slow_pairs = [p for p in pairs if is_slow(*p)]
    risky = len(slow_pairs)
    unreachable = sum(1 for (a, b) in pairs if b not in rs[a])
    if len(slow_pairs) > SLOW_BUDGET:
        r.shuffle(slow_pairs)
        slow_pairs = slow_pairs[:SLOW_BUDGET]
    asked_slow = set(slow_pairs)
    for a, b in pairs:
        L.append("Q floyd %d %d" % (a, b))
        slow = is_slow(a, b)
        if slow and (a, b) not in asked_slow:
            continue
        L.append("Q dijkstra %d %d%s" % (a, b, " s" if slow else ""))
        L.append("Q dijkstracache %d %d%s" % (a, b, " s" if slow else ""))
    for a in range(min(n, 12)):
        for b in range(min(n, 12)):
            L.append("Q full %d %d" % (a, b))
    multi = any(len(ll) > 1 and ll != ll[::-1] for _, _, _, ll in routes)
    return L, dict(klass=klass, n=n, routes=len(routes), unreachable=unreachable, risky=risky, multilink=multi)


def load_corpus(path):
    cases, cur = [], []
    for l in open(path):
        l = l.split("#")[0].strip()
        if not l:
            continue
        if l.startswith("new ") and cur:
            cases.append(cur)
            cur = []
        cur.append(l)
    if cur:
        cases.append(cur)
    return cases


def classify(line, verdict):
    """known defects are those the model (= the code as read) reproduces: the implementation's answer equals the model's"""
    q, a = (line.split(" => ", 1) + [""])[:2]
    t = q.split()
    if len(t) < 4 or not t[1].startswith("dijkstra") or "model=agree" not in verdict:
        return None
    if t[2] == t[3] and "links, minimum is" in verdict:
        return KEY_SELF
    return None


def run(ctx):
    ctx.cov["rule"] = ("graphs drawn from splitmix64(VERIF_SEED, index): 2..30 nodes, weakly connected, classes sym / mixed / oneway / "
                       "single-link / line / complete / ties, 1-3 links per one-hop route, shared links, declared self routes; all "
                       "ordered pairs (<= 300) asked to Floyd, Dijkstra, DijkstraCache (+ a Full zone with its own declared routes); "
                       "non-trivial = distinct (graph, algorithm, src, dst) with src != dst on which the implementation returned a route")
    ctx.assumptions += ["Floyd costs are modelled as unbounded naturals with `none` for ULONG_MAX (no wrap below 2^63 links)",
                        "Dijkstra minimality is checked by correspondence (equal link count with the Bellman-Ford spec), not proved",
                        "the route cache of DijkstraCache is exercised by asking all destinations of a source in a row in one process; "
                        "Dijkstra queries towards unreachable destinations / from sources with unreachable neighbours (they spun for "
                        "ever before the fix of D15) are sampled: at most %d per graph, 200 ms of CPU each" % SLOW_BUDGET]
    ctx.ensure_simgrid(["simgrid"])
    ctx.lean_prove()
    drv = ctx.lean_exe()
    h = ctx.build_harness("harness.cpp")
    if not (drv and h):
        return
    corpus = load_corpus(ctx.pdir + "/corpus.txt")
    n = 40 if ctx.tier == "quick" else 600
    if ctx.broken:
        n *= 10
    if ctx.replay:
        cases = [(json.load(open(ctx.replay))["case"]["lines"], dict(klass="replay", n=0, routes=0, unreachable=0, risky=0, multilink=False))]
    else:
        cases = [(c, dict(klass="corpus", n=0, routes=0, unreachable=0, risky=0, multilink=False)) for c in corpus]
        cases += [gen_case(ctx.seed, i) for i in range(n)]
    CH = 8 if ctx.tier == "quick" else 40
    chunks = [cases[c0:c0 + CH] for c0 in range(0, len(cases), CH)]

    def work(chunk):
        inp = [l for c, _ in chunk for l in c]
        for attempt in range(6):
            rc, out, err = ctx.run_lines([h], inp, timeout=3600)
            if rc == 127 and "libsimgrid" in err:
                # the shared simgrid build is being relinked by a concurrent check: wait for it
                import time
                time.sleep(20)
                continue
            break
        if rc != 0:
            return ("harness-run", rc, err, None, None)
        rc, verdicts, err = ctx.run_lines([drv], out, timeout=3600)
        if rc != 0 or not verdicts or verdicts[-1] != "END %d" % len(out):
            return ("driver-run", rc, err, None, None)
        return (None, 0, "", out, verdicts)

    from concurrent.futures import ThreadPoolExecutor
    with ThreadPoolExecutor(max_workers=4) as ex:
        results = list(ex.map(work, chunks))
    klasses, sizes, outcomes = {}, {}, {}
    retries = [0]
    seen = set()
    stats = dict(unreachable_pairs=0, d15_prone_pairs=0, graphs_with_multilink_routes=0)
    for ci0, (chunk, res) in enumerate(zip(chunks, results)):
        kind, rc, err, out, verdicts = res
        if kind:
            ctx.broken.append({"kind": kind, "rc": rc, "stderr": err[-2000:]})
            return
        ci = -1
        cur = None
        for l, v in zip(out, verdicts):
            if l.startswith("new "):
                ci += 1
                cur, meta = chunk[ci]
                klasses[meta["klass"]] = klasses.get(meta["klass"], 0) + 1
                sizes[meta["n"]] = sizes.get(meta["n"], 0) + 1
                stats["unreachable_pairs"] += meta["unreachable"]
                stats["d15_prone_pairs"] += meta["risky"]
                stats["graphs_with_multilink_routes"] += 1 if meta["multilink"] else 0
                if l.endswith("=> buildfail"):
                    ctx.broken.append({"kind": "generator", "what": "graph rejected by the library", "case": cur[0]})
                continue
            if l.startswith("Q "):
                ctx.cov["evaluations"] += 1
                q, a = (l.split(" => ", 1) + [""])[:2]
                t = q.split()
                err_ans = a.strip() in ("exc", "abort", "timeout")
                okey = t[1] + ":" + (a.strip() if err_ans else "route")
                outcomes[okey] = outcomes.get(okey, 0) + 1
                if v == "ok":
                    ctx.cov["traces_validated_against_impl"] += 1
                    if t[2] != t[3] and not err_ans and (cur[0], q) not in seen:
                        seen.add((cur[0], q))
                        ctx.cov["distinct_nontrivial"] += 1
            if v == "ok":
                continue
            case = {"lines": cur, "query": l, "verdict": v}
            key = classify(l, v) if v.startswith("MONFAIL") else None
            if key is None and (l.endswith("=> timeout") or l.endswith("=> abort")) and retries[0] < 5:
                # an unexpected timeout may be the machine, not the library: ask again, alone, before believing it
                retries[0] += 1
                kind2, _, _, out2, verd2 = work([(cur, None)])
                if not kind2 and l not in out2:
                    ctx.notes.append("answer not reproduced on a second run (machine load): " + l)
                    continue
            if v.startswith("MONFAIL"):
                ctx.violation(v, case, key=key)
            elif v.startswith("DISAGREE"):
                ctx.broken.append({"kind": "correspondence", "line": l, "verdict": v[:300], "case": cur[0]})
                if len([b for b in ctx.broken if b.get("kind") == "correspondence"]) <= 3:
                    ctx.write_replay("disagree%d" % len(ctx.broken), {"what": v, "case": case})
            else:
                ctx.broken.append({"kind": "protocol", "line": l, "verdict": v[:300]})
        if ci0 == 0:
            ctx.cov["samples"] = [l for l in out if l.startswith("Q ")][:6]
    ctx.cov["classes"] = klasses
    ctx.cov["sizes"] = sizes
    ctx.cov["outcomes"] = outcomes
    ctx.cov.update(stats)
    ctx.cov["graphs"] = len(cases)
