"""C24 — hierarchical routes are composed correctly.
Theorems: lean/SgVerif/C24/Props.lean.  Tie: the Lean model of get_global_route_with_netzones / get_interzone_route /
get_bypass_route / find_common_ancestors / seal (default gateway) / FullZone::add_route recomputes every host pair's
route and latency from the zones' *observed* local-route tables and is compared with Host::route_to on generated
platforms built through the C++ API; the monitor is the spec-level concatenation predicate."""
import json
from fractions import Fraction
from vlib.core import SplitMix

UNIT = 2 ** 50
# Vivaldi zones with arbitrary coordinates: the observed term and the sums that contain it are rounded by the library's
# double arithmetic (sqrt, / 1000.0, a few additions of values below 32 s): 2^-40 s absolute
APPROX_TOL = 2 ** 10
ROUTED = ("full", "floyd", "dijkstra", "dijkstracache")
# The defect `bypass-tail-in-dijkstra-zone` is fixed (fix_series/01-…): the model follows the fixed code, a monitor failure
# is a plain violation (no classification key any more); its witness is the corpus case `bypass-dijkstra`, the generator
# feature `bypass-into-dijkstra` and the theorem `global_route_is_concat_prefix_counterexample`.


def hexlat(rng):
    """dyadic latency k * 2^-12, k in 1..4096 (sums of a few hundred stay exact in a double)"""
    return float(rng.range(1, 4096)) / 4096.0


class Gen:
    """one platform; every choice from `rng`.  Ids: zone z has netpoint id z (0 = _world_, 1 = top zone);
    hosts/routers from 100; links from 1 (0 = loopback)."""

    def __init__(self, rng, cid, profile):
        self.r = rng
        self.cid = cid
        self.profile = profile
        self.zones = {0: dict(parent=None, kind="full", kids=[], hosts=[], routers=[], depth=0)}
        self.lines = []
        self.links = []           # (id, lat, zone)
        self.routes = []
        self.bypasses = []
        self.gwsets = []
        self.nnp = 100
        self.nlink = 1
        self.coords = {}
        self.feat = set()
        self.approx = False
        self.torus = {}           # torus zone -> (dims, link latency)
        # Vivaldi coordinates of the whole platform: exact lane (every distance a perfect square, every term dyadic:
        # compared exactly) or arbitrary dyadic coordinates (compared with the case's tolerance)
        self.viv_exact = rng.chance(1, 2)

    # ---- elements
    def zone(self, parent, kind):
        z = len(self.zones)
        self.zones[z] = dict(parent=parent, kind=kind, kids=[], hosts=[], routers=[], depth=self.zones[parent]["depth"] + 1)
        self.zones[parent]["kids"].append(z)
        return z

    def host(self, z):
        n = self.nnp
        self.nnp += 1
        self.zones[z]["hosts"].append(n)
        return n

    def router(self, z):
        n = self.nnp
        self.nnp += 1
        self.zones[z]["routers"].append(n)
        return n

    def newlinks(self, z, k):
        out = []
        for _ in range(k):
            l = self.nlink
            self.nlink += 1
            self.links.append((l, hexlat(self.r), z))
            out.append(l)
        return out

    def pick_links(self, z, lo=1, hi=3):
        """1..3 links, sometimes re-using links already declared (shared backbone links)"""
        k = self.r.range(lo, hi)
        if self.links and self.r.chance(1, 5):
            return [self.r.choice(self.links)[0] for _ in range(k)]
        return self.newlinks(z, k)

    def plain(self, z):
        return self.zones[z]["hosts"] + self.zones[z]["routers"]

    def gw_candidates(self, z):
        return self.plain(z)

    def has_default(self, z):
        """NetZoneImpl::seal: explicit gateway, or a single host, or no host and a single vertex that is a router"""
        Z = self.zones[z]
        if any(g[0] == z for g in self.gwsets):
            return True
        if len(Z["hosts"]) == 1:
            return True
        return not Z["hosts"] and len(Z["routers"]) == 1 and not Z["kids"]

    def route(self, z, src, dst, gs, gd, sym, links):
        self.routes.append((z, src, dst, gs, gd, 1 if sym else 0, links))

    # ---- local routing of one zone
    def fill_zone(self, z):
        Z = self.zones[z]
        kind = Z["kind"]
        r = self.r
        plain = self.plain(z)
        kids = [k for k in Z["kids"] if self.gw_candidates(k)]
        if kind == "full":
            if not Z["kids"]:      # new_extended_route: a zone with children only accepts routes with two gateways
                self.fill_full(z, plain, None)
            self.fill_full(z, kids, "zone")
        elif kind in ("floyd", "dijkstra", "dijkstracache"):
            # one graph per zone; in a zone with children only the child zones are routed (a Dijkstra vertex outside
            # the graph crashes the lookup; hosts next to child zones cannot be given routes in a RoutedZone anyway)
            verts = kids if Z["kids"] else plain
            self.fill_graph(z, verts, bool(Z["kids"]), kind)
        elif kind == "star":
            self.fill_star(z, plain, Z["kids"])
        elif kind == "vivaldi":
            self.fill_vivaldi(z, plain, Z["kids"])
        # empty: nothing

    def viv_coords(self, z, verts):
        """coordinates (x, y, h) in ms, as floats that std::stod reads back exactly"""
        r = self.r
        if self.viv_exact:
            # collinear points along a Pythagorean direction, steps and heights multiples of 125 / 2^j ms:
            # sqrt(dx^2 + dy^2) is an integer multiple of the step and (dist + |h1| + |h2|) / 1000 is dyadic
            a, b = r.choice([(1, 0), (0, 1), (3, 4), (4, 3), (-3, 4), (5, 12), (8, -15), (-4, -3)])
            step = 125.0 / (1 << r.below(3))
            ox, oy = r.range(-3, 3) * step, r.range(-3, 3) * step
            for v in verts:
                k = r.range(-6, 6)
                self.coords[v] = (ox + a * k * step, oy + b * k * step, r.range(-4, 4) * step)
            self.feat.add("vivaldi-exact-lane")
        else:
            for v in verts:
                q = 1 << r.below(3)
                self.coords[v] = (r.range(-160, 160) / q, r.range(-160, 160) / q, r.range(-36, 36) / 4.0)
            self.approx = True
            self.feat.add("vivaldi-approx-lane")
        if any(c[2] < 0 for c in (self.coords[v] for v in verts)):
            self.feat.add("vivaldi-negative-height")

    def fill_vivaldi(self, z, plain, kids):
        r = self.r
        self.viv_coords(z, plain + kids)       # every vertex has coordinates (a missing one is an xbt_assert: corpus)
        for v in plain + kids:
            iszone = v in kids
            if iszone and not self.gw_candidates(v):
                continue
            g = r.choice(self.gw_candidates(v)) if iszone else None
            g2 = r.choice(self.gw_candidates(v)) if iszone else None
            # what VivaldiZone::set_peer_link does: one up route and one down route per peer
            up = self.pick_links(z, 1, 2 if r.chance(1, 4) else 1)
            if r.chance(1, 6):
                down = list(up)          # the same link up and down: add_links_to_route skips the duplicate on v -> v
                self.feat.add("vivaldi-shared-updown")
            else:
                down = self.pick_links(z, 1, 1)
            if r.chance(1, 8):
                self.route(z, v, None, g, None, True, up)
                self.feat.add("vivaldi-sym")
            else:
                self.route(z, v, None, g, None, False, up)
                self.route(z, None, v, None, g2, False, down)
            if r.chance(1, 8):
                self.route(z, v, v, g, g, False, self.pick_links(z, 1, 1))
                self.feat.add("vivaldi-loopback")
        self.feat.add("vivaldi-zones" if kids else "vivaldi")

    def gws(self, a, b, mode):
        if mode != "zone":
            return None, None
        return self.r.choice(self.gw_candidates(a)), self.r.choice(self.gw_candidates(b))

    def fill_full(self, z, verts, mode):
        r = self.r
        missing = self.profile == "holes"
        for i, a in enumerate(verts):
            if mode is None and r.chance(1, 12):
                self.route(z, a, a, None, None, r.chance(1, 2), self.pick_links(z))   # declared self route
                self.feat.add("full-self-route")
            for b0 in verts[i + 1:]:
                if missing and r.chance(1, 6):
                    self.feat.add("full-missing-route")
                    continue
                x, y = (a, b0) if r.chance(1, 2) else (b0, a)
                gs, gd = self.gws(x, y, mode)
                k = r.below(10)
                if k < 6:
                    self.route(z, x, y, gs, gd, True, self.pick_links(z))
                    self.feat.add("sym" if mode is None else "sym-zone")
                elif k < 9:
                    self.route(z, x, y, gs, gd, False, self.pick_links(z))
                    gs2, gd2 = self.gws(y, x, mode)
                    self.route(z, y, x, gs2, gd2, False, self.pick_links(z))
                    self.feat.add("oneway-pair" if mode is None else "oneway-pair-zone")
                else:
                    if missing:
                        self.route(z, x, y, gs, gd, False, self.pick_links(z))
                        self.feat.add("oneway-only")
                    else:
                        self.route(z, x, y, gs, gd, True, self.pick_links(z))

    def fill_graph(self, z, verts, zonemode, kind):
        r = self.r
        if len(verts) < 2:
            if len(verts) == 1 and not zonemode and kind != "floyd":
                # a Dijkstra vertex must be in the graph: give the single host a self route
                self.route(z, verts[0], verts[0], None, None, False, self.pick_links(z))
            return
        order = list(verts)
        r.shuffle(order)
        fixedgw = {v: r.choice(self.gw_candidates(v)) for v in verts} if zonemode else {}
        edges = set()

        def edge(a, b):
            if (a, b) in edges or (b, a) in edges or a == b:
                return
            edges.add((a, b))
            if zonemode:
                if kind == "floyd" and r.chance(1, 2):
                    gs, gd = r.choice(self.gw_candidates(a)), r.choice(self.gw_candidates(b))
                    self.feat.add("floyd-zone-varying-gw")
                else:
                    gs, gd = fixedgw[a], fixedgw[b]
            else:
                gs = gd = None
            if kind == "floyd" and r.chance(1, 4):
                # Floyd only: separate one-way routes (Dijkstra + one-way routes is C25's D15 territory)
                self.route(z, a, b, gs, gd, False, self.pick_links(z))
                if self.profile != "holes" or r.chance(3, 4):
                    self.route(z, b, a, gd, gs, False, self.pick_links(z))
                else:
                    self.feat.add("floyd-oneway-only")
            else:
                self.route(z, a, b, gs, gd, True, self.pick_links(z))
        for i in range(1, len(order)):
            edge(order[r.below(i)], order[i])          # spanning tree: connected
        for _ in range(r.below(len(order) + 1)):
            edge(r.choice(order), r.choice(order))
        self.feat.add(kind + ("-zones" if zonemode else "-leaf"))

    def fill_star(self, z, plain, kids):
        r = self.r
        for v in plain + kids:
            iszone = v in kids
            if iszone and not self.gw_candidates(v):
                continue
            if iszone and self.zones[z]["depth"] >= 2 and (self.has_default(v) or self.profile == "holes") and \
                    r.chance(1, 5 if self.profile == "holes" else 12):
                self.feat.add("star-unconfigured-zone(gateway inferred)")
                continue                      # do_seal gives it empty links; gateway inferred from the default gateway
            if not iszone and self.profile == "holes" and r.chance(1, 10):
                continue          # do_seal: empty up/down link lists
            g = r.choice(self.gw_candidates(v)) if iszone else None
            k = r.below(10)
            if k < 6:
                self.route(z, v, None, g, None, True, self.pick_links(z, 1, 3))
                self.feat.add("star-sym")
            elif k < 9 or self.profile != "holes" or "star-up-only(assert)" in self.feat:
                self.route(z, v, None, g, None, False, self.pick_links(z, 1, 2))
                g2 = r.choice(self.gw_candidates(v)) if iszone else None
                self.route(z, None, v, None, g2, False, self.pick_links(z, 1, 2))
                self.feat.add("star-updown")
            else:
                self.route(z, v, None, g, None, False, self.pick_links(z, 1, 2))
                self.feat.add("star-up-only(assert)")
            if r.chance(1, 8):
                self.route(z, v, v, g, g, False, self.pick_links(z, 1, 1))
                self.feat.add("star-loopback")

    # ---- bypass routes
    def path_up(self, z):
        p = []
        while z is not None:
            p.append(z)
            z = self.zones[z]["parent"]
        return p

    def add_bypasses(self):
        r = self.r
        zs = [z for z in self.zones if z >= 1]
        n = r.below(4) if self.profile != "nobypass" else 0
        seen = set()
        multi = [z for z in zs if len(self.zones[z]["kids"]) >= 2]
        for _ in range(n):
            ca = r.choice(multi) if multi and r.chance(2, 3) else r.choice(zs)
            Z = self.zones[ca]
            k = r.below(3)
            if k == 0 or not Z["kids"]:
                pl = self.plain(ca)
                if len(pl) < 2:
                    continue
                a, b = r.choice(pl), r.choice(pl)
                if a == b or (ca, a, b) in seen:
                    continue
                seen.add((ca, a, b))
                self.bypasses.append((ca, a, b, None, None, self.pick_links(ca, 1, 3)))
                self.feat.add("bypass-direct")
            else:
                # keys are netpoints of zones below `ca` on the two sides (any depth); gateways directly in those zones
                def below(k):
                    out = [k]
                    for c in self.zones[k]["kids"]:
                        out += below(c)
                    return out
                kids = Z["kids"]
                if len(kids) < 2:
                    continue
                ka, kb = r.choice(kids), r.choice(kids)
                if ka == kb:
                    continue
                za, zb = r.choice(below(ka)), r.choice(below(kb))
                dj = [x for x in below(kb) if self.zones[x]["kind"].startswith("dijkstra")]
                if dj and r.chance(1, 2):
                    zb = r.choice(dj)       # reach the front-insertion of DijkstraZone::get_local_route on purpose
                if not self.gw_candidates(za) or not self.gw_candidates(zb) or (ca, za, zb) in seen:
                    continue
                seen.add((ca, za, zb))
                ga, gb = r.choice(self.gw_candidates(za)), r.choice(self.gw_candidates(zb))
                self.bypasses.append((ca, za, zb, ga, gb, self.pick_links(ca, 1, 3)))
                self.feat.add("bypass-depth%d-%d" % (self.zones[za]["depth"] - Z["depth"], self.zones[zb]["depth"] - Z["depth"]))
                if self.zones[zb]["kind"].startswith("dijkstra"):
                    self.feat.add("bypass-into-dijkstra")

    # ---- whole platform
    def build(self):
        r = self.r
        levels = r.choice([1, 2, 2, 3, 3, 3])
        # the "holes" profile (missing routes / gateways: the library aborts on many pairs) stays small: an aborting
        # query costs a process restart
        budget = r.range(3, 40) if self.profile != "holes" else r.range(3, 10)
        leafkinds = ["full", "full", "floyd", "dijkstra", "dijkstracache", "star", "star", "empty", "vivaldi"]
        if levels == 1:
            top = self.zone(0, r.choice(["full", "floyd", "dijkstra", "dijkstracache", "star", "vivaldi"]))
            for _ in range(min(budget, r.range(2, 14))):
                (self.host if r.chance(4, 5) else self.router)(top)
        else:
            topkind = r.choice(["full", "full", "floyd", "dijkstra", "dijkstracache", "star", "star", "vivaldi"] +
                               (["empty"] if self.profile == "holes" else []))
            if self.profile != "holes" and r.chance(1, 8):
                # the whole platform is one torus of netzones (levels 2) — no router: every route crosses the torus
                self.torus_zone(0, with_router=r.chance(1, 3), budget=budget)
                self.finish()
                return self
            top = self.zone(0, topkind)
            nk = r.range(2, 4)
            left = budget
            if topkind in ("star", "vivaldi"):
                for _ in range(r.below(3)):
                    self.host(top)
                    left -= 1
            for i in range(nk):
                mid = levels == 3 and (i == 0 or r.chance(1, 2))
                if self.profile != "holes" and r.chance(1, 5 if levels == 3 else 8):
                    # a cluster-like zone (torus of netzones, reached from outside through its router) among the children
                    left -= self.torus_zone(top, with_router=True, budget=max(4, left // 2))
                    continue
                if mid:
                    z = self.zone(top, r.choice(["star", "star", "star", "full", "vivaldi"] + (["empty"] if self.profile == "holes" else [])))
                    # direct netpoints of the mid zone: gateways towards the top
                    for _ in range(r.range(1, 2)):
                        # a host directly in a Full/Empty zone with children cannot be routed to them: routers there
                        if self.zones[z]["kind"] not in ("star", "vivaldi") and self.profile != "holes":
                            self.router(z)
                        else:
                            (self.router if r.chance(2, 3) else self.host)(z)
                        left -= 1
                    for _ in range(r.range(1, 3)):
                        c = self.zone(z, r.choice(leafkinds))
                        n = r.range(1, max(1, min(6, left // 2)))
                        if self.zones[c]["kind"] == "empty" and (self.profile != "holes" or r.chance(2, 3)):
                            n = 1
                        for _ in range(n):
                            if r.chance(5, 6):
                                self.host(c)
                            else:
                                self.router(c)
                        left -= n
                else:
                    z = self.zone(top, r.choice(leafkinds))
                    n = r.range(1, max(1, min(8, left // 2)))
                    if self.zones[z]["kind"] == "empty" and (self.profile != "holes" or r.chance(2, 3)):
                        n = 1
                    for _ in range(n):
                        if r.chance(5, 6):
                            self.host(z)
                        else:
                            self.router(z)
                    left -= n
        self.finish()
        return self

    def torus_zone(self, parent, with_router, budget):
        """a TorusZone whose leaves are netzones (ClusterBase::fill_leaf_from_cb with a netzone callback): the leaf's
        default gateway becomes the entry of the torus' gateway table, returned as gw_src / gw_dst of its local routes.
        Returns the number of netpoints created."""
        r = self.r
        if r.chance(1, 3):
            # a fat tree (same ClusterBase leaves / gateway table): down;up;count per level, leaves = product of `down`
            kind = "fattree"
            down, up, cnt = r.choice([([2], [1], [1]), ([3], [1], [1]), ([4], [2], [1]), ([2, 2], [1, 2], [1, 1]),
                                      ([2, 3], [1, 2], [1, 1]), ([3, 2], [1, 1], [1, 2])])
            dims = down
            spec = ";".join(",".join(map(str, v)) for v in (down, up, cnt))
        else:
            kind = "torus"
            dims = r.choice([[2], [3], [4], [2, 2], [3, 2], [2, 3]])
            spec = ",".join(map(str, dims))
        t = self.zone(parent, kind)
        self.torus[t] = (spec, float(r.range(1, 4096)) / 4096.0)
        n = 1
        for d in dims:
            n *= d
        used = 0
        for _ in range(n):
            c = self.zone(t, r.choice(["star", "star", "full", "floyd", "vivaldi", "dijkstra"]))
            k = r.range(1, max(1, min(3, budget // n)))
            for _ in range(k):
                (self.host if r.chance(5, 6) else self.router)(c)
            used += k
            # fill_leaf_from_cb asserts that the leaf has a default gateway: single host / single router / explicit
            if not self.has_default(c) or r.chance(1, 3):
                self.gwsets.append((c, r.choice(self.plain(c))))
        if with_router:
            self.router(t)       # created after the last leaf: netpoint ids = leaf positions
            used += 1
            self.feat.add("cluster-with-router")
        self.feat.add("%s-of-netzones-%s" % (kind, "x".join(map(str, dims))))
        return used

    def finish(self):
        r = self.r
        # explicit default gateways for some zones (others: single-host rule, single-router rule, or none)
        for z in self.zones:
            if z >= 1 and self.plain(z) and r.chance(1, 3) and not any(g[0] == z for g in self.gwsets):
                self.gwsets.append((z, r.choice(self.plain(z))))
        # children of a Full / Empty mid-level zone are reached through an *inferred* gateway: give them one
        for z, Z in self.zones.items():
            if z >= 1 and Z["kind"] in ("full", "empty") and Z["kids"] and Z["depth"] >= 2:
                for c in Z["kids"]:
                    if not self.has_default(c) and self.plain(c) and (self.profile != "holes" or r.chance(2, 3)):
                        self.gwsets.append((c, r.choice(self.plain(c))))
                        self.feat.add("inferred-gateway-explicit")
                    elif self.has_default(c):
                        self.feat.add("inferred-gateway")
        for z in sorted(self.zones, reverse=True):
            if z >= 1:
                self.fill_zone(z)
        self.add_bypasses()

    def emit(self):
        L = ["new %s" % self.cid, "tol %d" % (APPROX_TOL if self.approx else 0)]
        fl = lambda c: " ".join(repr(float(x)) for x in c)
        for z, Z in self.zones.items():
            extra = ""
            if Z["kind"] in ("torus", "fattree"):
                spec, lat = self.torus[z]
                extra = " %s %s" % (spec, lat.hex())
            if z in self.coords:
                extra += " " + fl(self.coords[z])
            L.append("zone %d %s %s%s" % (z, "-" if Z["parent"] is None else Z["parent"], Z["kind"], extra))
        hosts = []
        for z, Z in self.zones.items():
            for n in sorted(Z["hosts"] + Z["routers"]):
                c = self.coords.get(n)
                L.append("np %d %d %s%s" % (n, z, "h" if n in Z["hosts"] else "r", " " + fl(c) if c else ""))
                if n in Z["hosts"]:
                    hosts.append(n)
        for l, lat, z in self.links:
            L.append("link %d %s %d" % (l, lat.hex(), z))
        for z, n in self.gwsets:
            L.append("gwset %d %d" % (z, n))
        o = lambda x: "-" if x is None else str(x)
        for z, s, d, gs, gd, sym, links in self.routes:
            L.append("route %d %s %s %s %s %d %s" % (z, o(s), o(d), o(gs), o(gd), sym, " ".join(map(str, links))))
        for z, s, d, gs, gd, links in self.bypasses:
            L.append("bypass %d %d %d %s %s %s" % (z, s, d, o(gs), o(gd), " ".join(map(str, links))))
        for z in self.zones:
            if z >= 1:
                L.append("G %d" % z)
        for z, Z in self.zones.items():
            if z == 0:
                continue
            vs = sorted(Z["hosts"] + Z["routers"]) + Z["kids"]
            if Z["kind"] == "empty":
                continue      # EmptyZone::get_local_route is xbt_die("There can't be route in an Empty zone")
            if Z["kind"].startswith("dijkstra"):
                # a vertex that is in no route is not in the Dijkstra graph: the lookup dereferences nullptr
                used = set()
                for (zz, s, d, *_rest) in self.routes:
                    if zz == z:
                        used.update([s, d])
                vs = [v for v in vs if v in used]
            for a in vs:
                for b in vs:
                    L.append("L %d %d %d" % (z, a, b))
        # routers are netpoints too: route between all hosts, plus a few router endpoints
        ends = hosts + [n for Z in self.zones.values() for n in Z["routers"]][:2]
        for a in ends:
            for b in ends:
                L.append("R %d %d" % (a, b))
        return L, len(hosts)


def gen_case(seed, idx, profile=None):
    rng = SplitMix(seed).fork(idx)
    profile = profile or rng.choice(["plain", "plain", "holes", "nobypass"])
    for attempt in range(8):
        g = Gen(rng.fork(attempt), "s%d-%d" % (seed, idx), profile).build()
        lines, nh = g.emit()
        if nh <= 40:
            break
    return lines, dict(hosts=nh, zones=len(g.zones) - 1, depth=max(Z["depth"] for Z in g.zones.values()),
                       feat=sorted(g.feat), profile=profile, kinds=sorted(set(Z["kind"] for z, Z in g.zones.items() if z)))


def units(tok):
    return str(int(round(Fraction(float.fromhex(tok)) * UNIT)))


def canon(line):
    """hexfloat latencies -> integer units of 2^-50 s (exact for the dyadic latencies the generator uses)"""
    if " => " not in line:
        return line
    q, a = line.split(" => ", 1)
    at = a.split()
    if not at or at[0] in ("exc", "abort", "timeout", "buildfail"):
        return line
    k = q[0]
    if k == "K":
        at[0] = units(at[0])
    elif k == "L" and len(at) >= 3:
        at[2] = units(at[2])
    elif k == "R":
        at[0] = units(at[0])
    elif k == "C":
        # Vivaldi coordinates: exact rationals num/den
        fr = [Fraction(float.fromhex(x)) for x in at]
        at = ["%d/%d" % (f.numerator, f.denominator) for f in fr]
    return q + " => " + " ".join(at)


def load_corpus(path):
    cases, cur = [], []
    for l in open(path):
        l = l.split("#")[0].strip()
        if not l:
            continue
        if l.startswith("new ") and cur:
            cases.append(cur)
            cur = []
        cur.append(l)
    if cur:
        cases.append(cur)
    return cases


def run(ctx):
    ctx.cov["rule"] = ("platforms drawn from splitmix64(VERIF_SEED, index): 1-3 levels below the root, <= 40 hosts, zone kinds "
                       "Full/Floyd/Dijkstra/DijkstraCache/Star/Empty/Vivaldi (leaf, mid-level and top, with child zones) and "
                       "Torus zones whose leaves are netzones (netzone callback; with and without a router towards the outside), "
                       "symmetric / one-way / missing routes, 1-3 links per "
                       "route, explicit / single-host / single-router / absent default gateways, bypass routes (direct and "
                       "between zones at different depths), Vivaldi coordinates in an exact lane (perfect squares, dyadic terms) "
                       "and an arbitrary lane (negative heights, routers, zones); non-trivial = distinct (platform, src, dst) "
                       "with src != dst whose implementation route has >= 1 link")
    ctx.assumptions += ["each zone's local routing function is taken as observed (get_local_route on every vertex pair); "
                        "C25/C26 cover what is inside the zones",
                        "Star and Vivaldi zones are an exception: their answers (links, gateways, coordinate term) are recomputed "
                        "by the model from the declared routes and the coordinates read back from the library",
                        "Vivaldi coordinate terms: exact lane (collinear Pythagorean coordinates, steps of 125/2^j ms) compared "
                        "exactly; other coordinates compared with the rational bracket of the model's term widened by 2^-40 s "
                        "(rounding of the library's double arithmetic); all other latencies are dyadic and compared exactly",
                        "cluster-like zones: Torus zones with netzone leaves are generated (their local routing itself is "
                        "observed: C26); FatTree/Dragonfly/Wifi zones are not generated here (same ClusterBase gateway code)"]
    ctx.ensure_simgrid(["simgrid"])
    ctx.lean_prove()
    drv = ctx.lean_exe()
    h = ctx.build_harness("harness.cpp")
    if not (drv and h):
        return
    corpus = load_corpus(ctx.pdir + "/corpus.txt")
    n = 30 if ctx.tier == "quick" else 400
    if ctx.broken:
        n *= 10
    cases = []
    if ctx.replay:
        cases = [(json.load(open(ctx.replay))["case"]["lines"], dict(feat=["replay"], kinds=[], profile="replay", hosts=0, zones=0, depth=0))]
    else:
        for c in corpus:
            cases.append((c, dict(feat=["corpus"], kinds=[], profile="corpus", hosts=0, zones=0, depth=0)))
        for i in range(n):
            cases.append(gen_case(ctx.seed, i))
    feats, kinds, depths = {}, {}, {}
    seen = set()
    CH = 8 if ctx.tier == "quick" else 25
    chunks = [cases[c0:c0 + CH] for c0 in range(0, len(cases), CH)]

    def work(chunk):
        inp = [l for c, _ in chunk for l in c]
        for attempt in range(6):
            rc, out, err = ctx.run_lines([h], inp, timeout=3600)
            if rc == 127 and "libsimgrid" in err:
                # the shared simgrid build is being relinked by a concurrent check: wait for it
                import time
                time.sleep(20)
                continue
            break
        if rc != 0:
            return ("harness-run", rc, err, None, None)
        out = [canon(l) for l in out]
        rc, verdicts, err = ctx.run_lines([drv], out, timeout=3600)
        if rc != 0 or not verdicts or verdicts[-1] != "END %d" % len(out):
            return ("driver-run", rc, err, None, None)
        return (None, 0, "", out, verdicts)

    from concurrent.futures import ThreadPoolExecutor
    with ThreadPoolExecutor(max_workers=4) as ex:
        results = list(ex.map(work, chunks))
    for c0, (chunk, res) in enumerate(zip(chunks, results)):
        kind, rc, err, out, verdicts = res
        if kind:
            ctx.broken.append({"kind": kind, "rc": rc, "stderr": err[-2000:]})
            return
        # split the output back into cases
        ci = -1
        cur_lines = None
        for l, v in zip(out, verdicts):
            if l.startswith("new "):
                ci += 1
                cur_lines, meta = chunk[ci]
                for f in meta["feat"]:
                    feats[f] = feats.get(f, 0) + 1
                for k in meta["kinds"]:
                    kinds[k] = kinds.get(k, 0) + 1
                depths[meta["depth"]] = depths.get(meta["depth"], 0) + 1
                if l.endswith("=> buildfail"):
                    # the generator promised a platform the library accepts
                    ctx.broken.append({"kind": "generator", "what": "platform rejected by the library", "case": cur_lines[0]})
                continue
            k = l[:2]
            if k == "R ":
                ctx.cov["evaluations"] += 1
                q, a = (l.split(" => ", 1) + [""])[:2]
                at = a.split()
                if v == "ok":
                    ctx.cov["traces_validated_against_impl"] += 1
                    t = q.split()
                    if t[1] != t[2] and len(at) >= 2 and at[0] not in ("exc", "abort", "timeout"):
                        key = (cur_lines[0], q)
                        if key not in seen:
                            seen.add(key)
                            ctx.cov["distinct_nontrivial"] += 1
                    if at and at[0] in ("exc", "abort", "timeout"):
                        feats["route-error(agreed)"] = feats.get("route-error(agreed)", 0) + 1
            if v == "ok":
                continue
            case = {"lines": cur_lines, "query": l, "verdict": v}
            if v.startswith("MONFAIL"):
                ctx.violation(v, case)
            elif v.startswith("DISAGREE"):
                # model (the code as read) and implementation differ although the monitor holds / has nothing to say
                ctx.broken.append({"kind": "correspondence", "line": l, "verdict": v[:300], "case": cur_lines[0]})
                if len([b for b in ctx.broken if b.get("kind") == "correspondence"]) <= 3:
                    ctx.write_replay("disagree%d" % len(ctx.broken), {"what": v, "case": case})
            else:
                ctx.broken.append({"kind": "protocol", "line": l, "verdict": v[:300]})
        if c0 == 0:
            ctx.cov["samples"] = [l for l in out if l.startswith("R ")][:4]
    ctx.cov["features"] = feats
    ctx.cov["zone_kinds"] = kinds
    ctx.cov["depths"] = depths
    ctx.cov["platforms"] = len(cases)
