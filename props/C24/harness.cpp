// C24 harness: builds generated platforms through the C++ API of the REAL library and prints
//   * each zone's default gateway                       G <zone>            => <np|->
//   * each zone's local route answers (model's input)   L <zone> <a> <b>    => <gwsrc|-> <gwdst|-> <lat %a> <links...> | exc
//   * the global route of host pairs                    R <src> <dst>       => <lat %a> <links...> | exc
//   * link latencies (after `new`)                      K <link>            => <lat %a>
//   * the Vivaldi coordinates the library stores         C <np>              => <x %a> <y %a> <h %a>   (after the K lines)
// stdin: cases; a case starts with `new <id>`, followed by description lines (echoed unchanged) and query lines.
//   zone <id> <parent> <kind> [x y h] ; np <id> <zone> h|r [x y h] ; link <id> <latency %a> <zone> ; gwset <zone> <np> ;
//   zone <id> <parent> torus <d1,d2,..> <latency %a> [x y h] : a TorusZone whose leaves are its child zones (zone lines with this
//     parent, in position order), created by the netzone callback when the torus is sealed; the leaf's default gateway
//     becomes the entry of ClusterBase's gateway table.  An `np <id> <torus> r` line adds a router to the torus after the
//     last leaf (so that netpoint ids stay equal to leaf positions).  The links the torus creates get ids from 100000
//     (sorted by name).
//   zone <id> <parent> fattree <down,..;up,..;count,..> <latency %a> [x y h] : a FatTreeZone, same conventions.
//   route <zone> <src|-> <dst|-> <gwsrc|-> <gwdst|-> <sym> <links..> ; bypass <zone> <src> <dst> <gwsrc|-> <gwdst|-> <links..>
// Names: zone "z<id>" (its netpoint has the same name), host/router "n<id>", link "l<id>"; the loopback link is link 0.
// A case runs in a forked child (one Engine per process); when the library aborts on a query the parent prints
// `<query> => abort` and restarts a child after that query.
#include <simgrid/kernel/routing/NetPoint.hpp>
#include <simgrid/kernel/routing/NetZoneImpl.hpp>
#include <simgrid/s4u.hpp>
#include "src/kernel/resource/StandardLinkImpl.hpp"
#include <simgrid/kernel/routing/VivaldiZone.hpp>

#include <cstdio>
#include <cstring>
#include <algorithm>
#include <fcntl.h>
#include <iostream>
#include <map>
#include <sstream>
#include <string>
#include <sys/mman.h>
#include <sys/resource.h>
#include <sys/time.h>
#include <sys/wait.h>
#include <unistd.h>
#include <vector>

namespace sg4 = simgrid::s4u;
using simgrid::kernel::routing::NetPoint;
using simgrid::kernel::routing::NetZoneImpl;
using simgrid::kernel::routing::Route;

// access to the protected virtual get_local_route (pointer-to-member through a derived class)
struct ZoneAccess : NetZoneImpl {
  static auto local() { return &ZoneAccess::get_local_route; }
};

static std::vector<std::string> split(const std::string& s)
{
  std::istringstream in(s);
  std::vector<std::string> r;
  std::string t;
  while (in >> t)
    r.push_back(t);
  return r;
}

struct World {
  std::map<int, sg4::NetZone*> zones;
  std::map<int, NetPoint*> nps;
  std::map<int, sg4::Link*> links;
  std::map<std::string, int> link_ids; // every link of the platform -> id
  size_t coords_rank = 0;              // rank of the vivaldi::Coords extension of NetPoint
};

static NetPoint* np_of(World& w, const std::string& tok)
{
  if (tok == "-")
    return nullptr;
  return w.nps.at(std::stoi(tok));
}

static std::string link_tok(World& w, const simgrid::kernel::resource::StandardLinkImpl* l)
{
  auto it = w.link_ids.find(l->get_name());
  if (it == w.link_ids.end())
    return "?" + l->get_name();
  return std::to_string(it->second);
}

using Toks = std::vector<std::vector<std::string>>;

static sg4::NetZone* make_zone(sg4::NetZone* parent, const std::vector<std::string>& t)
{
  std::string name = "z" + t[1];
  sg4::NetZone* z  = nullptr;
  if (t[3] == "full")
    z = parent->add_netzone_full(name);
  else if (t[3] == "floyd")
    z = parent->add_netzone_floyd(name);
  else if (t[3] == "dijkstra")
    z = parent->add_netzone_dijkstra(name, false);
  else if (t[3] == "dijkstracache")
    z = parent->add_netzone_dijkstra(name, true);
  else if (t[3] == "star")
    z = parent->add_netzone_star(name);
  else if (t[3] == "empty")
    z = parent->add_netzone_empty(name);
  else if (t[3] == "vivaldi")
    z = parent->add_netzone_vivaldi(name);
  else if (t[3] == "torus") {
    std::vector<unsigned long> dims;
    std::istringstream in(t.at(4));
    std::string d;
    while (std::getline(in, d, ','))
      dims.push_back(std::stoul(d));
    z = parent->add_netzone_torus(name, dims, 1e9, std::strtod(t.at(5).c_str(), nullptr), sg4::Link::SharingPolicy::SHARED);
  } else if (t[3] == "fattree") {
    // <down_1,..,down_n;up_1,..,up_n;count_1,..,count_n>
    std::vector<std::vector<unsigned int>> p;
    std::istringstream in(t.at(4));
    std::string part;
    while (std::getline(in, part, ';')) {
      std::vector<unsigned int> v;
      std::istringstream pin(part);
      std::string d;
      while (std::getline(pin, d, ','))
        v.push_back(static_cast<unsigned int>(std::stoul(d)));
      p.push_back(v);
    }
    z = parent->add_netzone_fatTree(name, static_cast<unsigned int>(p.at(0).size()), p.at(0), p.at(1), p.at(2), 1e9,
                                    std::strtod(t.at(5).c_str(), nullptr), sg4::Link::SharingPolicy::SHARED);
  } else
    throw std::invalid_argument("zone kind " + t[3]);
  size_t c0 = (t[3] == "torus" || t[3] == "fattree") ? 6 : 4; // Vivaldi coordinates of the zone's netpoint
  if (t.size() >= c0 + 3)
    z->get_netpoint()->set_coordinates(t[c0] + " " + t[c0 + 1] + " " + t[c0 + 2]);
  return z;
}

static void make_np(World& w, const std::vector<std::string>& t)
{
  int id         = std::stoi(t[1]);
  auto* z        = w.zones.at(std::stoi(t[2]));
  NetPoint* np   = nullptr;
  std::string nm = "n" + t[1];
  if (t[3] == "h")
    np = z->add_host(nm, 1e9)->get_netpoint();
  else
    np = z->add_router(nm);
  if (t.size() >= 7) // Vivaldi coordinates; the peer links are declared as ordinary star routes (set_peer_link does the same)
    np->set_coordinates(t[4] + " " + t[5] + " " + t[6]);
  w.nps[id] = np;
}

static void make_route(World& w, const std::vector<std::string>& t)
{
  if (t[0] == "route") {
    auto* z = w.zones.at(std::stoi(t[1]))->get_impl();
    std::vector<sg4::LinkInRoute> ll;
    for (size_t i = 7; i < t.size(); i++)
      ll.emplace_back(w.links.at(std::stoi(t[i])));
    z->add_route(np_of(w, t[2]), np_of(w, t[3]), np_of(w, t[4]), np_of(w, t[5]), ll, t[6] == "1");
  } else if (t[0] == "bypass") {
    auto* z = w.zones.at(std::stoi(t[1]))->get_impl();
    std::vector<sg4::LinkInRoute> ll;
    for (size_t i = 6; i < t.size(); i++)
      ll.emplace_back(w.links.at(std::stoi(t[i])));
    z->add_bypass_route(np_of(w, t[2]), np_of(w, t[3]), np_of(w, t[4]), np_of(w, t[5]), ll);
  }
}

static void build(World& w, const std::vector<std::string>& lines)
{
  auto* e    = sg4::Engine::get_instance();
  auto* root = e->get_netzone_root();
  w.zones[0] = root;
  w.nps[0]   = root->get_netpoint();
  Toks toks;
  for (auto const& l : lines)
    toks.push_back(split(l));
  // vivaldi::Coords registers its NetPoint extension when the first coordinates are set: it gets the rank after this probe
  w.coords_rank = NetPoint::extension_create(std::function<void(void*)>()) + 1;
  // cluster-like zones (torus): their leaves are created by the netzone callback while the zone is sealed
  std::map<int, std::string> kind;              // zone -> kind
  std::map<int, int> parent_of;                 // zone -> parent
  std::map<int, std::vector<int>> leaves;       // torus -> leaf zones in position order
  for (auto const& t : toks)
    if (t[0] == "zone" && t[1] != "0") {
      int id        = std::stoi(t[1]);
      kind[id]      = t[3];
      parent_of[id] = std::stoi(t[2]);
    }
  auto is_torus    = [&](int z) { return kind.count(z) && (kind[z] == "torus" || kind[z] == "fattree"); };
  auto is_leaf     = [&](int z) { return parent_of.count(z) && is_torus(parent_of[z]); };
  auto is_deferred = [&](int z) { return is_torus(z) || is_leaf(z); };
  for (auto const& t : toks) {
    if (t[0] == "zone") {
      int id = std::stoi(t[1]);
      if (id == 0)
        continue;
      if (is_leaf(id)) {
        leaves[parent_of[id]].push_back(id);
        continue;
      }
      w.zones[id] = make_zone(w.zones.at(std::stoi(t[2])), t);
      w.nps[id]   = w.zones[id]->get_netpoint();
    } else if (t[0] == "np") {
      if (not is_deferred(std::stoi(t[2])))
        make_np(w, t);
    } else if (t[0] == "link") {
      int id = std::stoi(t[1]);
      // links are created in the zone given as 4th token (any zone will do for routing purposes)
      int zid     = std::stoi(t[3]);
      auto* z     = is_deferred(zid) ? root : w.zones.at(zid);
      w.links[id] = z->add_link("l" + t[1], 1e9)->set_latency(std::strtod(t[2].c_str(), nullptr));
    } else if (t[0] == "gwset") {
      if (not is_deferred(std::stoi(t[1])))
        w.zones.at(std::stoi(t[1]))->set_gateway(w.nps.at(std::stoi(t[2])));
    }
  }
  // seal each torus now: the callback builds leaf number `position` completely (netpoints, default gateway, routes),
  // seals it and returns it; after the last leaf, the routers of the torus itself and its default gateway
  for (auto const& [tz, lv] : leaves) {
    sg4::NetZone* torus = w.zones.at(tz);
    const int torus_id  = tz;
    const auto& lvs     = lv;
    torus->set_netzone_cb([&w, &toks, torus_id, &lvs](sg4::NetZone* zone, const std::vector<unsigned long>&, unsigned long position) {
      int id = lvs.at(position);
      sg4::NetZone* leaf = nullptr;
      for (auto const& t : toks)
        if (t[0] == "zone" && std::stoi(t[1]) == id)
          leaf = make_zone(zone, t);
      w.zones[id] = leaf;
      w.nps[id]   = leaf->get_netpoint();
      for (auto const& t : toks)
        if (t[0] == "np" && std::stoi(t[2]) == id)
          make_np(w, t);
      for (auto const& t : toks)
        if (t[0] == "gwset" && std::stoi(t[1]) == id)
          leaf->set_gateway(w.nps.at(std::stoi(t[2])));
      for (auto const& t : toks)
        if ((t[0] == "route" || t[0] == "bypass") && std::stoi(t[1]) == id)
          make_route(w, t);
      leaf->seal();
      if (position + 1 == lvs.size()) {
        for (auto const& t : toks)
          if (t[0] == "np" && std::stoi(t[2]) == torus_id)
            make_np(w, t);
        for (auto const& t : toks)
          if (t[0] == "gwset" && std::stoi(t[1]) == torus_id)
            zone->set_gateway(w.nps.at(std::stoi(t[2])));
      }
      return leaf;
    });
    torus->seal();
  }
  for (auto const& t : toks)
    if ((t[0] == "route" || t[0] == "bypass") && not is_leaf(std::stoi(t[1])))
      make_route(w, t);
  root->seal();
  std::vector<std::string> others;
  for (auto* l : e->get_all_links()) {
    const std::string& n = l->get_name();
    if (n.size() > 1 && n[0] == 'l' && n.find_first_not_of("0123456789", 1) == std::string::npos)
      w.link_ids[n] = std::stoi(n.substr(1));
    else if (n != "__loopback__")
      others.push_back(n);
  }
  std::sort(others.begin(), others.end());
  for (size_t i = 0; i < others.size(); i++)
    w.link_ids[others[i]] = 100000 + static_cast<int>(i);
  w.link_ids["__loopback__"] = 0;
}

static std::string answer(World& w, const std::vector<std::string>& t)
{
  std::ostringstream out;
  char buf[64];
  if (t[0] == "G") {
    try {
      const NetPoint* g = w.zones.at(std::stoi(t[1]))->get_impl()->get_gateway();
      out << " " << (g ? g->get_name().substr(1) : "-");
    } catch (std::exception const&) {
      out << " -";
    }
  } else if (t[0] == "L") {
    auto* z = w.zones.at(std::stoi(t[1]))->get_impl();
    Route route;
    double lat = 0;
    try {
      (z->*ZoneAccess::local())(w.nps.at(std::stoi(t[2])), w.nps.at(std::stoi(t[3])), &route, &lat);
      out << " " << (route.gw_src_ ? route.gw_src_->get_name().substr(1) : "-");
      out << " " << (route.gw_dst_ ? route.gw_dst_->get_name().substr(1) : "-");
      snprintf(buf, sizeof buf, " %a", lat);
      out << buf;
      for (auto const* l : route.link_list_)
        out << " " << link_tok(w, l);
    } catch (std::exception const&) {
      out.str("");
      out << " exc";
    }
  } else if (t[0] == "R") {
    std::vector<simgrid::kernel::resource::StandardLinkImpl*> links;
    double lat = 0;
    try {
      NetZoneImpl::get_global_route(w.nps.at(std::stoi(t[1])), w.nps.at(std::stoi(t[2])), links, &lat);
      snprintf(buf, sizeof buf, " %a", lat);
      out << buf;
      for (auto const* l : links)
        out << " " << link_tok(w, l);
    } catch (std::exception const&) {
      out.str("");
      out << " exc";
    }
  }
  return out.str();
}

static bool is_query(const std::string& l)
{
  return l.size() > 1 && l[1] == ' ' && (l[0] == 'G' || l[0] == 'L' || l[0] == 'R');
}

// One case.  Process tree: parent -> builder (creates the Engine and the platform once, never runs a query)
//   -> worker (answers the queries in-process, so that the DijkstraCache route cache is kept from one query to the next).
// When the library aborts in a query the worker dies; the builder prints `<query> => abort` and forks a new worker
// from its pristine copy of the platform (a restart costs a fork, not a rebuild).
static void run_case(const std::vector<std::string>& lines, char* argv0)
{
  int* progress = static_cast<int*>(mmap(nullptr, sizeof(int), PROT_READ | PROT_WRITE, MAP_SHARED | MAP_ANONYMOUS, -1, 0));
  *progress     = 0;
  fflush(stdout);
  pid_t builder = fork();
  if (builder == 0) {
    struct rlimit rl = {2000000000UL, 2000000000UL};
    setrlimit(RLIMIT_AS, &rl);
    struct rlimit nocore = {0, 0};
    setrlimit(RLIMIT_CORE, &nocore);
    if (not getenv("C24_STDERR")) {
      int devnull = open("/dev/null", O_WRONLY);
      dup2(devnull, 2);
    }
    char a1[]    = "--log=root.thres:critical";
    char a2[]    = "--cfg=network/loopback-lat:0.0009765625";
    char a3[]    = "--cfg=debug/stacktrace:none"; // aborting queries are expected; a backtrace costs 0.5 s
    char a4[]    = "--log=no_loc";
    char* argv[] = {argv0, a1, a2, a3, a4, nullptr};
    int argc     = 5;
    alarm(3000); // safety net only (wall clock: the machine may be heavily loaded)
    sg4::Engine e(&argc, argv);
    World w;
    build(w, lines);
    // platform built: print `new <id>` and the latency of every link
    printf("%s\n", lines[0].c_str());
    for (auto const& [name, id] : w.link_ids) {
      double lat = name == "__loopback__" ? 0.0009765625 : sg4::Link::by_name(name)->get_latency();
      printf("K %d => %a\n", id, lat);
    }
    // the Vivaldi coordinates as the library stores them
    // (Coords::EXTENSION_ID is a hidden symbol: the extension is read by rank, see build())
    for (auto const& [id, np] : w.nps) {
      const auto* c = static_cast<const simgrid::kernel::routing::vivaldi::Coords*>(np->extension(w.coords_rank));
      if (c && c->coords.size() == 3)
        printf("C %d => %a %a %a\n", id, c->coords[0], c->coords[1], c->coords[2]);
    }
    fflush(stdout);
    *progress    = 1;
    size_t start = 1;
    while (start < lines.size()) {
      pid_t worker = fork();
      if (worker == 0) {
        struct itimerval tv = {{0, 0}, {20, 0}}; // CPU time of the worker, not wall time
        setitimer(ITIMER_VIRTUAL, &tv, nullptr);
        for (size_t i = start; i < lines.size(); i++) {
          if (is_query(lines[i]))
            printf("%s =>%s\n", lines[i].c_str(), answer(w, split(lines[i])).c_str());
          else
            printf("%s\n", lines[i].c_str());
          fflush(stdout);
          *progress = static_cast<int>(i + 1);
        }
        _exit(0);
      }
      int st = 0;
      waitpid(worker, &st, 0);
      size_t done = static_cast<size_t>(*progress);
      if (done >= lines.size())
        break;
      printf("%s => %s\n", lines[done].c_str(), (WIFSIGNALED(st) && WTERMSIG(st) == SIGVTALRM) ? "timeout" : "abort");
      fflush(stdout);
      *progress = static_cast<int>(done + 1);
      start     = done + 1;
    }
    fflush(stdout);
    _exit(0);
  }
  int st = 0;
  waitpid(builder, &st, 0);
  if (*progress == 0) // the library rejected the platform
    printf("%s => buildfail\n", lines[0].c_str());
  else if (static_cast<size_t>(*progress) < lines.size())
    printf("%s => buildfail\n", lines[static_cast<size_t>(*progress)].c_str());
  fflush(stdout);
  munmap(progress, sizeof(int));
}

int main(int, char** argv)
{
  std::string line;
  std::vector<std::string> cur;
  while (std::getline(std::cin, line)) {
    if (line.empty())
      continue;
    if (line.rfind("new ", 0) == 0 && not cur.empty()) {
      run_case(cur, argv[0]);
      cur.clear();
    }
    cur.push_back(line);
  }
  if (not cur.empty())
    run_case(cur, argv[0]);
  return 0;
}
