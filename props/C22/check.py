"""C22 — availability profiles are applied exactly.
Theorems: lean/SgVerif/C22/Props.lean.  Tie: random deterministic profiles (<= 20 points, dyadic dates, PERIODICITY /
LOOPAFTER / one-shot) are given to ProfileBuilder::from_string and attached to a host (speed, state) or a link (bandwidth,
latency, state) of a real simulation; an observer samples the resource just before and at every predicted event date
(exact lane) and an exec / comm alone on the resource gives its end date (1e-9).  The Lean driver recomputes the event dates
with the code's delta arithmetic, the value in force, and the activity's end (code model and the property's integral)."""
import json
from fractions import Fraction
from vlib.core import SplitMix

# (a third class, latency-change-during-latency-phase-stalls-comm, is fixed: see NOTES.md and corpus.txt)
KEYS = ["zero-availability-mishandled", "comm-rate-capped-by-initial-bandwidth", "cpu-ti-profile-misapplied"]


def dy(k, den=16):
    f = Fraction(k, den)
    return str(f.numerator) if f.denominator == 1 else "%s" % float(f)


def gen_case(rng):
    kind = rng.choice(["hspeed", "hspeed", "hspeed", "hstate", "lbw", "lbw", "llat", "lstate"])
    optim = "Lazy"
    if kind in ("hspeed", "hstate") and rng.chance(1, 4):
        optim = "Full"
    n = rng.choice([1, 2, 3, 4, 5, 6, 8, 12, 20, rng.range(1, 20)])
    # sorted dyadic dates (multiples of 1/16), sometimes starting at 0, sometimes with equal dates
    ks = []
    cur = 0 if rng.chance(1, 6) else rng.range(1, 40)
    for i in range(n):
        ks.append(cur)
        cur += 0 if rng.chance(1, 12) else rng.range(1, 48)
    last = ks[-1]
    mode = rng.below(10)
    lines = []
    period = None
    malformed = None
    if mode < 5:
        pk = last + rng.choice([0, 1, 2, 16, rng.range(0, 64)])
        if pk == 0:
            pk = 16
        period = Fraction(pk, 16)
        lines.append("PERIODICITY %s" % dy(pk))
    elif mode < 8:
        dk = rng.choice([0, 1, 16, rng.range(0, 64)])
        if last + dk == 0:
            dk = 8
        period = Fraction(last + dk, 16)
        lines.append("LOOPAFTER %s" % dy(dk))
    base1 = 2 ** rng.range(10, 30)
    base2 = Fraction(rng.range(1, 32), 16)
    if kind == "hspeed":
        zero_ok = rng.chance(1, 5)
        vals = [rng.choice([0] if (zero_ok and rng.chance(1, 3)) else [0.25, 0.5, 0.75, 1, 1.5, 2]) for _ in range(n)]
    elif kind in ("hstate", "lstate"):
        vals = [rng.choice([0, 1]) for _ in range(n)]
    elif kind == "lbw":
        vals = [base1 * rng.choice([1, 2, 4]) // rng.choice([1, 2, 4]) for _ in range(n)]
    else:
        vals = [float(Fraction(rng.range(1, 32), 16)) for _ in range(n)]
    pts = ["%s %s" % (dy(k), v) for k, v in zip(ks, vals)]
    if rng.chance(1, 10):
        pts.insert(rng.below(len(pts) + 1), "# a comment")
    if rng.chance(1, 25):                      # malformed stream: the library must refuse
        m = rng.below(3)
        if m == 0 and n >= 2 and ks[0] != ks[-1]:
            pts = [p for p in pts if not p.startswith("#")]
            pts.reverse(); malformed = "unsorted"
        elif m == 1:
            pts.insert(0, "-1 %s" % vals[0]); malformed = "negative-date"
        elif last > 0:
            lines = ["PERIODICITY %s" % dy(max(1, last - 1))]; malformed = "period-too-short"
            if Fraction(max(1, last - 1), 16) >= Fraction(last, 16):
                malformed = None
    text = ";".join(lines + pts) if rng.chance(1, 2) else ";".join(pts + lines)
    # predicted event dates (closed form) -> sample dates: eps before and at each date
    horizon_k = max(last, 16) * rng.choice([1, 2, 3]) + rng.range(0, 32)
    evk = set()
    if period is not None and period > 0:
        k = 0
        while k * period * 16 <= horizon_k and k < 40:
            for d in ks:
                evk.add(Fraction(d, 16) + k * period)
            k += 1
    else:
        for d in ks:
            evk.add(Fraction(d, 16))
    samples = set()
    for t in sorted(evk)[:24]:
        if t - Fraction(1, 64) > 0:
            samples.add(t - Fraction(1, 64))
        if t > 0:
            samples.add(t)
    samples.add(Fraction(horizon_k, 16) + Fraction(1, 32))
    samples = sorted(samples)
    tstart = Fraction(rng.range(0, max(1, horizon_k // 2)), 16) + (Fraction(1, 64) if rng.chance(1, 2) else 0)
    if ks[0] == 0 and tstart == 0:
        # with a platform built through the C++ API nothing fires on_platform_created: events dated 0 are applied by the
        # first solve(), i.e. after the actors' first scheduling round (see NOTES.md) - keep the activity after t=0
        tstart = Fraction(1, 64)
    u = Fraction(rng.range(1, max(2, horizon_k // 2)), 16) + Fraction(1, 128)
    amount = 0 if rng.chance(1, 12) else int(base1 * u)
    if kind == "llat":
        base = "%d %s" % (base1, float(base2))
    elif kind in ("lbw", "lstate"):
        base = "%d %s" % (base1, float(Fraction(rng.range(0, 16), 16)))
    else:
        base = "%d" % base1
    q = "%s %s | %s | %s | %d %s | %s" % (kind, optim, base, text, amount, float(tstart), " ".join(str(float(s)) for s in samples))
    cls = kind + ("-malformed-" + malformed if malformed else ("-loop" if period else "-oneshot"))
    return cls, q


def gen_ti(rng):
    """cpu/optim:TI integrates the speed profile itself (CpuTiTmgr): only the monitor applies"""
    cls, q = gen_case(rng)
    while not (q.startswith("hspeed") and "PERIODICITY" in q and "malformed" not in cls):
        cls, q = gen_case(rng)
    return "hspeed-TI", q.replace("hspeed Lazy", "hspeed TI").replace("hspeed Full", "hspeed TI")


def fr(tok):
    f = Fraction(float(tok))
    return "%d/%d" % (f.numerator, f.denominator)


def canon(line):
    q, a = line.split(" =>", 1)
    f = [x.strip() for x in q.split("|")]
    lines = []
    for l in f[2].split(";"):
        t = l.split()
        if not t or t[0].startswith("#") or t[0].startswith("%"):
            lines.append("#")
        elif t[0] == "PERIODICITY":
            lines.append("P:" + fr(t[1]))
        elif t[0] == "LOOPAFTER":
            lines.append("L:" + fr(t[1]))
        else:
            lines.append("pt:%s:%s" % (fr(t[0]), fr(t[1])))
    am = f[3].split()
    out = [f[0], "|", " ".join(fr(x) for x in f[1].split()), "|", " ".join(lines), "|", fr(am[0]), fr(am[1]), "|",
           " ".join(fr(x) for x in f[4].split())]
    at = a.split()
    res = []
    for x in at:
        if x in ("s", "f", "ok", "fail", "none", "abort", "error"):
            res.append(x)
        else:
            v = Fraction(float.fromhex(x))
            res.append("%d/%d" % (v.numerator, v.denominator))
    return " ".join(out) + " => " + " ".join(res)


def run_parallel(ctx, h, queries, jobs=8):
    from concurrent.futures import ThreadPoolExecutor
    k = max(1, min(jobs, len(queries) // 8))
    size = (len(queries) + k - 1) // k
    chunks = [queries[i:i + size] for i in range(0, len(queries), size)]
    with ThreadPoolExecutor(max_workers=k) as ex:
        res = list(ex.map(lambda c: ctx.run_lines([h], c, timeout=3000), chunks))
    out, err, rc = [], "", 0
    for r, o, e in res:
        rc = rc or r
        out += o
        err += e
    return rc, out, err


def run(ctx):
    ctx.cov["rule"] = ("random deterministic profiles (1..20 points, dyadic dates incl. date 0 and equal dates, PERIODICITY / "
                       "LOOPAFTER / one-shot, comments, both line orders) on host speed/state and link bandwidth/latency/state, "
                       "sampled 1/64 before and at each of the first 24 predicted event dates, with one exec/comm alone on the "
                       "resource; + malformed stream (unsorted, negative date, period shorter than the pattern); "
                       "non-trivial = distinct case with at least one event inside the sampled horizon")
    ctx.assumptions += ["stochastic profiles are excluded (need the RNG stream)",
                        "sample dates are dyadic: value-in-force comparisons are exact; activity end dates compared at 1e-9",
                        "cpu/optim:TI is not modelled: only the monitor is evaluated on it"]
    ctx.ensure_simgrid(["simgrid"])
    ctx.lean_prove()
    drv = ctx.lean_exe()
    h = ctx.build_harness("harness.cpp")
    if not (drv and h):
        return
    n = 300 if ctx.tier == "quick" else 3000
    if ctx.broken:
        n *= 10
    corpus = [l.strip() for l in open(ctx.pdir + "/corpus.txt") if l.strip() and not l.startswith("#")]
    classes = {}
    if ctx.replay:
        queries = [json.load(open(ctx.replay))["case"]["query"]]
    else:
        rng = SplitMix(ctx.seed)
        queries = list(corpus)
        for i in range(n):
            cls, q = gen_ti(rng.fork(i)) if i % 25 == 24 else gen_case(rng.fork(i))
            classes[cls] = classes.get(cls, 0) + 1
            queries.append(q)
    rc, out, err = run_parallel(ctx, h, queries)
    if rc != 0 or len(out) != len(queries):
        ctx.broken.append({"kind": "harness-run", "rc": rc, "stderr": err[-2000:], "lines": len(out)})
        return
    try:
        cout = [canon(l) for l in out]
    except Exception as ex:                     # noqa
        ctx.broken.append({"kind": "canon", "error": repr(ex)})
        return
    rc, verdicts, err = ctx.run_lines([drv], cout)
    if rc != 0 or not verdicts or verdicts[-1] != "END %d" % len(cout):
        ctx.broken.append({"kind": "driver-run", "rc": rc, "stderr": err[-2000:], "tail": verdicts[-2:]})
        return
    seen = set()
    hits = {}
    for q, l, v in zip(queries, out, verdicts):
        ctx.cov["evaluations"] += 1
        if q not in seen and "=> s" in l and len(l.split("=> s")[1].split(" f ")[0].split()) > 1:
            seen.add(q)
            ctx.cov["distinct_nontrivial"] += 1
        if v == "ok":
            ctx.cov["traces_validated_against_impl"] += 1
        elif v.startswith("MONFAIL"):
            key = v.rsplit("key=", 1)[-1].strip()
            hits[key] = hits.get(key, 0) + 1
            ctx.violation("profile not applied exactly: " + v[:300], {"query": q, "impl": l, "verdict": v},
                          key=key if key in KEYS else None)
        else:
            ctx.broken.append({"kind": "correspondence", "query": q, "impl": l, "verdict": v[:400]})
    ctx.cov["samples"] = out[:2] + out[len(corpus):len(corpus) + 4]
    ctx.cov["distribution"] = classes
    ctx.cov["monitor_failures_by_key"] = hits
