// C22 harness: a resource with an availability profile, an observer sampling it at given dates, one activity using it.
// stdin: one case per line, fields separated by '|':
//   <kind> <cpu-optim> | <base> | <profile text, ';' = newline> | <amount> <tstart> | <sample dates>
//   kind: hspeed (base = peak speed; profile values are speed ratios), hstate (base = peak speed),
//         lbw / llat / lstate (base = "<bandwidth> <latency>")
//   activity: an exec of <amount> flops on the host / a transfer of <amount> bytes over the link, started at <tstart>
//             by an actor living on another (always-on) host; amount 0 = no activity
// stdout: `<case> => s <sample>* f <status> <date>`   (samples %a; status ok|fail|none; date %a)
//         `<case> => abort` when the library aborts (malformed profile)
// Each case runs in a forked child.
#include <simgrid/kernel/ProfileBuilder.hpp>
#include <simgrid/s4u.hpp>
#include <cstdio>
#include <iostream>
#include <sstream>
#include <string>
#include <sys/wait.h>
#include <unistd.h>
#include <vector>

namespace sg4 = simgrid::s4u;

static std::vector<std::string> split(const std::string& s, char c)
{
  std::vector<std::string> out;
  std::string cur;
  for (char ch : s) {
    if (ch == c) {
      out.push_back(cur);
      cur.clear();
    } else
      cur += ch;
  }
  out.push_back(cur);
  return out;
}

static int run_case(const std::string& line)
{
  auto f = split(line, '|');
  if (f.size() != 5) {
    printf("%s => error fields\n", line.c_str());
    return 0;
  }
  std::string kind, optim;
  std::istringstream(f[0]) >> kind >> optim;
  std::vector<std::string> args = {"c22", "--log=root.thres:critical", "--cfg=network/model:CM02", "--cfg=network/TCP-gamma:0",
                                   "--cfg=network/crosstraffic:0", "--cfg=cpu/optim:" + optim};
  std::vector<char*> argv;
  for (auto& a : args)
    argv.push_back(a.data());
  argv.push_back(nullptr);
  int argc = (int)args.size();
  sg4::Engine e(&argc, argv.data());
  auto* zone = e.get_netzone_root();

  std::string text = f[2];
  for (auto& ch : text)
    if (ch == ';')
      ch = '\n';
  double amount, tstart;
  std::istringstream(f[3]) >> amount >> tstart;
  std::vector<double> samples;
  {
    std::istringstream in(f[4]);
    std::string t;
    while (in >> t)
      samples.push_back(std::stod(t));
  }
  double base1 = 0, base2 = 0;
  std::istringstream(f[1]) >> base1 >> base2;
  bool host_kind = kind[0] == 'h';

  auto* h0 = zone->add_host("h0", 1e9);
  auto* h3 = zone->add_host("h3", 1e9);
  auto* h1 = zone->add_host("h1", host_kind ? base1 : 1e9);
  auto* h2 = zone->add_host("h2", 1e9);
  auto* l  = zone->add_link("l", host_kind ? 1e9 : base1);
  l->set_latency(host_kind ? 0.0 : base2);
  zone->add_route(h1, h2, {sg4::LinkInRoute(l)}, true);

  auto* prof = simgrid::kernel::profile::ProfileBuilder::from_string("p", text, -1);
  if (kind == "hspeed")
    h1->set_speed_profile(prof);
  else if (kind == "hstate")
    h1->set_state_profile(prof);
  else if (kind == "lbw")
    l->set_bandwidth_profile(prof);
  else if (kind == "llat")
    l->set_latency_profile(prof);
  else if (kind == "lstate")
    l->set_state_profile(prof);
  zone->seal();

  std::vector<double> vals(samples.size(), -1);
  h0->add_actor("observer", [=, &vals]() {
    for (size_t i = 0; i < samples.size(); i++) {
      sg4::this_actor::sleep_until(samples[i]);
      if (kind == "hspeed")
        vals[i] = h1->get_speed() * h1->get_available_speed();
      else if (kind == "hstate")
        vals[i] = h1->is_on() ? 1 : 0;
      else if (kind == "lbw")
        vals[i] = l->get_bandwidth();
      else if (kind == "llat")
        vals[i] = l->get_latency();
      else
        vals[i] = l->is_on() ? 1 : 0;
    }
  });
  std::string status = "none";
  double fdate       = -1;
  if (amount > 0)
    h3->add_actor("worker", [=, &status, &fdate]() {
      sg4::this_actor::sleep_until(tstart);
      try {
        if (host_kind) {
          auto x = sg4::Exec::init()->set_flops_amount(amount)->set_host(h1);
          x->start();
          x->wait();
        } else {
          sg4::Comm::sendto(h1, h2, (uint64_t)amount);
        }
        status = "ok";
      } catch (const simgrid::Exception&) {
        status = "fail";
      }
      fdate = sg4::Engine::get_clock();
    });
  e.run();
  printf("%s => s", line.c_str());
  for (double v : vals)
    printf(" %a", v);
  printf(" f %s %a\n", status.c_str(), fdate);
  return 0;
}

int main()
{
  std::string line;
  while (std::getline(std::cin, line)) {
    if (line.empty())
      continue;
    fflush(stdout);
    pid_t pid = fork();
    if (pid == 0) {
      if (not getenv("C22_STDERR"))
        fclose(stderr);
      int rc = 1;
      try {
        rc = run_case(line);
      } catch (std::exception const& ex) {
        printf("%s => error exception\n", line.c_str());
        rc = 0;
      }
      fflush(stdout);
      _exit(rc);
    }
    int st = 0;
    waitpid(pid, &st, 0);
    if (not(WIFEXITED(st) && WEXITSTATUS(st) == 0)) {
      printf("%s => abort\n", line.c_str());
      fflush(stdout);
    }
  }
  return 0;
}
