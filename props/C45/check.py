"""C45 — random draws are in range, unbiased and portable.
Theorems: lean/SgVerif/C45/Props.lean.  Tie: correspondence of Model.lean (uniform_int, uniform_real, mt19937)
against simgrid::xbt::random::XbtRandom on generated (seed, min, max) triples."""
from fractions import Fraction
from vlib.core import SplitMix

I32 = (-2**31, 2**31 - 1)


def gen(rng, n):
    lines = []
    for i in range(n):
        k = rng.below(10)
        seed = rng.choice([0, 1, 42, -1, 2**31 - 1, -2**31, rng.range(-2**31, 2**31 - 1)])
        if k == 9 or k == 8:
            # planted raw streams around the rejection bound of a chosen range (boundary behaviour that a random
            # seed reaches with probability 2^-32 per draw)
            M = 2**32 - 1
            kind = rng.below(6)
            if kind == 0:
                mn, mx = I32
            elif kind == 1:
                mn = rng.range(-2**31, 0); mx = min(mn + 2**31 + rng.range(-3, 3), I32[1])
            elif kind == 2:
                mn = rng.range(-50, 50); mx = mn + rng.range(0, 40)
            else:
                mn = rng.range(*I32); mx = rng.range(mn, I32[1])
            rg = mx - mn + 1
            limit = M - M % rg if rg <= M else M + 1
            cands = [limit - 1, limit, limit + 1, M, M - 1, 0, 1, rg - 1, rg, rg + 1, limit - rg, limit // 2, rng.below(M + 1)]
            cands = [c for c in cands if 0 <= c <= M]
            raws = [rng.choice(cands) for _ in range(rng.range(3, 12))]
            acc = [r for r in raws if r < limit]
            if rng.below(4) == 0:
                den = 2 ** rng.range(0, 6); a = rng.range(-2**10, 2**10); b = a + rng.range(0, 2**11)
                kk = len([r for r in raws if r != M])
                lines.append("injreal %d/%d %d/%d %d %s" % (a, den, b, den, kk + 1, " ".join(map(str, raws))))
            else:
                lines.append("inj %d %d %d %s" % (mn, mx, len(acc) + 1, " ".join(map(str, raws))))
            continue
        if k == 0:
            lines.append("raw %d %d" % (seed, rng.choice([1, 5, 623, 624, 625, 1300])))
        elif k <= 6:
            kind = rng.below(8)
            if kind == 0:
                mn, mx = I32                                    # full range branch
            elif kind == 1:
                mn = rng.range(*I32); mx = mn                   # range 1
            elif kind == 2:
                mn = rng.range(-2**31, -2**31 + 5); mx = rng.range(2**31 - 7, 2**31 - 1)  # near-full ranges
            elif kind == 3:
                mn = rng.range(-100, 100); mx = mn + rng.range(0, 50)
            elif kind == 4:                                     # ranges around 2^31 (many rejections)
                mn = rng.range(-2**31, 0); mx = min(mn + 2**31 + rng.range(-3, 3), I32[1])
            elif kind == 5:
                mn = rng.range(*I32); mx = rng.range(mn, I32[1])
            elif kind == 6:
                mn = rng.range(0, 2**31 - 1); mx = rng.range(mn, I32[1])
            else:                                               # malformed: min > max (must be rejected)
                mx = rng.range(-2**31, 2**31 - 2); mn = rng.range(mx + 1, I32[1])
            lines.append("int %d %d %d %d" % (seed, mn, mx, 1 if mn > mx else rng.range(1, 12)))
        elif k == 7 and rng.below(2) == 0:
            # degenerate and few-ulp-wide intervals around arbitrary (non-dyadic) doubles: where a rewriting of
            # min + (max-min)*r (e.g. min*(1-r) + max*r) leaves [min,max] by a rounding step
            import math
            base = rng.choice([0.1, 0.3, 1.0 / 3, 1e-9, 123456.789, -0.7, 5e15, -2.5e-7, 1e300, 3.0]) * (1 + rng.below(1000) / 997.0)
            hi = base
            for _ in range(rng.choice([0, 0, 1, 2, 3, 7])):
                hi = math.nextafter(hi, math.inf)
            lines.append("realx %d %s %s %d" % (seed, float(base).hex(), float(hi).hex(), rng.range(2, 8)))
        else:
            den = 2 ** rng.range(0, 10)
            a = rng.range(-2**20, 2**20)
            b = a + rng.range(0, 2**21)
            lines.append("real %d %d/%d %d/%d %d" % (seed, a, den, b, den, rng.range(1, 8)))
    return lines


def canon(line):
    """hexfloat answers of `real` queries -> exact rationals (the Lean driver parses p/q)."""
    if not (line.startswith("real ") or line.startswith("injreal ") or line.startswith("realx ")):
        return line
    q, a = line.split(" =>", 1)
    if q.startswith("realx "):      # the bounds are hexfloats too: hand the driver their exact values as a `real` query
        t = q.split()
        fa, fb = Fraction(float.fromhex(t[2])), Fraction(float.fromhex(t[3]))
        q = "real %s %d/%d %d/%d %s" % (t[1], fa.numerator, fa.denominator, fb.numerator, fb.denominator, t[4])
    vals = []
    for t in a.split():
        f = Fraction(float.fromhex(t))
        vals.append("%d/%d" % (f.numerator, f.denominator))
    return q + " => " + " ".join(vals)


def run(ctx):
    ctx.cov["rule"] = ("queries (seed,min,max,n) drawn from splitmix64(VERIF_SEED): 8 integer-range classes incl. full range, "
                       "range 1, ranges near 2^31 and 2^32, malformed min>max; non-trivial = distinct query whose answer "
                       "has >= 1 draw and is not the malformed stream")
    ctx.assumptions += ["double rounding in uniform_real is not modelled (exact rational model, tolerance 1e-15 relative)",
                        "the Lean mt19937 is compared with the library draw by draw, not proved against the C++ standard"]
    ctx.ensure_simgrid(["simgrid"])
    ctx.lean_prove()
    drv = ctx.lean_exe()
    h = ctx.build_harness("harness.cpp")
    if not (drv and h):
        return
    n = 400 if ctx.tier == "quick" else 20000
    if ctx.broken:
        n *= 10          # search mode: proof or build broke, look harder for a failing input
    corpus = [l.strip() for l in open(ctx.pdir + "/corpus.txt") if l.strip() and not l.startswith("#")]
    if ctx.replay:
        import json
        queries = [json.load(open(ctx.replay))["case"]["query"]]
    else:
        queries = corpus + gen(SplitMix(ctx.seed), n)
    rc, out, err = ctx.run_lines([h], queries)
    if rc != 0 or len(out) != len(queries):
        ctx.broken.append({"kind": "harness-run", "rc": rc, "stderr": err[-2000:], "lines": len(out)})
        return
    out = [canon(l) for l in out]
    rc, verdicts, err = ctx.run_lines([drv], out)
    if rc != 0 or not verdicts or verdicts[-1] != "END %d" % len(out):
        ctx.broken.append({"kind": "driver-run", "rc": rc, "stderr": err[-2000:]})
        return
    kinds = {}
    seen = set()
    for q, l, v in zip(queries, out, verdicts):
        ctx.cov["evaluations"] += 1
        k = q.split()[0]
        kinds[k] = kinds.get(k, 0) + 1
        if q not in seen and not l.endswith("=> assert"):
            seen.add(q)
            ctx.cov["distinct_nontrivial"] += 1
        if v == "ok":
            ctx.cov["traces_validated_against_impl"] += 1
        elif v.startswith("MONFAIL"):
            ctx.violation(v, {"query": q, "impl": l, "verdict": v}, key=None)
        else:
            # model and implementation differ: correspondence broken; is the property violated on this input?
            # the monitor (range test) passed, so this input is not a failing input for "in range"; for
            # "portable / fixed sequence" a differing draw *is* the failure: the sequence is no longer the one
            # SimGrid's own code (as modelled) defines.
            ctx.violation("draws differ from the sequence defined by the model of SimGrid's own algorithm: " + v,
                          {"query": q, "impl": l, "verdict": v}, key=None)
    ctx.cov["samples"] = out[:3] + out[len(corpus):len(corpus) + 3]
    ctx.cov["distribution"] = kinds
