// C45 harness: drives simgrid::xbt::random::XbtRandom (the default generator) in-process.
// stdin: one query per line; stdout: `<query> => <answer>`
//   raw <seed> <n>               n raw outputs of the engine XbtRandom draws from
//   int <seed> <min> <max> <n>   n calls of uniform_int(min,max)       (`assert` if the library aborts)
//   inj <min> <max> <k> <raw>*   k calls of uniform_int on a *planted* raw stream (state loaded through operator>>)
//   injreal <min> <max> <k> <raw>*
//   realx <seed> <min> <max> <n> as `real` with min/max given as hexfloats (any double)
//   real <seed> <min> <max> <n>  n calls of uniform_real(min,max); min/max are rationals p/q exactly representable
#include <xbt/random.hpp>
#include <cstdio>
#include <iostream>
#include <sstream>
#include <string>
#include <sys/resource.h>
#include <sys/wait.h>
#include <xbt/config.hpp>
#include <unistd.h>
#include <vector>
#include <cstdint>

// inverse of the mt19937 tempering, so that a chosen raw output can be planted in the engine state
static uint32_t untemper(uint32_t y)
{
  y ^= y >> 18;
  y ^= (y << 15) & 0xefc60000u;
  uint32_t x = y;
  for (int i = 0; i < 5; i++)
    x = y ^ ((x << 7) & 0x9d2c5680u);
  y = x;
  x = y;
  for (int i = 0; i < 3; i++)
    x = y ^ (x >> 11);
  return x;
}
// load a state whose next outputs are exactly `raws` (then the all-zero rest), via the engine's own operator>>
static void plant(simgrid::xbt::random::XbtRandom& r, const std::vector<uint32_t>& raws)
{
  std::ostringstream st;
  for (size_t i = 0; i < 624; i++)
    st << (i < raws.size() ? untemper(raws[i]) : 0u) << " ";
  st << 0;
  std::istringstream is(st.str());
  is >> r.mt19937_gen;
}

static double parse_rat(const std::string& s)
{
  auto p = s.find('/');
  if (p == std::string::npos)
    return std::stod(s);
  return std::stod(s.substr(0, p)) / std::stod(s.substr(p + 1));
}

int main()
{
  std::string line;
  while (std::getline(std::cin, line)) {
    std::istringstream in(line);
    std::string kind;
    in >> kind;
    std::ostringstream out;
    if (kind == "raw") {
      int seed; int n;
      in >> seed >> n;
      simgrid::xbt::random::XbtRandom r(seed);
      for (int i = 0; i < n; i++)
        out << " " << r.mt19937_gen();
    } else if (kind == "int") {
      int seed, mn, mx, n;
      in >> seed >> mn >> mx >> n;
      if (mn > mx) { // the library is expected to abort: isolate it
        fflush(stdout);
        pid_t pid = fork();
        if (pid == 0) {
          fclose(stderr);
          struct rlimit rl = {0, 0};
          setrlimit(RLIMIT_CORE, &rl); // the abort must not write a core
          simgrid::config::set_as_string("debug/stacktrace", "none"); // nor symbolise a backtrace (1 s each)
          simgrid::xbt::random::XbtRandom r(seed);
          int v = r.uniform_int(mn, mx);
          printf("%s => %d\n", line.c_str(), v);
          fflush(stdout);
          _exit(0);
        }
        int st = 0;
        waitpid(pid, &st, 0);
        if (!(WIFEXITED(st) && WEXITSTATUS(st) == 0))
          printf("%s => assert\n", line.c_str());
        continue;
      }
      simgrid::xbt::random::XbtRandom r(seed);
      for (int i = 0; i < n; i++)
        out << " " << r.uniform_int(mn, mx);
    } else if (kind == "real") {
      int seed, n;
      std::string mn, mx;
      in >> seed >> mn >> mx >> n;
      simgrid::xbt::random::XbtRandom r(seed);
      double a = parse_rat(mn), b = parse_rat(mx);
      char buf[64];
      for (int i = 0; i < n; i++) {
        snprintf(buf, sizeof buf, " %a", r.uniform_real(a, b));
        out << buf;
      }
    } else if (kind == "realx") { // realx <seed> <min-hexfloat> <max-hexfloat> <n> : arbitrary doubles (degenerate / few-ulp intervals)
      int seed, n;
      std::string mn, mx;
      in >> seed >> mn >> mx >> n;
      simgrid::xbt::random::XbtRandom r(seed);
      double a = strtod(mn.c_str(), nullptr), b = strtod(mx.c_str(), nullptr);
      char buf[64];
      for (int i = 0; i < n; i++) {
        snprintf(buf, sizeof buf, " %a", r.uniform_real(a, b));
        out << buf;
      }
    } else if (kind == "inj") { // inj <min> <max> <k> <raw>*  : k calls of uniform_int on a planted raw stream
      int mn, mx, k;
      in >> mn >> mx >> k;
      std::vector<uint32_t> raws;
      unsigned long v;
      while (in >> v)
        raws.push_back((uint32_t)v);
      simgrid::xbt::random::XbtRandom r(1);
      plant(r, raws);
      for (int i = 0; i < k; i++)
        out << " " << r.uniform_int(mn, mx);
    } else if (kind == "injreal") { // injreal <min> <max> <k> <raw>*
      std::string mn, mx;
      int k;
      in >> mn >> mx >> k;
      std::vector<uint32_t> raws;
      unsigned long v;
      while (in >> v)
        raws.push_back((uint32_t)v);
      simgrid::xbt::random::XbtRandom r(1);
      plant(r, raws);
      double a = parse_rat(mn), b = parse_rat(mx);
      char buf[64];
      for (int i = 0; i < k; i++) {
        snprintf(buf, sizeof buf, " %a", r.uniform_real(a, b));
        out << buf;
      }
    } else
      continue;
    printf("%s =>%s\n", line.c_str(), out.str().c_str());
  }
  return 0;
}
