// C50 harness: drives xbt_dynar (elements: int) and xbt_dict (values: small ints stored in the pointer) of
// libsimgrid in-process.  One operation per line on stdin, one `<query> => <answer>` line on stdout.
//   D new | D push x | D pop | D popPtr | D unshift x | D shift | D insertAt i x | D removeAt i | D get i | D set i x
//   D length | D isEmpty | D reset | D member x | D sort | D foreach
//   D ! <op…>     the same call executed in a forked child (the parent's dynar is NOT modified): used for calls
//                 expected to hit an xbt_assert.  Answer: `ret <answer>` | `abort` (SIGABRT) | `crash <sig>` | `exit <code>`
//   T new | T set k v | T get k | T remove k | T length | T dump
// Answers: unit | val v | bool 0/1 | nat n | list x… | null | throw | kv k v … | fill f size s
#include <xbt/asserts.h>
#include <xbt/config.hpp>
#include <xbt/dict.h>
#include <xbt/dynar.h>
#include <xbt/log.h>

#include <cstdint>
#include <fcntl.h>
#include <cstdio>
#include <cstring>
#include <iostream>
#include <sstream>
#include <stdexcept>
#include <string>
#include <sys/resource.h>
#include <sys/wait.h>
#include <unistd.h>
#include <vector>

extern "C" {
#include "src/xbt/dict_private.h"
}

static int cmp_int(const void* a, const void* b)
{
  int x = *(const int*)a, y = *(const int*)b;
  return (x > y) - (x < y);
}

static std::string dynar_op(xbt_dynar_t d, const std::vector<std::string>& t)
{
  std::ostringstream out;
  const std::string& op = t[0];
  auto I = [&](size_t i) { return std::stoll(t.at(i)); };
  if (op == "push") {
    int x = (int)I(1);
    xbt_dynar_push(d, &x);
    out << "unit";
  } else if (op == "pop") {
    int x = -12345;
    xbt_dynar_pop(d, &x);
    out << "val " << x;
  } else if (op == "popPtr") {
    int x = xbt_dynar_pop_as(d, int);
    out << "val " << x;
  } else if (op == "unshift") {
    int x = (int)I(1);
    xbt_dynar_unshift(d, &x);
    out << "unit";
  } else if (op == "shift") {
    int x = -12345;
    xbt_dynar_shift(d, &x);
    out << "val " << x;
  } else if (op == "insertAt") {
    int x = (int)I(2);
    xbt_dynar_insert_at(d, (int)I(1), &x);
    out << "unit";
  } else if (op == "removeAt") {
    int x = -12345;
    xbt_dynar_remove_at(d, (int)I(1), &x);
    out << "val " << x;
  } else if (op == "get") {
    int x = -12345;
    unsigned long idx = std::stoull(t.at(1));
    if (idx % 2 == 0)
      xbt_dynar_get_cpy(d, idx, &x);
    else
      x = xbt_dynar_get_as(d, idx, int);
    out << "val " << x;
  } else if (op == "set") {
    xbt_dynar_set_as(d, std::stoull(t.at(1)), int, (int)I(2));
    out << "unit";
  } else if (op == "length") {
    out << "nat " << xbt_dynar_length(d);
  } else if (op == "isEmpty") {
    out << "bool " << (xbt_dynar_is_empty(d) ? 1 : 0);
  } else if (op == "reset") {
    xbt_dynar_reset(d);
    out << "unit";
  } else if (op == "member") {
    int x = (int)I(1);
    out << "bool " << (xbt_dynar_member(d, &x) ? 1 : 0);
  } else if (op == "sort") {
    xbt_dynar_sort(d, cmp_int);
    out << "unit";
  } else if (op == "foreach") {
    unsigned int cpt;
    int x;
    out << "list";
    xbt_dynar_foreach (d, cpt, x)
      out << " " << x;
  } else
    out << "badquery";
  return out.str();
}

int main()
{
  xbt_log_control_set("root.thres:critical");
  simgrid::config::set_as_string("debug/stacktrace", "none"); // once: an aborting child prints no backtrace
  xbt_dynar_t d = xbt_dynar_new(sizeof(int), nullptr);
  xbt_dict_t dict = xbt_dict_new_homogeneous(nullptr);
  std::string line;
  while (std::getline(std::cin, line)) {
    std::istringstream in(line);
    std::vector<std::string> t;
    for (std::string w; in >> w;)
      t.push_back(w);
    std::string ans;
    if (t.size() >= 2 && t[0] == "D") {
      if (t[1] == "new") {
        xbt_dynar_free(&d);
        d   = xbt_dynar_new(sizeof(int), nullptr);
        ans = "unit";
      } else if (t[1] == "!") {
        fflush(stdout);
        std::cout.flush();
        int fds[2];
        if (pipe(fds) != 0)
          return 3;
        pid_t pid = fork();
        if (pid == 0) {
          struct rlimit rl = {0, 0};
          setrlimit(RLIMIT_CORE, &rl);
          int devnull = open("/dev/null", O_WRONLY);
          dup2(devnull, 2);
          close(fds[0]);
          std::string r = "ret " + dynar_op(d, std::vector<std::string>(t.begin() + 2, t.end()));
          if (write(fds[1], r.c_str(), r.size()) < 0)
            _exit(9);
          _exit(0);
        }
        close(fds[1]);
        char buf[4096];
        ssize_t n = 0, k;
        while ((k = read(fds[0], buf + n, sizeof buf - 1 - n)) > 0)
          n += k;
        buf[n] = 0;
        close(fds[0]);
        int st = 0;
        waitpid(pid, &st, 0);
        if (WIFSIGNALED(st))
          ans = WTERMSIG(st) == SIGABRT ? "abort" : "crash " + std::to_string(WTERMSIG(st));
        else if (WEXITSTATUS(st) != 0)
          ans = "exit " + std::to_string(WEXITSTATUS(st));
        else
          ans = buf;
      } else
        ans = dynar_op(d, std::vector<std::string>(t.begin() + 1, t.end()));
    } else if (t.size() >= 2 && t[0] == "T") {
      std::ostringstream out;
      if (t[1] == "new") {
        xbt_dict_free(&dict);
        dict = xbt_dict_new_homogeneous(nullptr);
        out << "unit";
      } else if (t[1] == "set") {
        intptr_t v = std::stoll(t.at(3)) + 1;
        if (t[2].size() % 2)
          xbt_dict_set(dict, t[2].c_str(), (void*)v);
        else
          xbt_dict_set_ext(dict, t[2].c_str(), (int)t[2].size(), (void*)v);
        out << "unit";
      } else if (t[1] == "get") {
        void* p = t[2].size() % 2 ? xbt_dict_get_or_null(dict, t[2].c_str())
                                  : xbt_dict_get_or_null_ext(dict, t[2].c_str(), (int)t[2].size());
        if (p)
          out << "val " << ((intptr_t)p - 1);
        else
          out << "null";
      } else if (t[1] == "remove") {
        try {
          xbt_dict_remove_ext(dict, t[2].c_str(), (int)t[2].size());
          out << "unit";
        } catch (const std::out_of_range&) {
          out << "throw";
        }
      } else if (t[1] == "length") {
        out << "nat " << xbt_dict_length(dict);
        if ((unsigned)xbt_dict_length(dict) != xbt_dict_size(dict) || (xbt_dict_is_empty(dict) != (xbt_dict_length(dict) == 0)))
          out << " inconsistent";
      } else if (t[1] == "dump") {
        xbt_dict_cursor_t cursor = nullptr;
        char* key;
        void* data;
        out << "kv";
        xbt_dict_foreach (dict, cursor, key, data)
          out << " " << key << " " << ((intptr_t)data - 1);
        out << " | fill " << dict->fill << " size " << dict->table_size;
      } else
        out << "badquery";
      ans = out.str();
    } else
      ans = "badquery";
    std::cout << line << " => " << ans << "\n";
  }
  std::cout.flush();
  return 0;
}
