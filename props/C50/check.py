"""C50 — legacy xbt containers (xbt_dynar, xbt_dict) behave like a growable array / a string-keyed map.
Theorems: lean/SgVerif/C50/Props.lean (forward simulation of the implementation models to List / association map,
for all operation sequences and all hash functions).  Correspondence: random operation sequences (<= 200 steps
in the quick tier, longer ones in the thorough tier to reach the second rehash) on the real library; calls expected to
hit an assertion run in a forked child."""
import json
from vlib.core import SplitMix

# classification labels of the two defects fixed by props/C50/fix_series (no `finding:` line any more: a monitor
# failure on one of these calls is a regression of the fix and makes the check fail)
K_INSERT = "dynar-insert-past-end-unchecked"
K_TRUNC = "dynar-index-truncated-to-int"


# ------------------------------------------------------------------ dynar sequences
def dynar_seq(rng, steps, cls):
    """returns [(line, key-or-None)]; `ref` is only used to choose arguments (valid indices, present values)"""
    ref = []
    out = [("D new", None)]
    val = lambda: rng.range(-20, 20) if rng.chance(9, 10) else rng.choice([2**31 - 1, -2**31, 0, 1000000])
    for step in range(steps):
        n = len(ref)
        r = rng.below(100)
        if r < 6:  # a call that must be refused, in a forked child
            k = rng.below(12)
            key = None
            if k == 0:
                line = "get %d" % (n + rng.choice([0, 1, 2, 10]))
            elif k == 1:
                line = "removeAt %d" % (n + rng.choice([0, 1, 5]))
            elif k == 2:
                line = "removeAt %d" % rng.choice([-1, -2, -2**31])
            elif k == 3:
                line = "insertAt %d %d" % (rng.choice([-1, -7, -2**31]), val())
            elif k == 4:
                line, key = "insertAt %d %d" % (n + rng.choice([1, 2, 3, 40]), val()), K_INSERT
            elif k == 5:
                line, key = "get %d" % (2**32 + rng.choice([0, max(n - 1, 0), n, n + 5]) + rng.choice([0, 2**32, 2**40])), K_TRUNC
            elif k == 6:
                idx = rng.choice([2**31, 2**32 - 1, 2**31 + n, 2**63, 2**64 - 1, 2**63 + n, 2**33 + max(n - 1, 0)])
                m = idx % 2**32
                i32 = m if m < 2**31 else m - 2**32
                line, key = "get %d" % idx, (K_TRUNC if 0 <= i32 < n else None)
            elif k in (7, 8, 9) and n == 0:
                line = rng.choice(["pop", "shift", "popPtr"])
            else:  # a valid call through the fork path (the child answers like the parent would)
                line = rng.choice(["length", "foreach", "isEmpty", "member %d" % val()])
            out.append(("D ! " + line, key))
            continue
        if cls == "grow":
            w = [("push", 30), ("unshift", 10), ("insertAt", 25), ("pop", 5), ("shift", 3), ("removeAt", 7), ("get", 8),
                 ("set", 4), ("foreach", 3), ("length", 2), ("sort", 1), ("member", 2)]
        elif cls == "shrink":
            w = [("push", 12), ("unshift", 4), ("insertAt", 8), ("pop", 15), ("popPtr", 8), ("shift", 12), ("removeAt", 18),
                 ("get", 8), ("set", 3), ("foreach", 3), ("length", 2), ("isEmpty", 3), ("reset", 1), ("sort", 1), ("member", 2)]
        else:
            w = [("push", 12), ("unshift", 6), ("insertAt", 12), ("pop", 8), ("popPtr", 4), ("shift", 6), ("removeAt", 10),
                 ("get", 10), ("set", 8), ("foreach", 5), ("length", 3), ("isEmpty", 2), ("reset", 1), ("sort", 4), ("member", 5)]
        tot = sum(x for _, x in w)
        t = rng.below(tot)
        for op, x in w:
            if t < x:
                break
            t -= x
        if op in ("pop", "popPtr", "shift", "removeAt", "get") and n == 0:
            op = "push"
        if op == "push":
            v = val(); ref.append(v); line = "push %d" % v
        elif op == "unshift":
            v = val(); ref.insert(0, v); line = "unshift %d" % v
        elif op == "insertAt":
            i = rng.choice([0, n, rng.range(0, n), rng.range(0, n)]); v = val(); ref.insert(i, v); line = "insertAt %d %d" % (i, v)
        elif op in ("pop", "popPtr"):
            ref.pop(); line = op
        elif op == "shift":
            ref.pop(0); line = "shift"
        elif op == "removeAt":
            i = rng.choice([0, n - 1, rng.below(n)]); ref.pop(i); line = "removeAt %d" % i
        elif op == "get":
            line = "get %d" % rng.choice([0, n - 1, rng.below(n)])
        elif op == "set":
            # inside, just at the end, or beyond (zero fill; beyond 2*(size+1) to take the `nb > expand` branch)
            i = rng.choice([rng.below(n + 1), n, n + 1, n + rng.range(1, 6), 3 * n + 8 if rng.chance(1, 4) else n])
            v = val()
            if i < n:
                ref[i] = v
            else:
                ref.extend([0] * (i - n) + [v])
            line = "set %d %d" % (i, v)
        elif op == "reset":
            ref.clear(); line = "reset"
        elif op == "sort":
            ref.sort(); line = "sort"
        elif op == "member":
            line = "member %d" % (rng.choice(ref) if ref and rng.chance(1, 2) else val())
        else:
            line = op
        out.append(("D " + line, None))
        if step % 16 == 15:
            out.append(("D foreach", None))
            out.append(("D length", None))
    out.append(("D foreach", None))
    return out


# ------------------------------------------------------------------ dict sequences
def djb2(k):
    h = 5381
    for c in k.encode():
        h = (h * 33 + c) & 0xFFFFFFFF
    return h


def spread_keys(n):
    """keys falling into pairwise distinct cells for the masks 127, then 255, then 511 (only used to *reach* the
    rehash threshold within the step budget; the answers are judged by the Lean model)"""
    res, seen, mask, i = [], set(), 127, 0
    while len(res) < n:
        k = "k%d" % i
        i += 1
        c = djb2(k) & mask
        if c not in seen:
            seen.add(c)
            res.append(k)
        if len(seen) * 100 // (mask + 1) > 80:
            mask = mask * 2 + 1
            seen = set(djb2(x) & mask for x in res)
    return res


def dict_seq(rng, steps, cls):
    out = [("T new", None)]
    spread = spread_keys(steps) if cls == "fill" else []
    # small alphabet: 2-character keys collide in the 128 cells and (e.g. "ab"/"bA") on the full djb2 code
    alpha = "abAB" if cls != "fill" else "abcdefghijklmnopqrstuvwxyzABCDEFGHIJKLMNOPQRSTUVWXYZ0123456789"
    present = []

    def key():
        if cls == "fill" and rng.chance(9, 10):
            if spread and rng.chance(9, 10):
                return spread.pop(0)
            return "k%d" % rng.below(10 * steps) if rng.chance(1, 2) else rng.choice(alpha) + rng.choice(alpha) + rng.choice(alpha)
        n = rng.choice([1, 2, 2, 2, 3])
        return "".join(rng.choice(alpha) for _ in range(n))
    for step in range(steps):
        r = rng.below(100)
        setw = 85 if cls == "fill" else 40
        if r < setw:
            k = key() if not (present and rng.chance(1, 5 if cls != "fill" else 15)) else rng.choice(present)
            if k not in present:
                present.append(k)
            out.append(("T set %s %d" % (k, rng.below(1000)), None))
        elif r < setw + (20 if cls != "fill" else 8):
            out.append(("T get %s" % (rng.choice(present) if present and rng.chance(2, 3) else key()), None))
        elif r < setw + (45 if cls != "fill" else 12):
            k = rng.choice(present) if present and rng.chance(3, 4) else key()
            if k in present:
                present.remove(k)
            out.append(("T remove %s" % k, None))
        else:
            out.append(("T length", None))
        if step % 20 == 19:
            out.append(("T dump", None))
            out.append(("T length", None))
    out.append(("T dump", None))
    return out


def run_lines(ctx, h, drv, lines):
    rc, out, err = ctx.run_lines([h], lines, timeout=1800)
    if rc != 0 or len(out) != len(lines):
        ctx.broken.append({"kind": "harness-run", "rc": rc, "stderr": err[-2000:], "lines": len(out), "expected": len(lines)})
        return None, None
    rc, verdicts, err = ctx.run_lines([drv], out, timeout=1800)
    if rc != 0 or not verdicts or verdicts[-1] != "END %d" % len(out):
        ctx.broken.append({"kind": "driver-run", "rc": rc, "stderr": err[-2000:]})
        return None, None
    return out, verdicts


def campaign(ctx, h, drv, seqs, tag=""):
    """seqs: [(class, [(line, key)])]"""
    lines, owner = [], []
    for si, (cls, seq) in enumerate(seqs):
        for li, (l, key) in enumerate(seq):
            lines.append(l)
            owner.append((si, li))
    out, verdicts = run_lines(ctx, h, drv, lines)
    if out is None:
        return
    bad_seq = set()
    ops = ctx.cov.setdefault("ops", {})
    for (si, li), o, v in zip(owner, out, verdicts):
        cls, seq = seqs[si]
        ctx.cov["evaluations"] += 1
        t = o.split()
        name = " ".join(t[:2]) if t[1] != "!" else "D ! " + t[2]
        ops[name] = ops.get(name, 0) + 1
        if v == "ok":
            continue
        if si in bad_seq:
            continue        # after a first failure in a sequence the states may differ: report the first only
        bad_seq.add(si)
        case = {"class": cls, "lines": [l for l, _ in seq[:li + 1]], "impl": o, "verdict": v}
        if v.startswith("MONFAIL"):
            ctx.violation(v, case, key=seq[li][1])
            if seq[li][1] is not None and t[1] == "!":
                bad_seq.discard(si)   # a forked call does not touch the parent state: the sequence continues meaningfully
        else:
            ctx.broken.append({"kind": "disagreement" + tag, "case": case})
    good = [si for si in range(len(seqs)) if si not in bad_seq]
    ctx.cov["traces_validated_against_impl"] += len(good)
    # non-trivial: a validated sequence with >= 30 steps that contains a growth (dynar: >= 3 different op kinds and an
    # insertion in the middle; dict: a replace and a remove)
    for si in good:
        cls, seq = seqs[si]
        ls = [l for l, _ in seq]
        if len(ls) >= 30 and ((any(l.startswith("D insertAt") for l in ls) and any(l.startswith("D removeAt") for l in ls)) or
                              (any(l.startswith("T remove") for l in ls) and any(l.startswith("T set") for l in ls))):
            ctx.cov["distinct_nontrivial"] += 1
    dist = ctx.cov.setdefault("distribution", {})
    for cls, seq in seqs:
        dist[cls] = dist.get(cls, 0) + 1
    rehashes = sum(1 for o in out if o.startswith("T dump") and not o.endswith("size 127"))
    ctx.cov["dict_dumps_after_rehash"] = ctx.cov.get("dict_dumps_after_rehash", 0) + rehashes
    ctx.cov["dict_dumps_after_second_rehash"] = ctx.cov.get("dict_dumps_after_second_rehash", 0) + \
        sum(1 for o in out if o.startswith("T dump") and (o.endswith("size 511") or o.endswith("size 1023")))
    if not ctx.cov["samples"]:
        ctx.cov["samples"] = [o for o in out if o.startswith("D foreach")][1:3] + [o for o in out if o.startswith("T dump")][1:2] + \
            [o for o in out if o.startswith("D !")][:3]


def gen(rng, nd, nt, tier):
    seqs = []
    for i in range(nd):
        cls = rng.choice(["mixed", "mixed", "grow", "shrink"])
        steps = rng.choice([10, 40, 120, 200])
        seqs.append(("dynar-" + cls, dynar_seq(rng.fork(i), steps, cls)))
    for i in range(nt):
        cls = rng.choice(["small", "small", "fill"])
        steps = rng.choice([30, 100, 200]) if cls == "small" else (200 if tier == "quick" else rng.choice([200, 450, 700]))
        seqs.append(("dict-" + cls, dict_seq(rng.fork(1000 + i), steps, cls)))
    return seqs


def build(ctx, *a, **k):
    """ctx.build_harness, retried once after waiting for the shared simgrid build (another check may be relinking it)"""
    nb = len(ctx.broken)
    h = ctx.build_harness(*a, **k)
    if h is None:
        del ctx.broken[nb:]
        ctx.ensure_simgrid(["simgrid"])
        h = ctx.build_harness(*a, **k)
    return h


def run(ctx):
    ctx.cov["rule"] = ("operation sequences drawn from splitmix64(VERIF_SEED): dynar classes mixed/grow/shrink (8% of the calls "
                       "are bounds violations run in a forked child), dict classes small (4-letter alphabet: collisions in the "
                       "cells and on the full hash code) / fill (distinct keys until the table is rehashed); contents dumped "
                       "every 16-20 steps; non-trivial = validated sequence of >= 30 steps with a middle insertion and a removal "
                       "(dynar) or a set and a remove (dict)")
    ctx.assumptions += ["qsort (libc) sorts; modelled as a stable merge sort of the used prefix (elements are ints: any correct sort agrees)",
                        "malloc/realloc/mallocator are not modelled: never-written cells are `indeterminate` in the model",
                        "the dict model is instantiated with djb2 (checked against the library through the cursor order); theorems are for every hash function"]
    ctx.ensure_simgrid(["simgrid"])
    ctx.lean_prove()
    drv = ctx.lean_exe()
    h = build(ctx, "harness.cpp")
    if not (drv and h):
        return
    if ctx.replay:
        case = json.load(open(ctx.replay))["case"]
        campaign(ctx, h, drv, [(case.get("class", "replay"), [(l, None) for l in case["lines"]])])
        return
    corpus = []
    cur = None
    for l in open(ctx.pdir + "/corpus.txt"):
        l = l.strip()
        if not l or l.startswith("#"):
            continue
        key = None
        if " ## " in l:
            l, key = l.split(" ## ")
        if l in ("D new", "T new"):
            cur = []
            corpus.append(("corpus", cur))
        cur.append((l.strip(), key.strip() if key else None))
    nd, nt = (30, 20) if ctx.tier == "quick" else (1200, 600)
    if ctx.broken:
        nd, nt = nd * 10, nt * 10
    campaign(ctx, h, drv, corpus + gen(SplitMix(ctx.seed), nd, nt, ctx.tier))
    # the same sequences under AddressSanitizer + UBSan (the harness only; libsimgrid is not instrumented): skipped
    # when the sanitised harness does not build or start here
    if ctx.tier == "thorough" and not ctx.violations and not ctx.broken:
        nb = len(ctx.broken)
        ha = ctx.build_harness("harness.cpp", name="harness_asan", flags=("-fsanitize=address,undefined", "-fno-omit-frame-pointer"))
        if ha:
            rc, out, err = ctx.run_lines([ha], ["D new", "D push 1", "D foreach"], env={"ASAN_OPTIONS": "detect_leaks=0"})
            if rc == 0 and len(out) == 3:
                seqs = [s for s in gen(SplitMix(ctx.seed).fork(7), 60, 40, ctx.tier)]
                import os
                os.environ["ASAN_OPTIONS"] = "detect_leaks=0"
                campaign(ctx, ha, drv, seqs, tag="-asan")
                ctx.cov["asan_ubsan_harness"] = "ran %d sequences" % len(seqs)
            else:
                ctx.cov["asan_ubsan_harness"] = "skipped: sanitised harness does not start (%s)" % (err[-200:] if err else rc)
        else:
            del ctx.broken[nb:]
            ctx.cov["asan_ubsan_harness"] = "skipped: does not link here"
    if ctx.broken and not ctx.violations:
        # search harder before giving up: 10x, other stream
        campaign(ctx, h, drv, gen(SplitMix(ctx.seed).fork(99), nd * 10, nt * 10, ctx.tier), tag="-search")
