/* C29 harness: one MPI interpreter program (run under smpirun, --cfg=smpi/<coll>:<algo>).
 *
 * argv[1] = case file, one case per line:   <idx> <coll> <root> <count> <type> <op> <nb>
 *   coll  bcast reduce allreduce gather gatherv scatter scatterv allgather allgatherv alltoall alltoallv alltoallw
 *         reduce_scatter reduce_scatter_block scan exscan barrier
 *   type  int | double | vec       (vec = MPI_Type_vector(2,1,2,MPI_INT) resized to 4 ints: a gap b gap)
 *   op    mov | sum | prod | max | min | bxor | maxloc | user     (mov = no operator: data movement collectives)
 *   nb    0 blocking, 1 MPI_I* + MPI_Wait
 * Every rank prints, per case, one line   `R <idx> <rank> <tokens>`   where tokens are the raw receive buffer
 * (all cells, sentinel -7777 where nothing was written; `#<n> <hash>` when longer than 48 cells), `-` when the
 * buffer is not significant on that rank, `ERR <code>` when the call returned an error, `OVERFLOW` when a guard
 * cell behind the buffer was written.  The buffers are filled by closed formulas of (op, rank, cell index) that
 * the Lean driver (SgVerif/C29/Driver.lean) re-implements: val().
 *
 * SEQUENCES.  All the cases of the file run one after the other on the same communicator, without any
 * synchronisation in between: the file IS a sequence of calls, and every call's buffers are printed.  After the last
 * case every rank waits (simulated sleep) until all traffic has been delivered and prints `L <rank> <n>`: n != 0 when an
 * unmatched communication (a message nobody received, or a receive nobody fed) is still queued in one of the two
 * mailboxes SMPI gives the rank (src/smpi/internals/smpi_actor.cpp: "SMPI-<pid>", "small-<pid>").  Collective
 * traffic uses negative tags (COLL_TAG_*), which MPI_Iprobe(MPI_ANY_TAG) never matches (smpi_request.cpp:match_common),
 * hence the look at the mailboxes through the public C API.  `T <rank> <0|1>` is the self-test of that probe (a message
 * the rank sent to itself and has not received yet must be seen).
 */
#include <mpi.h>
#include <stdio.h>
#include <stdlib.h>
#include <string.h>
#include <unistd.h>
#include <simgrid/actor.h>
#include <simgrid/mailbox.h>

#define SENT (-7777)
#define JUNK 424242
#define GUARD 8
#define UP 9973L

enum { T_INT, T_DOUBLE, T_VEC };
enum { O_MOV, O_SUM, O_PROD, O_MAX, O_MIN, O_BXOR, O_MAXLOC, O_USER };


static long val(int op, long r, long i)
{
  static const long ptab[6] = {1, 2, -1, 3, 1, -2};
  switch (op) {
    case O_MOV: return r * 100000 + i;
    case O_PROD: return ptab[(r * 5 + i * 3) % 6];
    case O_BXOR: return ((r + 1) * 2654435L + i * 40503L) % 1073741824L;
    case O_USER: return (r * 131 + i * 17 + 5) % UP;
    default: return (r * 131 + i * 17 + 5) % 2001 - 1000; /* sum max min */
  }
}
static long lval(long r, long i) { return (r * 3 + i * 5) % 4; }  /* maxloc value (many ties) */
static long lidx(long r, long i) { return (r * 7 + i * 3) % 11; } /* maxloc index */

static long uop(long x, long y) { return ((x + 1) * (y + 1) + UP - 1) % UP; }

/* user operator: commutative and associative, (x+1)(y+1)-1 mod 9973, on int, double and the vector type */
static void user_fn(void* in, void* inout, int* len, MPI_Datatype* dt)
{
  if (*dt == MPI_INT) {
    int *a = in, *b = inout;
    for (int i = 0; i < *len; i++) b[i] = (int)uop(a[i], b[i]);
  } else if (*dt == MPI_DOUBLE) {
    double *a = in, *b = inout;
    for (int i = 0; i < *len; i++) b[i] = (double)uop((long)a[i], (long)b[i]);
  } else { /* vec: cells at 4i and 4i+2 */
    int *a = in, *b = inout;
    for (int i = 0; i < *len; i++) {
      b[4 * i]     = (int)uop(a[4 * i], b[4 * i]);
      b[4 * i + 2] = (int)uop(a[4 * i + 2], b[4 * i + 2]);
    }
  }
}

static long vcnt(long c, long j) { return c == 0 ? 0 : (j * 5 + c) % (c + 1); }
static long avcnt(long c, long r, long j) { return c == 0 ? 0 : (r * 3 + j * 5 + c) % (c + 1); }

typedef struct { int type, op, isloc; size_t isz; MPI_Datatype dt; int cpi; /* cells per item */ } Ty;
struct di { double v; int i; };

static void ty_init(Ty* t, int type, int op, MPI_Datatype vec_type)
{
  t->type = type; t->op = op; t->isloc = (op == O_MAXLOC); t->cpi = 1;
  if (t->isloc) {
    if (type == T_INT) { t->dt = MPI_2INT; t->isz = 2 * sizeof(int); }
    else { t->dt = MPI_DOUBLE_INT; t->isz = sizeof(struct di); }
  } else if (type == T_INT) { t->dt = MPI_INT; t->isz = sizeof(int); }
  else if (type == T_DOUBLE) { t->dt = MPI_DOUBLE; t->isz = sizeof(double); }
  else { t->dt = vec_type; t->isz = 4 * sizeof(int); t->cpi = 2; }
}

/* write cell number `cell` (a = value, b = index for maxloc) of a raw buffer */
static void put(const Ty* t, void* buf, long cell, long a, long b)
{
  if (t->isloc) {
    if (t->type == T_INT) { ((int*)buf)[2 * cell] = (int)a; ((int*)buf)[2 * cell + 1] = (int)b; }
    else { ((struct di*)buf)[cell].v = (double)a; ((struct di*)buf)[cell].i = (int)b; }
  } else if (t->type == T_INT) ((int*)buf)[cell] = (int)a;
  else if (t->type == T_DOUBLE) ((double*)buf)[cell] = (double)a;
  else ((int*)buf)[2 * cell] = (int)a; /* vec: cell k at int 2k, gap at 2k+1 */
}
static void get(const Ty* t, const void* buf, long cell, long* a, long* b)
{
  *b = 0;
  if (t->isloc) {
    if (t->type == T_INT) { *a = ((const int*)buf)[2 * cell]; *b = ((const int*)buf)[2 * cell + 1]; }
    else { *a = (long)((const struct di*)buf)[cell].v; *b = ((const struct di*)buf)[cell].i; }
  } else if (t->type == T_INT) *a = ((const int*)buf)[cell];
  else if (t->type == T_DOUBLE) {
    double d = ((const double*)buf)[cell];
    *a = (long)d;
    if ((double)*a != d) *a = -999999999; /* not an integer: cannot be right */
  } else { *a = ((const int*)buf)[2 * cell]; *b = ((const int*)buf)[2 * cell + 1]; /* b = the gap */ }
}

/* allocate items+GUARD items; pattern 0 = sentinel everywhere, 1 = val(op,rank,cell) (gaps of vec = JUNK),
 * 2 = val(op,rank,cell) with sentinel gaps (a buffer that is also a receive buffer: bcast root) */
static void* mkbuf(const Ty* t, long items, int pattern, int rank)
{
  long cells = (items + GUARD) * t->cpi;
  void* buf  = malloc((size_t)(items + GUARD) * t->isz + 16);
  memset(buf, 0, (size_t)(items + GUARD) * t->isz + 16);
  for (long k = 0; k < cells; k++) {
    if (pattern && k < items * t->cpi) {
      if (t->isloc) put(t, buf, k, lval(rank, k), lidx(rank, k));
      else put(t, buf, k, val(t->op, rank, k), 0);
    } else put(t, buf, k, SENT, SENT);
    if (t->type == T_VEC && !t->isloc) ((int*)buf)[2 * k + 1] = pattern == 1 ? JUNK : SENT;
  }
  return buf;
}

static void emit(const Ty* t, const void* buf, long items, long idx, int rank)
{
  long cells = items * t->cpi, a, b;
  /* guards */
  for (long k = cells; k < cells + GUARD * t->cpi; k++) {
    get(t, buf, k, &a, &b);
    if (a != SENT || b != (t->isloc || t->type == T_VEC ? SENT : 0)) { printf("R %ld %d OVERFLOW\n", idx, rank); return; }
  }
  long ntok = cells * ((t->isloc || t->type == T_VEC) ? 2 : 1);
  if (ntok > 48) {
    unsigned long long h = 0;
    for (long k = 0; k < cells; k++) {
      get(t, buf, k, &a, &b);
      h = h * 1000003ULL + (unsigned long long)(a + (1L << 40)); /* mod 2^64 */
      if (t->isloc || t->type == T_VEC)
        h = h * 1000003ULL + (unsigned long long)(b + (1L << 40));
    }
    printf("R %ld %d #%ld %llu\n", idx, rank, ntok, h);
    return;
  }
  char line[4096];
  int n = snprintf(line, sizeof line, "R %ld %d", idx, rank);
  for (long k = 0; k < cells; k++) {
    get(t, buf, k, &a, &b);
    if (t->isloc || t->type == T_VEC) n += snprintf(line + n, sizeof line - n, " %ld %ld", a, b);
    else n += snprintf(line + n, sizeof line - n, " %ld", a);
  }
  if (cells == 0) n += snprintf(line + n, sizeof line - n, " .");
  puts(line);
}

static MPI_Op mpi_op(int op, MPI_Op user_op)
{
  switch (op) {
    case O_SUM: return MPI_SUM;
    case O_PROD: return MPI_PROD;
    case O_MAX: return MPI_MAX;
    case O_MIN: return MPI_MIN;
    case O_BXOR: return MPI_BXOR;
    case O_MAXLOC: return MPI_MAXLOC;
    case O_USER: return user_op;
    default: return MPI_OP_NULL;
  }
}

/* number of this rank's mailboxes (0..2) in which an unmatched communication is queued */
static int pending_comms(void)
{
  char nm[64];
  long pid = (long)sg_actor_self_get_pid();
  int n    = 0;
  snprintf(nm, sizeof nm, "SMPI-%ld", pid);
  n += sg_mailbox_listen(nm) ? 1 : 0;
  snprintf(nm, sizeof nm, "small-%ld", pid);
  n += sg_mailbox_listen(nm) ? 1 : 0;
  return n;
}

static int lookup(const char* s, const char* const* names)
{
  for (int i = 0; names[i]; i++)
    if (!strcmp(s, names[i])) return i;
  return -1;
}

int main(int argc, char** argv)
{
  static const char* const tn[] = {"int", "double", "vec", 0};
  static const char* const on[] = {"mov", "sum", "prod", "max", "min", "bxor", "maxloc", "user", 0};
  MPI_Init(&argc, &argv);
  int rank, np;
  MPI_Comm comm = MPI_COMM_WORLD;
  MPI_Comm_rank(comm, &rank);
  MPI_Comm_size(comm, &np);
  MPI_Comm_set_errhandler(comm, MPI_ERRORS_RETURN);
  MPI_Datatype v0, vec_type;
  MPI_Op user_op;
  MPI_Type_vector(2, 1, 2, MPI_INT, &v0);
  MPI_Type_create_resized(v0, 0, 4 * sizeof(int), &vec_type);
  MPI_Type_commit(&vec_type);
  MPI_Op_create(user_fn, 1, &user_op);

  { /* self-test of pending_comms(): a message to myself that I have not received yet is seen (nothing is required
     * of the state before/after: a neighbour that is already in the first collective may have sent something) */
    int x = rank, y = -1;
    MPI_Request sreq;
    MPI_Isend(&x, 1, MPI_INT, rank, 7, comm, &sreq);
    int during = pending_comms();
    MPI_Recv(&y, 1, MPI_INT, rank, 7, comm, MPI_STATUS_IGNORE);
    MPI_Wait(&sreq, MPI_STATUS_IGNORE);
    printf("T %d %d\n", rank, during > 0 && y == rank);
  }

  FILE* f = fopen(argv[1], "r");
  if (!f) { fprintf(stderr, "cannot open %s\n", argv[1]); MPI_Abort(comm, 3); }
  char coll[64], tys[32], ops[32];
  long idx, c;
  int root, nb;
  int* cnt  = malloc(sizeof(int) * 4 * (np + 1));
  int* dsp  = cnt + np + 1;
  int* cnt2 = dsp + np + 1;
  int* dsp2 = cnt2 + np + 1;
  MPI_Datatype* tys_w = malloc(sizeof(MPI_Datatype) * np);
  while (fscanf(f, "%ld %63s %d %ld %31s %31s %d", &idx, coll, &root, &c, tys, ops, &nb) == 7) {
    Ty t;
    int ty = lookup(tys, tn), op = lookup(ops, on);
    if (ty < 0 || op < 0) { fprintf(stderr, "bad case %ld\n", idx); MPI_Abort(comm, 3); }
    ty_init(&t, ty, op, vec_type);
    MPI_Request req = MPI_REQUEST_NULL;
    int rc = MPI_SUCCESS;
    void *sb = NULL, *rb = NULL;
    long ritems = 0;
    int sig = 1; /* receive buffer significant on this rank */
    MPI_Op mop = mpi_op(op, user_op);
    if (!strcmp(coll, "barrier")) {
      /* every rank enters at a different simulated date; nobody may leave before the last one entered */
      usleep((unsigned)(((rank * 7 + root) % 5) * 1000));
      double t0 = MPI_Wtime();
      rc = nb ? MPI_Ibarrier(comm, &req) : MPI_Barrier(comm);
      if (nb && rc == MPI_SUCCESS) rc = MPI_Wait(&req, MPI_STATUS_IGNORE);
      double t1 = MPI_Wtime();
      if (rc != MPI_SUCCESS) printf("R %ld %d ERR %d\n", idx, rank, rc);
      else printf("R %ld %d %a %a\n", idx, rank, t0, t1);
      fflush(stdout);
      continue;
    } else if (!strcmp(coll, "bcast")) {
      ritems = c;
      rb     = mkbuf(&t, c, rank == root ? 2 : 0, rank);
      rc     = nb ? MPI_Ibcast(rb, (int)c, t.dt, root, comm, &req) : MPI_Bcast(rb, (int)c, t.dt, root, comm);
    } else if (!strcmp(coll, "reduce")) {
      ritems = c; sig = rank == root;
      sb = mkbuf(&t, c, 1, rank); rb = mkbuf(&t, c, 0, rank);
      rc = nb ? MPI_Ireduce(sb, rb, (int)c, t.dt, mop, root, comm, &req) : MPI_Reduce(sb, rb, (int)c, t.dt, mop, root, comm);
    } else if (!strcmp(coll, "allreduce")) {
      ritems = c;
      sb = mkbuf(&t, c, 1, rank); rb = mkbuf(&t, c, 0, rank);
      rc = nb ? MPI_Iallreduce(sb, rb, (int)c, t.dt, mop, comm, &req) : MPI_Allreduce(sb, rb, (int)c, t.dt, mop, comm);
    } else if (!strcmp(coll, "scan")) {
      ritems = c;
      sb = mkbuf(&t, c, 1, rank); rb = mkbuf(&t, c, 0, rank);
      rc = nb ? MPI_Iscan(sb, rb, (int)c, t.dt, mop, comm, &req) : MPI_Scan(sb, rb, (int)c, t.dt, mop, comm);
    } else if (!strcmp(coll, "exscan")) {
      ritems = c; sig = rank != 0;
      sb = mkbuf(&t, c, 1, rank); rb = mkbuf(&t, c, 0, rank);
      rc = nb ? MPI_Iexscan(sb, rb, (int)c, t.dt, mop, comm, &req) : MPI_Exscan(sb, rb, (int)c, t.dt, mop, comm);
    } else if (!strcmp(coll, "gather") || !strcmp(coll, "allgather")) {
      int all = coll[0] == 'a';
      ritems = c * np; sig = all || rank == root;
      sb = mkbuf(&t, c, 1, rank); rb = mkbuf(&t, ritems, 0, rank);
      if (all) rc = nb ? MPI_Iallgather(sb, (int)c, t.dt, rb, (int)c, t.dt, comm, &req)
                       : MPI_Allgather(sb, (int)c, t.dt, rb, (int)c, t.dt, comm);
      else rc = nb ? MPI_Igather(sb, (int)c, t.dt, rb, (int)c, t.dt, root, comm, &req)
                   : MPI_Gather(sb, (int)c, t.dt, rb, (int)c, t.dt, root, comm);
    } else if (!strcmp(coll, "gatherv") || !strcmp(coll, "allgatherv")) {
      int all = coll[0] == 'a';
      long tot = 0;
      for (int j = 0; j < np; j++) { cnt[j] = (int)vcnt(c, j); dsp[j] = (int)tot; tot += cnt[j] + 1; }
      ritems = tot; sig = all || rank == root;
      sb = mkbuf(&t, cnt[rank], 1, rank); rb = mkbuf(&t, ritems, 0, rank);
      if (all) rc = nb ? MPI_Iallgatherv(sb, cnt[rank], t.dt, rb, cnt, dsp, t.dt, comm, &req)
                       : MPI_Allgatherv(sb, cnt[rank], t.dt, rb, cnt, dsp, t.dt, comm);
      else rc = nb ? MPI_Igatherv(sb, cnt[rank], t.dt, rb, cnt, dsp, t.dt, root, comm, &req)
                   : MPI_Gatherv(sb, cnt[rank], t.dt, rb, cnt, dsp, t.dt, root, comm);
    } else if (!strcmp(coll, "scatter")) {
      ritems = c;
      sb = mkbuf(&t, c * np, 1, rank); rb = mkbuf(&t, c, 0, rank);
      rc = nb ? MPI_Iscatter(sb, (int)c, t.dt, rb, (int)c, t.dt, root, comm, &req)
              : MPI_Scatter(sb, (int)c, t.dt, rb, (int)c, t.dt, root, comm);
    } else if (!strcmp(coll, "scatterv")) {
      long tot = 0;
      for (int j = 0; j < np; j++) { cnt[j] = (int)vcnt(c, j); dsp[j] = (int)tot; tot += cnt[j] + 1; }
      ritems = cnt[rank];
      sb = mkbuf(&t, tot, 1, rank); rb = mkbuf(&t, ritems, 0, rank);
      rc = nb ? MPI_Iscatterv(sb, cnt, dsp, t.dt, rb, cnt[rank], t.dt, root, comm, &req)
              : MPI_Scatterv(sb, cnt, dsp, t.dt, rb, cnt[rank], t.dt, root, comm);
    } else if (!strcmp(coll, "alltoall")) {
      ritems = c * np;
      sb = mkbuf(&t, ritems, 1, rank); rb = mkbuf(&t, ritems, 0, rank);
      rc = nb ? MPI_Ialltoall(sb, (int)c, t.dt, rb, (int)c, t.dt, comm, &req)
              : MPI_Alltoall(sb, (int)c, t.dt, rb, (int)c, t.dt, comm);
    } else if (!strcmp(coll, "alltoallv") || !strcmp(coll, "alltoallw")) {
      int w = coll[8] == 'w';
      long st = 0, rt = 0;
      for (int j = 0; j < np; j++) {
        cnt[j] = (int)avcnt(c, rank, j); dsp[j] = (int)st; st += cnt[j] + 1;
        cnt2[j] = (int)avcnt(c, j, rank); dsp2[j] = (int)rt; rt += cnt2[j] + 1;
        tys_w[j] = t.dt;
      }
      ritems = rt;
      sb = mkbuf(&t, st, 1, rank); rb = mkbuf(&t, ritems, 0, rank);
      if (w) {
        for (int j = 0; j < np; j++) { dsp[j] *= (int)t.isz; dsp2[j] *= (int)t.isz; }
        rc = nb ? MPI_Ialltoallw(sb, cnt, dsp, tys_w, rb, cnt2, dsp2, tys_w, comm, &req)
                : MPI_Alltoallw(sb, cnt, dsp, tys_w, rb, cnt2, dsp2, tys_w, comm);
      } else
        rc = nb ? MPI_Ialltoallv(sb, cnt, dsp, t.dt, rb, cnt2, dsp2, t.dt, comm, &req)
                : MPI_Alltoallv(sb, cnt, dsp, t.dt, rb, cnt2, dsp2, t.dt, comm);
    } else if (!strcmp(coll, "reduce_scatter")) {
      long tot = 0;
      for (int j = 0; j < np; j++) { cnt[j] = (int)vcnt(c, j); tot += cnt[j]; }
      ritems = cnt[rank];
      sb = mkbuf(&t, tot, 1, rank); rb = mkbuf(&t, ritems, 0, rank);
      rc = nb ? MPI_Ireduce_scatter(sb, rb, cnt, t.dt, mop, comm, &req) : MPI_Reduce_scatter(sb, rb, cnt, t.dt, mop, comm);
    } else if (!strcmp(coll, "reduce_scatter_block")) {
      ritems = c;
      sb = mkbuf(&t, c * np, 1, rank); rb = mkbuf(&t, ritems, 0, rank);
      rc = nb ? MPI_Ireduce_scatter_block(sb, rb, (int)c, t.dt, mop, comm, &req)
              : MPI_Reduce_scatter_block(sb, rb, (int)c, t.dt, mop, comm);
    } else {
      fprintf(stderr, "unknown collective %s\n", coll);
      MPI_Abort(comm, 3);
    }
    if (nb && rc == MPI_SUCCESS) rc = MPI_Wait(&req, MPI_STATUS_IGNORE);
    if (rc != MPI_SUCCESS) printf("R %ld %d ERR %d\n", idx, rank, rc);
    else if (!sig) printf("R %ld %d -\n", idx, rank);
    else emit(&t, rb, ritems, idx, rank);
    fflush(stdout); /* a later crash of the process must not take the lines of the completed calls with it */
    free(sb);
    free(rb);
  }
  fclose(f);
  /* quiescence: every rank has left its last call long before anybody looks (the calls of the grid last milliseconds) */
  sleep(1000);
  printf("L %d %d\n", rank, pending_comms());
  fflush(stdout);
  MPI_Op_free(&user_op);
  MPI_Type_free(&vec_type);
  MPI_Type_free(&v0);
  MPI_Finalize();
  return 0;
}
