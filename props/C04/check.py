"""C04 — mutex semantics: exclusion, ownership, FIFO hand-off, try_lock, recursion.
Theorems: lean/SgVerif/C04/Props.lean over the shared model lean/SgVerif/Sync/Model.lean (MutexImpl transliteration).
Tie: trace acceptance of real runs (S4U API, props/_shared/sync/sync_interp.cpp) by the model, in normal mode and for
every interleaving explored by simgrid-mc without reduction."""
import os
import sys

sys.path.insert(0, os.path.join(os.path.dirname(os.path.abspath(__file__)), "..", "_shared", "sync"))
import synclib  # noqa: E402

T = synclib.TICK
BIG = [False]      # thorough tier: 3-actor programs under the model checker more often


def gen_actor(rng, nm, rec, risky, own_first):
    """a mostly valid op list: the actor tracks how many times it believes it holds each mutex"""
    ops = []
    held = [0] * nm
    n = rng.range(3, 12)
    for _ in range(n):
        m = rng.below(nm)
        k = rng.below(100)
        if held[m] == 0:
            if k < 35:
                ops.append(("lock", m)); held[m] = 1
            elif k < 65:
                ops.append(("tol", m)); held[m] = 1
            elif k < 72:
                ops.append(("try", m))                      # result unknown to the program: not counted as held
                if risky and rng.chance(1, 2):
                    ops.append(("unlock", m))               # aborts when the try failed (unlock by a non-owner)
            elif k < 85:
                ops.append(("sleep", rng.range(1, 8) * T // 4))
            elif k < 92:
                ops.append(("owner", m))
            elif k < 96 and risky:
                ops.append(("unlock", m))                   # unlock by a non-owner: assertion expected
            else:
                ops.append(("alock", m)); ops.append(("mwait", m)); held[m] = 1
        else:
            if k < 45:
                ops.append(("unlock", m)); held[m] -= 1
            elif k < 70 and rec[m]:
                ops.append((rng.choice(["lock", "try", "tol"]), m)); held[m] += 1
            elif k < 75 and not rec[m]:
                ops.append(("try", m))                      # try_lock by the owner of a non-recursive mutex: must fail
            elif k < 77 and not rec[m] and risky:
                ops.append(("lock", m)); held[m] += 1       # relock of a non-recursive mutex (POSIX: undefined)
            elif k < 90:
                ops.append(("sleep", rng.range(1, 8) * T // 4))
            else:
                ops.append(("owner", m))
    if rng.chance(9, 10):
        for m in range(nm):
            ops += [("unlock", m)] * held[m]
    return ops


def gen_normal(rng, pid):
    nm = rng.range(1, 3)
    rec = [rng.chance(1, 2) for _ in range(nm)]
    na = rng.range(2, 5)
    cls = rng.below(10)
    p = {"id": pid, "mutexes": [(k, rec[k]) for k in range(nm)], "actors": []}
    if cls == 0:
        # queued waiter locks again through the kernel-level split path (acq->recursive_depth_++ branch), hand-off chain
        p["mutexes"] = [(0, True)]
        p["actors"].append([("lock", 0), ("sleep", T), ("unlock", 0)])
        for a in range(1, na):
            k = rng.range(1, 3)
            p["actors"].append([("sleep", rng.below(3) * T // 4)] + [("alock", 0)] * k + [("mwait", 0)] +
                               ([("owner", 0)] if rng.chance(1, 2) else []) + [("unlock", 0)] * k)
        return p
    if cls == 1:
        # long hand-off chain in a controlled arrival order, then try_lock on owned / free
        p["mutexes"] = [(0, rec[0])]
        order = list(range(na)); rng.shuffle(order)
        for a in range(na):
            p["actors"].append([("sleep", (order[a] + 1) * T // 8), ("lock", 0), ("sleep", T), ("owner", 0), ("unlock", 0),
                                ("try", 0)])
        return p
    risky = cls == 2
    for a in range(na):
        p["actors"].append(gen_actor(rng, nm, rec, risky, a == 0))
    return p


def gen_mc(rng, pid):
    """small programs without sleeps: every interleaving is explored by simgrid-mc (reduction none)"""
    rec = rng.chance(1, 2)
    na = 3 if rng.chance(1, 3 if BIG[0] else 10) else 2
    p = {"id": pid, "mutexes": [(0, rec)], "actors": []}
    for a in range(na):
        k = rng.below(4) if na == 2 else rng.below(2)
        if k == 0:
            ops = [("lock", 0), ("unlock", 0)]
        elif k == 1:
            ops = [("tol", 0), ("unlock", 0)]
        elif k == 2 and rec:
            ops = [("lock", 0), ("tol", 0), ("unlock", 0), ("unlock", 0)]
        else:
            ops = [("try", 0), ("lock", 0), ("unlock", 0)] if not rec else [("tol", 0), ("lock", 0), ("unlock", 0), ("unlock", 0)]
            if not rec:
                ops = [("lock", 0), ("try", 0), ("unlock", 0)]
        p["actors"].append(ops)
    return p


def nontrivial(it):
    ls = it["lines"]
    blocked_handoff = any(l.startswith("c ") and " lock " in l for l in ls) and it.get("nevents", 0) >= 6
    return blocked_handoff


def run(ctx):
    BIG[0] = ctx.tier == "thorough"
    ctx.cov["rule"] = ("programs of 2-5 actors x 3-12 ops on 1-3 mutexes (recursive or not) drawn from splitmix64(VERIF_SEED): "
                       "lock/try_lock/tol(try then lock)/unlock/get_owner/sleep + kernel-level lock_async/wait_for; classes: "
                       "random mostly-valid, risky (unlock by non-owner, relock), recursive re-lock by a queued waiter, ordered "
                       "hand-off chains; MC: 2-3 actors, all interleavings. non-trivial = accepted trace with >= 6 calls incl. a lock "
                       "(MC: complete trace)")
    synclib.standard_run(ctx, gen_normal, gen_mc, nontrivial, quick=(120, 4), thorough=(1500, 12))
