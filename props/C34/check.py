"""C34 — RMA windows behave like shared memory under their locks.
Theorems: lean/SgVerif/C34/Props.lean.  Tie: generated MPI RMA programs (2..4 ranks) run by props/C34/harness.c under
smpirun; after every phase (exclusive-lock epochs | lock_all | fence | calls outside an epoch) every rank dumps its
window and its Get/Get_accumulate/Fetch_and_op/CAS results; the Lean driver checks that the observation is one of the
results the sequential specification allows (monitor; unique result when the blocks commute)."""
import json
import os
from math import factorial
from vlib import core
from vlib.core import SplitMix

OPS = ["sum", "prod", "max", "min", "band", "bor", "bxor", "replace"]
MAX_ORDERS = 3000

PLAT = """<?xml version='1.0'?>
<!DOCTYPE platform SYSTEM "https://simgrid.org/simgrid.dtd">
<platform version="4.1">
  <zone id="AS0" routing="Full">
    <cluster id="c" prefix="h" suffix="" radical="0-7" speed="1Gf" bw="125MBps" lat="50us"/>
  </zone>
</platform>
"""

KEY_X = "excl-unlock-releases-lock-before-flush"
KEY_CAS = "cas-put-not-completed-under-atomic-mutex"
KEY_GACC = "accumulate-not-atomic-wrt-get-accumulate"
KEY_HANG = "crash-or-deadlock"


# --------------------------------------------------------------------------- program representation
# case  = {"n","w","du","phases":[phase]}      "du": one displacement unit for all ranks (int) or one per rank (list)
#                                               "w": one window size (ints) for all ranks (int) or one per rank (list)
# phase = {"kind": "X"|"S"|"F"|"N", "ranks": [[item]]}     item = ("epoch", t, [item]) | ("call", call) | ("wait", usec)
#                                                           | ("flush", t);   F phases carry "fa": (assert1, assert2)
# call  = {"k": put|get|acc|gacc|fop|cas, "t", "idx", "n", "op", "vals", "cmp", "new"}   (idx = int index in the window)

def disp_of(du, idx):
    return idx * 4 // du


def dus_of(case):
    """the disp_unit every rank passes to MPI_Win_create (MPI lets each rank choose its own)"""
    du = case["du"]
    return list(du) if isinstance(du, (list, tuple)) else [du] * case["n"]


def ws_of(case):
    """the size (in ints) of the window every rank exposes (each rank calls MPI_Win_create with its own size)"""
    w = case["w"]
    return list(w) if isinstance(w, (list, tuple)) else [w] * case["n"]


def w_token(case):
    w = case["w"]
    return ",".join(map(str, w)) if isinstance(w, (list, tuple)) else str(w)


def pad(row, width):
    return list(row) + [0] * (width - len(row))


def du_token(case):
    du = case["du"]
    return ",".join(map(str, du)) if isinstance(du, (list, tuple)) else str(du)


def boundary_access(rng, w, du, single):
    """an access placed on purpose at the end of the window (the range check and the address computation are only
    exercised at their boundary by such accesses): -> (idx, cnt) or None
      whole   displacement 0, count == window size        tail   idx > 0, idx + count == window size
      last    the last element only                       single = the call moves one element (Fetch_and_op, CAS)"""
    step = 2 if du == 8 else 1
    shape = rng.choice(["whole", "tail", "last", "whole"])
    if single:
        shape = "last"
    if shape == "whole":
        return 0, w
    if shape == "tail":
        idx = rng.below(w)
        idx -= idx % step
        return idx, w - idx
    idx = w - 1
    if idx % step:
        return (idx - 1, 2) if not single else None     # the last element is not addressable with this unit
    return idx, 1


def orders_count(sizes):
    tot = factorial(sum(sizes))
    for s in sizes:
        tot //= factorial(s)
    return tot


def small_val(rng):
    return rng.choice([0, 1, 2, 3, 5, 7, -1, -2, 6, 12, 255, 1000, 3000, -4])


def gen_call_on(rng, kind, t, idx, n, op=None, cells=None):
    c = {"k": kind, "t": t, "idx": idx, "n": n}
    if kind in ("put", "acc", "gacc"):
        c["vals"] = [small_val(rng) for _ in range(n)]
    if kind in ("acc", "gacc"):
        c["op"] = op
    if kind == "fop":
        c["op"] = op
        c["vals"] = [small_val(rng)]
        c["n"] = 1
    if kind == "cas":
        c["n"] = 1
        cur = cells if cells is not None else []
        c["cmp"] = rng.choice(cur + [small_val(rng)]) if cur else small_val(rng)
        c["new"] = rng.choice([11, 22, 33, 44, small_val(rng)])
    return c


def gen_epoch_calls(rng, n, w, du, t, initvals, with_waits, allow_cas=True):
    """calls of one exclusive epoch by one origin on target t: put/get never overlap anything of the epoch;
    accumulate-family calls on a cell use one operator (or noop); cas cells are only used by cas."""
    items = []
    used = {}            # idx -> class: "pg" | ("acc", op) | "cas"
    step = 2 if du == 8 else 1
    for _ in range(rng.range(1, 4)):
        kind = rng.choice(["put", "put", "get", "get", "acc", "gacc", "fop", "cas", "put", "get"])
        if kind == "cas" and not allow_cas:
            kind = "get"
        cnt = 1 if kind in ("fop", "cas") else rng.choice([1, 1, 2, 3])
        idx = rng.below(w)
        if du == 8:
            idx -= idx % 2
        if idx + cnt > w:
            cnt = w - idx
        if rng.chance(1, 4):
            b = boundary_access(rng, w, du, kind in ("fop", "cas"))
            if b:
                idx, cnt = b
        cells = list(range(idx, idx + cnt))
        op = rng.choice(OPS) if kind in ("acc", "gacc", "fop") else None
        if kind == "fop" and rng.chance(1, 4):
            op = "noop"
        ok = True
        for c in cells:
            u = used.get(c)
            if u is None:
                continue
            if kind in ("put", "get") or u == "pg":
                ok = False
            elif kind == "cas":
                ok = ok and u == "cas"
            elif u == "cas":
                ok = False
            else:
                # accumulate family: same operator or noop
                if op == "noop":
                    pass
                elif u[1] is None:
                    pass
                elif u[1] != op:
                    op = u[1]
        if not ok:
            continue
        for c in cells:
            if kind in ("put", "get"):
                used[c] = "pg"
            elif kind == "cas":
                used[c] = "cas"
            else:
                prev = used.get(c)
                used[c] = ("acc", op if op != "noop" else (prev[1] if prev else None))
        if with_waits and rng.chance(1, 3):
            items.append(("wait", rng.choice([20, 60, 150, 400])))
        items.append(("call", gen_call_on(rng, kind, t, idx, cnt, op, [initvals(t, idx), 1000 * (t + 1) + idx])))
    return items


def gen_X(rng, n, ws, dus, initvals):
    contended = rng.chance(2, 3)
    hot = rng.below(n)
    with_waits = rng.chance(1, 2)
    allow_cas = rng.chance(1, 3)
    while True:
        ranks = []
        sizes = []
        for r in range(n):
            items = []
            k = rng.choice([0, 1, 1, 2, 2]) if n > 2 else rng.choice([1, 1, 2, 3])
            for _ in range(k):
                t = hot if (contended and not rng.chance(1, 6)) else rng.below(n)
                if not rng.chance(3, 4) and not contended:
                    items.append(("wait", rng.choice([1, 10, 100, 300])))
                elif rng.chance(1, 5):
                    items.append(("wait", rng.choice([1, 30, 120])))
                calls = gen_epoch_calls(rng, n, ws[t], dus[t], t, initvals, with_waits, allow_cas)
                if calls:
                    items.append(("epoch", t, calls))
            ranks.append(items)
            sizes.append(len([i for i in items if i[0] == "epoch"]))
        if sum(sizes) >= 2 and orders_count(sizes) <= MAX_ORDERS:
            return {"kind": "X", "ranks": ranks}


def gen_SF(rng, kind, n, ws, dus, initvals, opened):
    """lock_all or fence phase: cells of every target get a class; calls respect the classes, so that the program is
    race-free in MPI's sense (conflicts only between same-operator accumulate-family calls, or between CAS)."""
    cls = {}
    for t in range(n):
        du = dus[t]
        w = ws[t]
        i = 0
        while i < w:
            seg = min(w - i, rng.choice([1, 1, 2, 3]))
            if rng.chance(1, 6):
                seg = w - i                  # a segment up to the end of the window (the whole window when i == 0)
            if du == 8 and seg % 2 == 1:
                seg = min(w - i, seg + 1)
            k = rng.below(10)
            if k < 5:
                c = ("priv", rng.below(n), rng.choice(["put", "get", "get", "acc"]), rng.choice(OPS))
            elif k < 8:
                c = ("sacc", rng.choice(OPS + ["replace", "sum"]))
            else:
                c = ("scas",)
            for j in range(i, i + seg):
                cls[(t, j)] = c + (i, seg)
            i += seg
    while True:
        ranks = []
        sizes = []
        done_put = set()
        for r in range(n):
            items = []
            for _ in range(rng.choice([0, 1, 2, 2, 3])):
                t = rng.below(n)
                idx = rng.below(ws[t])
                if dus[t] == 8:
                    idx -= idx % 2
                c = cls[(t, idx)]
                seg0, seglen = c[-2], c[-1]
                if c[0] == "priv":
                    if c[1] != r:
                        continue
                    mode = c[2]
                    cnt = min(rng.choice([1, 2, 3]), seg0 + seglen - idx)
                    if rng.chance(1, 3):
                        # boundary: the whole segment (= the whole window / up to its last element for such segments),
                        # or the last element(s) of the segment
                        if rng.chance(1, 2):
                            idx, cnt = seg0, seglen
                        else:
                            cnt = 2 if (dus[t] == 8 and seglen >= 2 and (seg0 + seglen) % 2 == 0) else 1
                            idx = seg0 + seglen - cnt
                            if dus[t] == 8 and idx % 2:
                                idx, cnt = seg0, seglen
                    if mode == "put":
                        if any((t, j) in done_put for j in range(idx, idx + cnt)):
                            continue
                        for j in range(idx, idx + cnt):
                            done_put.add((t, j))
                        call = gen_call_on(rng, "put", t, idx, cnt)
                    elif mode == "get":
                        call = gen_call_on(rng, "get", t, idx, cnt)
                    else:
                        call = gen_call_on(rng, rng.choice(["acc", "gacc"]), t, idx, cnt, c[3])
                elif c[0] == "sacc":
                    kk = rng.choice(["acc", "acc", "gacc", "fop", "fop"])
                    op = c[1]
                    if kk == "fop" and rng.chance(1, 5):
                        op = "noop"
                    cnt = 1
                    if kk != "fop" and rng.chance(1, 4):
                        idx, cnt = seg0, seglen      # the whole shared-accumulate segment
                    call = gen_call_on(rng, kk, t, idx, cnt, op)
                else:
                    call = gen_call_on(rng, "cas", t, idx, 1, None, [initvals(t, idx), 11, 22])
                items.append(("call", call))
                if kind == "S" and rng.chance(1, 4):
                    items.append(("flush", t))
                if rng.chance(1, 6):
                    items.append(("wait", rng.choice([20, 60, 150])))
            ranks.append(items)
            sizes.append(len([i for i in items if i[0] == "call"]))
        if sum(sizes) >= 1 and orders_count(sizes) <= MAX_ORDERS:
            ph = {"kind": kind, "ranks": ranks}
            if kind == "F":
                ph["fa"] = (rng.choice([0, 0, 4]) if opened == 0 else 0, rng.choice([0, 0, 8]))
            return ph


def gen_N(rng, n, ws, dus):
    ranks = [[] for _ in range(n)]
    r = rng.below(n)
    for _ in range(rng.range(1, 2)):
        kind = rng.choice(["put", "get", "acc", "fop", "cas"])
        t = rng.below(n)
        idx = rng.below(ws[t])
        if dus[t] == 8:
            idx -= idx % 2
        ranks[r].append(("call", gen_call_on(rng, kind, t, idx, 1, rng.choice(OPS))))
    return {"kind": "N", "ranks": ranks}


def gen_case(rng):
    n = rng.range(2, 4)
    w = rng.choice([4, 6, 8, 12, 1, 2, 3, 5])          # incl. one-element windows (a counter) and odd sizes
    du = rng.choice([4, 4, 4, 1, 8])
    if rng.chance(1, 2):
        # every rank passes its own disp_unit to MPI_Win_create: displacements are scaled by the TARGET's unit
        du = [rng.choice([4, 1, 8]) for _ in range(n)]
    if rng.chance(1, 3):
        # every rank exposes a window of its own size: the range check uses the TARGET's size
        w = [rng.choice([1, 2, 3, 4, 5, 6, 8, 12]) for _ in range(n)]
    case = {"n": n, "w": w, "du": du, "phases": []}
    du = dus_of(case)
    w = ws_of(case)
    opened = 0
    # the generator tracks a *guess* of the memory only to choose interesting CAS compare values
    guess = lambda t, i: 1000 * (t + 1) + i
    for _ in range(rng.choice([1, 2, 2, 3])):
        k = rng.below(20)
        if k < 9:
            ph = gen_X(rng, n, w, du, guess)
        elif k < 14:
            ph = gen_SF(rng, "S", n, w, du, guess, opened)
        elif k < 19 or opened != 0:
            ph = gen_SF(rng, "F", n, w, du, guess, opened)
            opened = 0 if ph["fa"][1] & 8 else opened + 2
        else:
            ph = gen_N(rng, n, w, du)
        case["phases"].append(ph)
    if rng.chance(1, 8):
        # malformed stream: one call whose count exceeds the window, mostly by ONE element (must fail with
        # MPI_ERR_RMA_RANGE on both sides and leave the memory alone), in the first lock_all / fence phase
        sf = [ph for ph in case["phases"] if ph["kind"] in ("S", "F")]
        if sf:
            ph = sf[0]
            r = rng.below(n)
            t = rng.below(n)
            cnt = w[t] + rng.choice([1, 1, 1, 2, 3])
            kind = rng.choice(["put", "get", "acc", "gacc"])
            ph["ranks"][r].append(("call", gen_call_on(rng, kind, t, 0, cnt, "sum")))
            case["malformed"] = True
    return case


# --------------------------------------------------------------------------- emission

def assign_ids(case, base):
    k = base
    for ph in case["phases"]:
        for items in ph["ranks"]:
            for it in items:
                calls = it[2] if it[0] == "epoch" else [it]
                for c in calls:
                    if c[0] == "call":
                        k += 1
                        c[1]["id"] = k
    return k


def call_script(dus, c):
    d = disp_of(dus[c["t"]], c["idx"])
    k = c["k"]
    if k == "put":
        return "put %d %d %d %d %s" % (c["id"], c["t"], d, c["n"], " ".join(map(str, c["vals"])))
    if k == "get":
        return "get %d %d %d %d" % (c["id"], c["t"], d, c["n"])
    if k in ("acc", "gacc"):
        return "%s %d %d %d %d %s %s" % (k, c["id"], c["t"], d, c["n"], c["op"], " ".join(map(str, c["vals"])))
    if k == "fop":
        return "fop %d %d %d %s %d" % (c["id"], c["t"], d, c["op"], c["vals"][0])
    return "cas %d %d %d %d %d" % (c["id"], c["t"], d, c["cmp"], c["new"])


def call_query(dus, c):
    d = disp_of(dus[c["t"]], c["idx"])
    k = c["k"]
    if k == "put":
        return "put %d %d %d %d %s" % (c["id"], c["t"], d, c["n"], " ".join(map(str, c["vals"])))
    if k == "get":
        return "get %d %d %d %d" % (c["id"], c["t"], d, c["n"])
    if k == "acc":
        return "acc %d %d %d %d %s %s" % (c["id"], c["t"], d, c["n"], c["op"], " ".join(map(str, c["vals"])))
    if k in ("gacc", "fop"):
        return "gacc %d %d %d %d %s %s" % (c["id"], c["t"], d, c["n"], c["op"], " ".join(map(str, c["vals"])))
    return "cas %d %d %d %d %d" % (c["id"], c["t"], d, c["cmp"], c["new"])


def emit_script(case, dump_base):
    """-> (lines, [dump id per phase])"""
    du = dus_of(case)
    out = ["W %s %s" % (w_token(case), du_token(case))]
    dumps = []
    for pi, ph in enumerate(case["phases"]):
        kind = ph["kind"]
        out.append("* barrier")
        if kind == "S":
            out.append("* lockall")
        if kind == "F":
            out.append("* fence %d" % ph["fa"][0])
        for r, items in enumerate(ph["ranks"]):
            for it in items:
                if it[0] == "wait":
                    out.append("%d wait %d" % (r, it[1]))
                elif it[0] == "flush":
                    out.append("%d flush %d" % (r, it[1]))
                elif it[0] == "call":
                    out.append("%d %s" % (r, call_script(du, it[1])))
                else:
                    out.append("%d lock %d" % (r, it[1]))
                    for c in it[2]:
                        if c[0] == "wait":
                            out.append("%d wait %d" % (r, c[1]))
                        else:
                            out.append("%d %s" % (r, call_script(du, c[1])))
                    out.append("%d unlock %d" % (r, it[1]))
        if kind == "S":
            out.append("* unlockall")
        if kind == "F":
            out.append("* fence %d" % ph["fa"][1])
        out.append("* dump %d" % (dump_base + pi))
        dumps.append(dump_base + pi)
    return out, dumps


def phase_query(case, ph, before):
    du = dus_of(case)
    toks = ["ph", ph["kind"], str(case["n"]), w_token(case), du_token(case), "M"]
    wmax = max(ws_of(case))
    for r in range(case["n"]):
        toks += [str(v) for v in pad(before[r], wmax)]
    for r, items in enumerate(ph["ranks"]):
        first = True
        for it in items:
            if it[0] == "epoch":
                toks += ["B", str(r)]
                for c in it[2]:
                    if c[0] == "call":
                        toks.append(call_query(du, c[1]))
            elif it[0] == "call":
                if first or ph["kind"] != "X":
                    if first:
                        toks += ["B", str(r)]
                    first = False
                toks.append(call_query(du, it[1]))
    return " ".join(toks)


def phase_calls(ph):
    res = []
    for r, items in enumerate(ph["ranks"]):
        for it in items:
            if it[0] == "epoch":
                res += [(r, c[1]) for c in it[2] if c[0] == "call"]
            elif it[0] == "call":
                res.append((r, it[1]))
    return res


# --------------------------------------------------------------------------- running

class Runner:
    def __init__(self, ctx, harness):
        self.ctx = ctx
        self.h = harness
        self.plat = os.path.join(ctx.work, "plat.xml")
        self.hosts = os.path.join(ctx.work, "hosts")
        open(self.plat, "w").write(PLAT)
        open(self.hosts, "w").write("".join("h%d\n" % i for i in range(8)))
        # what smpirun executes (smpi_script/bin/smpirun -np n -platform p -hostfile h prog args), called directly so
        # that VERIF_C34_LIBDIR can point to another libsimgrid.so (used to validate proposed_fix.diff)
        self.smpimain = os.path.join(core.SGBUILD, "lib", "simgrid", "smpimain")
        self.libdir = os.environ.get("VERIF_C34_LIBDIR")
        self.runs = 0

    def run_script(self, n, lines, tag):
        path = os.path.join(self.ctx.work, "script-%s.txt" % tag)
        open(path, "w").write("\n".join(lines) + "\n")
        cmd = [self.smpimain, self.h, "--cfg=smpi/privatization:no", "--cfg=smpi/np:%d" % n,
               "--cfg=smpi/hostfile:" + self.hosts, "--cfg=precision/timing:1e-9", "--cfg=network/model:SMPI",
               "--log=root.thres:critical", "--cfg=smpi/simulate-computation:no", "--cfg=smpi/tmpdir:" + self.ctx.work,
               self.plat, path]
        self.runs += 1
        env = self.ctx.sg_env()
        if self.libdir:
            env["LD_LIBRARY_PATH"] = self.libdir + ":" + env["LD_LIBRARY_PATH"]
        try:
            p = core.sh(cmd, timeout=120, env=env, cwd=self.ctx.work)
            if p.returncode != 0 and "loading shared libraries" in p.stderr:
                self.ctx.ensure_simgrid(["simgrid", "smpimain"])     # the shared build was being relinked: wait, retry
                p = core.sh(cmd, timeout=120, env=env, cwd=self.ctx.work)
        except Exception as e:           # timeout
            return -9, [], str(e)
        return p.returncode, p.stdout.split("\n"), p.stderr

    def observe(self, cases, tag):
        """run a batch of cases with the same rank count in one smpirun; -> per case: list of per-phase observations
        {"wins": [[..]], "R": {id: vals}, "E": [ids]} or None when the run failed"""
        n = cases[0]["n"]
        lines, dumpmap, idmap = [], {}, {}
        dump_base, idb = 0, 0
        for ci, case in enumerate(cases):
            first = idb
            idb = assign_ids(case, idb)
            l, dumps = emit_script(case, dump_base)
            for pi, d in enumerate(dumps):
                dumpmap[d] = (ci, pi)
            for ph_i, ph in enumerate(case["phases"]):
                for _, c in phase_calls(ph):
                    idmap[c["id"]] = (ci, ph_i)
            dump_base += len(dumps)
            lines += l
        rc, out, err = self.run_script(n, lines, tag)
        if rc != 0:
            return None, (rc, err[-1500:])
        obs = [[{"wins": [None] * n, "R": {}, "E": []} for _ in c["phases"]] for c in cases]
        for l in out:
            t = l.split()
            if not t:
                continue
            if t[0] == "D":
                ci, pi = dumpmap[int(t[1])]
                obs[ci][pi]["wins"][int(t[2])] = [int(x) for x in t[3:]]
            elif t[0] == "R":
                ci, pi = idmap[int(t[1])]
                obs[ci][pi]["R"][int(t[1])] = [int(x) for x in t[2:]]
            elif t[0] == "E":
                ci, pi = idmap[int(t[1])]
                obs[ci][pi]["E"].append(int(t[1]))
        return obs, None


def driver_lines(case, obs):
    """one driver line per phase; the memory before a phase is the one observed after the previous one"""
    n, ws = case["n"], ws_of(case)
    wmax = max(ws)
    before = [[1000 * (r + 1) + i for i in range(ws[r])] for r in range(n)]
    lines = []
    for ph, o in zip(case["phases"], obs):
        if any(x is None or len(x) != ws[r] for r, x in enumerate(o["wins"])):
            return None
        q = phase_query(case, ph, before)
        a = ["W"] + [str(v) for r in range(n) for v in pad(o["wins"][r], wmax)]
        for i in sorted(o["R"]):
            a += ["R", str(i), str(len(o["R"][i]))] + [str(v) for v in o["R"][i]]
        for i in sorted(o["E"]):
            a += ["E", str(i)]
        lines.append(q + " => " + " ".join(a))
        before = o["wins"]
    return lines


def classify(ph):
    """classification key of a failing phase, by shape (priority CAS > get_accumulate/accumulate > exclusive epochs)"""
    calls = phase_calls(ph)
    for i, (r, c) in enumerate(calls):
        if c["k"] == "cas":
            for j, (r2, c2) in enumerate(calls):
                if j != i and c2["t"] == c["t"] and c2["idx"] <= c["idx"] < c2["idx"] + c2["n"]:
                    return KEY_CAS
    for r, c in calls:
        if c["k"] in ("gacc", "fop") and c["op"] == "replace":
            for r2, c2 in calls:
                if r2 != r and c2["k"] == "acc" and c2["op"] == "replace" and c2["t"] == c["t"] and \
                        c2["idx"] <= c["idx"] < c2["idx"] + c2["n"]:
                    return KEY_GACC
    if ph["kind"] == "X":
        eps = [(r, it[1]) for r, items in enumerate(ph["ranks"]) for it in items if it[0] == "epoch"]
        if any(a[0] != b[0] and a[1] == b[1] for a in eps for b in eps):
            return KEY_X
    return None


def corpus_cases():
    """hand-written witnesses (see corpus.txt for the prose).  Kept as data so that they run first on every seed."""
    def call(k, t, idx, n=1, **kw):
        c = {"k": k, "t": t, "idx": idx, "n": n}
        c.update(kw)
        return ("call", c)
    cs = []
    # W1: exclusive epochs; the second holder reads before the first holder's puts have landed, then writes
    cs.append({"n": 3, "w": 4, "du": 4, "phases": [{"kind": "X", "ranks": [
        [("epoch", 2, [call("put", 2, 0, 1, vals=[7])])],
        [("epoch", 2, [call("get", 2, 0, 1), ("wait", 150), call("put", 2, 1, 1, vals=[9]), call("get", 2, 0, 1)])],
        []]}]})
    cs.append({"n": 3, "w": 4, "du": 4, "phases": [{"kind": "X", "ranks": [
        [("epoch", 2, [call("put", 2, 0, 1, vals=[7]), call("put", 2, 1, 1, vals=[5])])],
        [("epoch", 2, [call("get", 2, 0, 1), ("wait", 400), call("get", 2, 1, 1)])],
        []]}]})
    # W2: two CAS on one cell under lock_all and between fences
    for kind in ("S", "F"):
        ph = {"kind": kind, "ranks": [[call("cas", 2, 0, cmp=3000, new=11)], [call("cas", 2, 0, cmp=3000, new=22)], []]}
        if kind == "F":
            ph["fa"] = (0, 0)
        cs.append({"n": 3, "w": 4, "du": 4, "phases": [ph]})
    # W3: fetch_and_op(replace) against accumulate(replace)
    cs.append({"n": 3, "w": 4, "du": 4, "phases": [{"kind": "S", "ranks": [
        [call("fop", 2, 0, 1, op="replace", vals=[11])], [call("acc", 2, 0, 1, op="replace", vals=[22])], []]}]})
    # plain sanity: disjoint puts + same-op accumulates (unique result), disp_unit 1 and 8
    cs.append({"n": 2, "w": 4, "du": 1, "phases": [{"kind": "F", "fa": (4, 8), "ranks": [
        [call("put", 1, 0, 2, vals=[5, 6]), call("acc", 1, 3, 1, op="sum", vals=[3])],
        [call("acc", 1, 3, 1, op="sum", vals=[4]), call("get", 0, 1, 2)]]}]})
    cs.append({"n": 2, "w": 4, "du": 8, "phases": [{"kind": "X", "ranks": [
        [("epoch", 1, [call("put", 1, 2, 2, vals=[5, 6])])],
        [("epoch", 0, [call("acc", 0, 0, 2, op="max", vals=[5000, -6])])]]}]})
    # a call outside any epoch must fail and leave the window alone
    cs.append({"n": 2, "w": 4, "du": 4, "phases": [{"kind": "N", "ranks": [[call("put", 1, 0, 1, vals=[5])], []]}]})
    return cs


def boundary_cases():
    """deterministic boundary enumeration; runs first on every seed, after the corpus.
    Window sizes 1 (a counter), 2, 5 on all ranks, and 1 / 5 / 2 and 5 / 2 / 1 on ranks 0 / 1 / 2 (a call that fits the
    target may be longer than the origin's own window and vice versa); the same disp_unit everywhere and three rotations of per-rank units 4 / 1 / 8; for
    each: A whole-window Put / Accumulate / Get_accumulate (count == window size at displacement 0), B whole-window Get
    from a remote rank and from oneself, C the last element only (Fetch_and_op / CAS / Put), C2 a Get / Get_accumulate
    from displacement > 0 up to the last element (displacement + count == window size), D one element more than the
    window holds (must be refused with MPI_ERR_RMA_RANGE, memory untouched).  The phase kinds rotate over exclusive
    epochs, lock_all and fence."""
    def call(k, t, idx, n=1, **kw):
        c = {"k": k, "t": t, "idx": idx, "n": n}
        c.update(kw)
        return ("call", c)
    n = 3
    cs = []
    j = 0

    def phase(kind, percall):
        """percall[r] = calls of origin r (each on one target)"""
        if kind == "X":
            ranks = [[("epoch", c[1]["t"], [c]) for c in calls] for calls in percall]
        else:
            ranks = [list(calls) for calls in percall]
        ph = {"kind": kind, "ranks": ranks}
        if kind == "F":
            ph["fa"] = (0, 8)
        return ph

    for w in (1, 2, 5, [1, 5, 2], [5, 2, 1]):
        for du in (4, [4, 1, 8], [8, 4, 1], [1, 8, 4]):
            dus = du if isinstance(du, list) else [du] * n
            ws = w if isinstance(w, list) else [w] * n          # ws[t]: size of the window of rank t
            ok = lambda t, idx: (idx * 4) % dus[t] == 0
            kinds = ["X", "S", "F"]
            phases = []
            vals = lambda r, t, m: [10 * (r + 1) + i + 100 * m for i in range(ws[t])]
            # A
            wr = []
            for r in range(n):
                t = (r + 1) % n
                k = ["put", "acc", "gacc"][(r + j) % 3]
                kw = {"vals": vals(r, t, 0)}
                if k != "put":
                    kw["op"] = ["sum", "replace", "max"][(r + j) % 3]
                wr.append([call(k, t, 0, ws[t], **kw)])
            phases.append(phase(kinds[j % 3], wr))
            # B
            phases.append(phase(kinds[(j + 1) % 3], [[call("get", (r + 2) % n, 0, ws[(r + 2) % n]), call("get", r, 0, ws[r])]
                                                     for r in range(n)]))
            # C
            lc = []
            for r in range(n):
                t = (r + 1) % n
                k = ["fop", "cas", "put"][(r + j) % 3]
                last = ws[t] - 1
                if not ok(t, last):
                    lc.append([])
                elif k == "fop":
                    lc.append([call("fop", t, last, 1, op="sum", vals=[5])])
                elif k == "cas":
                    lc.append([call("cas", t, last, 1, cmp=1000 * (t + 1) + last, new=33)])
                else:
                    lc.append([call("put", t, last, 1, vals=[77])])
            if any(lc):
                phases.append(phase(kinds[(j + 2) % 3], lc))
            # C2
            tl = []
            for r in range(n):
                t = (r + 1) % n
                idx = 2 if dus[t] == 8 else 1
                if idx >= ws[t]:
                    tl.append([])
                elif (r + j) % 2:
                    tl.append([call("gacc", t, idx, ws[t] - idx, op="noop", vals=[0] * (ws[t] - idx))])
                else:
                    tl.append([call("get", t, idx, ws[t] - idx)])
            if any(tl):
                phases.append(phase(kinds[j % 3], tl))
            # D
            bad = []
            for r in range(n):
                t = (r + 1) % n
                k = ["get", "put", "acc", "gacc"][(r + j) % 4]
                kw = {} if k == "get" else {"vals": vals(r, t, 1) + [9]}
                if k in ("acc", "gacc"):
                    kw["op"] = "sum"
                bad.append([call(k, t, 0, ws[t] + 1, **kw)])
            phases.append(phase(kinds[(j + 1) % 3], bad))
            cs.append({"n": n, "w": w, "du": du, "phases": phases, "malformed": True})
            j += 1
    return cs


def boundary_stats(case, st):
    """what the generated stream reaches of the boundaries (reported in the coverage)"""
    dus = dus_of(case)
    ws = ws_of(case)
    if len(set(dus)) > 1:
        st["programs_with_per_rank_disp_unit"] += 1
    if len(set(ws)) > 1:
        st["programs_with_per_rank_window_size"] += 1
    if 1 in ws:
        st["programs_with_one_element_window"] += 1
    for ph in case["phases"]:
        for r, c in phase_calls(ph):
            w = ws[c["t"]]
            if w < c["n"] <= ws[r]:
                st["calls_too_long_for_the_target_but_not_for_the_origin(malformed)"] += 1
            if ws[r] < c["n"] <= w:
                st["calls_longer_than_the_origin's_own_window"] += 1
            if c["n"] > w:
                st["calls_past_the_end(malformed)"] += 1
                if c["n"] == w + 1:
                    st["calls_one_element_too_many(malformed)"] += 1
                continue
            if c["idx"] + c["n"] == w:
                st["calls_ending_at_the_last_element"] += 1
                if c["idx"] == 0:
                    st["calls_spanning_the_whole_window"] += 1
            if c["idx"] > 0 and dus[c["t"]] != dus[r] and c["t"] != r:
                st["calls_at_disp>0_to_a_target_with_another_disp_unit"] += 1
                if c["k"] in ("get", "gacc", "fop", "cas"):
                    st["reads_at_disp>0_from_a_target_with_another_disp_unit"] += 1


def single_phase_case(case, pi):
    return {"n": case["n"], "w": case["w"], "du": case["du"], "phases": [json.loads(json.dumps(case["phases"][pi]))]}


def fix_json(case):
    """json round trip turns tuples into lists: normalise"""
    for ph in case["phases"]:
        ph["ranks"] = [[tuple(it) if it[0] != "epoch" else ("epoch", it[1], [tuple(c) for c in it[2]]) for it in items]
                       for items in ph["ranks"]]
        if "fa" in ph:
            ph["fa"] = tuple(ph["fa"])
    return case


def run(ctx):
    ctx.cov["rule"] = ("one evaluation = one phase (set of exclusive epochs | lock_all section | fence section | calls "
                       "outside an epoch) of a generated program, drawn from splitmix64(VERIF_SEED); non-trivial = phase "
                       "with calls of >= 2 origins and >= 2 blocks whose observation was produced by the real library")
    ctx.assumptions += [
        "programs are race-free in MPI's sense by construction of the generator (Put/Get never overlap another access of "
        "the same epoch / concurrent section; concurrent accumulate-family calls on a cell use one operator or MPI_NO_OP; "
        "CAS cells are only used by CAS)",
        "simulated dates are fixed by --cfg=smpi/simulate-computation:no, so which serialisation the library realises is "
        "deterministic per program; the set of schedules explored is the one the generated waits produce",
        "windows of MPI_INT, contiguous datatypes only"]
    ctx.ensure_simgrid(["simgrid", "smpimain"])
    ctx.lean_prove()
    drv = ctx.lean_exe()
    h = ctx.build_harness("harness.c", smpi=True, lang="c")
    if h is None and ctx.broken and ctx.broken[-1].get("kind") == "harness-build":
        # libsimgrid.so of the shared build was being relinked by another check: wait for it and retry once
        ctx.broken.pop()
        ctx.ensure_simgrid()
        h = ctx.build_harness("harness.c", smpi=True, lang="c")
    if not (drv and h):
        return
    R = Runner(ctx, h)
    rng = SplitMix(ctx.seed)
    ncases = 260 if ctx.tier == "quick" else 6000
    if ctx.broken:
        ncases *= 10
    if ctx.replay:
        cases = [fix_json(json.load(open(ctx.replay))["case"]["case"])]
    else:
        cases = corpus_cases() + boundary_cases() + [gen_case(rng.fork(i)) for i in range(ncases)]
    ncorpus = len(corpus_cases()) + len(boundary_cases())
    bstats = {k: 0 for k in ("programs_with_per_rank_disp_unit", "programs_with_one_element_window",
                             "programs_with_per_rank_window_size", "calls_longer_than_the_origin's_own_window",
                             "calls_too_long_for_the_target_but_not_for_the_origin(malformed)",
                             "calls_past_the_end(malformed)", "calls_one_element_too_many(malformed)",
                             "calls_ending_at_the_last_element", "calls_spanning_the_whole_window",
                             "calls_at_disp>0_to_a_target_with_another_disp_unit",
                             "reads_at_disp>0_from_a_target_with_another_disp_unit")}
    for c in cases:
        boundary_stats(c, bstats)
    # batches per rank count
    kinds, shapes = {}, {}
    verdict_by_key = {}
    batch_size = 24
    groups = {}
    for ci, c in enumerate(cases):
        groups.setdefault(c["n"], []).append((ci, c))
    all_lines = []          # (case index, phase index, driver line)
    for n, lst in sorted(groups.items()):
        for b in range(0, len(lst), batch_size):
            chunk = lst[b:b + batch_size]
            obs, fail = R.observe([c for _, c in chunk], "b%d-%d" % (n, b))
            if obs is None:
                # isolate the failing case(s)
                for ci, c in chunk:
                    o1, f1 = R.observe([c], "single")
                    if o1 is None:
                        ctx.violation("the program crashes, dead-locks or the library aborts: rc=%s %s" % f1,
                                      {"case": c, "stderr": f1[1]}, key=KEY_HANG)
                    else:
                        dl = driver_lines(c, o1[0])
                        if dl is None:
                            ctx.broken.append({"kind": "harness-output", "case": ci})
                        else:
                            all_lines += [(ci, pi, l) for pi, l in enumerate(dl)]
                continue
            for (ci, c), o in zip(chunk, obs):
                dl = driver_lines(c, o)
                if dl is None:
                    ctx.broken.append({"kind": "harness-output", "case": ci})
                    continue
                all_lines += [(ci, pi, l) for pi, l in enumerate(dl)]
    rc, verdicts, err = ctx.run_lines([drv], [l for _, _, l in all_lines], timeout=1200)
    if rc != 0 or not verdicts or verdicts[-1] != "END %d" % len(all_lines):
        ctx.broken.append({"kind": "driver-run", "rc": rc, "stderr": err[-2000:]})
        return
    nviol = 0
    for (ci, pi, l), v in zip(all_lines, verdicts):
        case = cases[ci]
        ph = case["phases"][pi]
        ctx.cov["evaluations"] += 1
        kinds[ph["kind"]] = kinds.get(ph["kind"], 0) + 1
        calls = phase_calls(ph)
        for _, c in calls:
            shapes[c["k"]] = shapes.get(c["k"], 0) + 1
        nblocks = len(calls) if ph["kind"] != "X" else sum(1 for items in ph["ranks"] for it in items if it[0] == "epoch")
        if len(set(r for r, _ in calls)) >= 2 and nblocks >= 2:
            ctx.cov["distinct_nontrivial"] += 1
        if v == "ok":
            ctx.cov["traces_validated_against_impl"] += 1
            continue
        if v.startswith("MONFAIL"):
            key = classify(ph)
            verdict_by_key[key] = verdict_by_key.get(key, 0) + 1
            nviol += 1
            ctx.violation("the observed windows / results are not produced by any serialisation the locks or fences "
                          "allow: " + v[:400],
                          {"case": single_phase_case(case, pi) if pi == 0 else case, "phase": pi, "line": l,
                           "verdict": v, "from_corpus": ci < ncorpus}, key=key)
        elif v.startswith("DISAGREE"):
            ctx.violation("error codes differ from the model (range check / call outside an epoch): " + v[:300],
                          {"case": case, "phase": pi, "line": l, "verdict": v}, key="rma-error-code")
        else:
            ctx.broken.append({"kind": "driver-badline", "line": l[:300], "verdict": v[:200]})
    ctx.cov["samples"] = [l for _, _, l in all_lines[:2]] + [l for _, _, l in all_lines[ncorpus + 3:ncorpus + 6]]
    ctx.cov["distribution"] = {"phase_kinds": kinds, "calls": shapes, "smpirun_runs": R.runs,
                               "monitor_failures_by_key": {str(k): v for k, v in verdict_by_key.items()},
                               "programs": len(cases), "boundaries": bstats}
