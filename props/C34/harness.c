/* C34 harness: an MPI interpreter for generated RMA programs (compiled with smpicc, run with smpirun).
 *
 *   harness <script>
 * script:  `W <nints> <disp_unit>` (collective: frees the current window and creates a new one of nints ints, initialised
 * to 1000*(rank+1)+i: starts a new case; <nints> is one number, or `n_0,n_1,...` = the size of the window rank 0, 1, ...
 * exposes; <disp_unit> is one number, or `du_0,du_1,...` = the disp_unit that rank 0, 1, ...
 * passes to MPI_Win_create: MPI lets every rank choose its own; a shorter list is cycled); then one command per line `<rank|*> <cmd> <args...>`; every rank executes, in
 * file order, the lines addressed to it (or to `*`).  Call ids are chosen by the generator (unique per run).
 *   lock t | slock t | unlock t | lockall | unlockall | flush t | flushall | fence <assert> | barrier | wait <usec>
 *   put  id t disp n v1..vn        MPI_Put of n ints
 *   get  id t disp n               MPI_Get (result printed at the next dump)
 *   acc  id t disp n op v1..vn     MPI_Accumulate
 *   gacc id t disp n op v1..vn     MPI_Get_accumulate
 *   fop  id t disp op v            MPI_Fetch_and_op
 *   cas  id t disp cmp new         MPI_Compare_and_swap
 *   dump k                         barrier; every rank prints `D k <rank> <window>` and `R <id> <rc> <result ints>` for
 *                                  each get-like call it issued since the last dump; barrier
 * Every call's return code is checked: a non-zero code is printed as `E <id> <cmd> <rc>`.
 * With C34_TRACE set, every executed command is logged on stderr with the simulated date.
 */
#include <mpi.h>
#include <stdio.h>
#include <stdlib.h>
#include <string.h>
#include <unistd.h>

#define MAXTOK 64
#define MAXRES 256

typedef struct {
  int id;
  int n;
  int* buf;
} result_t;

static MPI_Op parse_op(const char* s)
{
  if (!strcmp(s, "sum")) return MPI_SUM;
  if (!strcmp(s, "prod")) return MPI_PROD;
  if (!strcmp(s, "max")) return MPI_MAX;
  if (!strcmp(s, "min")) return MPI_MIN;
  if (!strcmp(s, "band")) return MPI_BAND;
  if (!strcmp(s, "bor")) return MPI_BOR;
  if (!strcmp(s, "bxor")) return MPI_BXOR;
  if (!strcmp(s, "replace")) return MPI_REPLACE;
  if (!strcmp(s, "noop")) return MPI_NO_OP;
  fprintf(stderr, "bad op %s\n", s);
  exit(3);
}

int main(int argc, char** argv)
{
  MPI_Init(&argc, &argv);
  int rank, size;
  MPI_Comm_rank(MPI_COMM_WORLD, &rank);
  MPI_Comm_size(MPI_COMM_WORLD, &size);
  if (argc < 2) {
    fprintf(stderr, "usage: harness script\n");
    return 3;
  }
  FILE* f = fopen(argv[1], "r");
  if (!f) {
    perror("script");
    return 3;
  }
  char line[4096];
  int wn = 0, du = 4;
  int* base = NULL;
  MPI_Win win = MPI_WIN_NULL;

  result_t res[MAXRES];
  int nres = 0;
  /* origin buffers must stay valid until the epoch ends: keep them all */
  int* keep[MAXRES * 2];
  int nkeep = 0;

  while (fgets(line, sizeof line, f)) {
    char* tok[MAXTOK];
    int nt = 0;
    for (char* p = strtok(line, " \t\n"); p && nt < MAXTOK; p = strtok(NULL, " \t\n"))
      tok[nt++] = p;
    if (nt < 2 || tok[0][0] == '#')
      continue;
    if (tok[0][0] == 'W') { /* (re)create the window: a new case starts */
      if (win != MPI_WIN_NULL) {
        MPI_Win_free(&win);
        free(base);
      }
      if (nt < 3) {
        fprintf(stderr, "bad W line\n");
        exit(3);
      }
      { /* the window size of THIS rank: entry (rank mod list length) of the comma-separated list */
        int wl[64], nw = 0;
        for (char* q = tok[1]; q && *q && nw < 64;) {
          wl[nw++] = atoi(q);
          q = strchr(q, ',');
          if (q)
            q++;
        }
        wn = nw > 0 ? wl[rank % nw] : 0;
      }
      { /* the disp_unit of THIS rank: entry (rank mod list length) of the comma-separated list */
        int dul[64], ndu = 0;
        for (char* q = tok[2]; q && *q && ndu < 64;) {
          dul[ndu++] = atoi(q);
          q = strchr(q, ',');
          if (q)
            q++;
        }
        du = ndu > 0 ? dul[rank % ndu] : 4;
      }
      base = malloc(sizeof(int) * (wn + 16)); /* slack: a library that wrongly accepts a call one element too long must
                                                 not take the interpreter down before the dump shows it */
      for (int i = 0; i < wn; i++)
        base[i] = 1000 * (rank + 1) + i;
      MPI_Win_create(base, (MPI_Aint)wn * sizeof(int), du, MPI_INFO_NULL, MPI_COMM_WORLD, &win);
      MPI_Win_set_errhandler(win, MPI_ERRORS_RETURN);
      continue;
    }
    if (win == MPI_WIN_NULL) {
      fprintf(stderr, "no window yet\n");
      exit(3);
    }
    if (tok[0][0] != '*' && atoi(tok[0]) != rank)
      continue;
    const char* c = tok[1];
    int rc    = 0;
    int id    = -1;
    if (!strcmp(c, "lock"))
      rc = MPI_Win_lock(MPI_LOCK_EXCLUSIVE, atoi(tok[2]), 0, win);
    else if (!strcmp(c, "slock"))
      rc = MPI_Win_lock(MPI_LOCK_SHARED, atoi(tok[2]), 0, win);
    else if (!strcmp(c, "unlock"))
      rc = MPI_Win_unlock(atoi(tok[2]), win);
    else if (!strcmp(c, "lockall"))
      rc = MPI_Win_lock_all(0, win);
    else if (!strcmp(c, "unlockall"))
      rc = MPI_Win_unlock_all(win);
    else if (!strcmp(c, "flush"))
      rc = MPI_Win_flush(atoi(tok[2]), win);
    else if (!strcmp(c, "flushall"))
      rc = MPI_Win_flush_all(win);
    else if (!strcmp(c, "fence"))
      rc = MPI_Win_fence(atoi(tok[2]), win);
    else if (!strcmp(c, "barrier"))
      rc = MPI_Barrier(MPI_COMM_WORLD);
    else if (!strcmp(c, "wait"))
      usleep(atoi(tok[2]));
    else if (!strcmp(c, "put") || !strcmp(c, "acc") || !strcmp(c, "gacc")) {
      id       = atoi(tok[2]);
      int t    = atoi(tok[3]);
      long d   = atol(tok[4]);
      int n    = atoi(tok[5]);
      int k    = 6;
      MPI_Op op = MPI_OP_NULL;
      if (c[0] != 'p')
        op = parse_op(tok[k++]);
      int* ob = malloc(sizeof(int) * (n > 0 ? n : 1));
      keep[nkeep++] = ob;
      for (int i = 0; i < n; i++)
        ob[i] = (k + i < nt) ? atoi(tok[k + i]) : 0;
      if (c[0] == 'p')
        rc = MPI_Put(ob, n, MPI_INT, t, d, n, MPI_INT, win);
      else if (c[0] == 'a')
        rc = MPI_Accumulate(ob, n, MPI_INT, t, d, n, MPI_INT, op, win);
      else {
        res[nres].id  = id;
        res[nres].n   = n;
        res[nres].buf = malloc(sizeof(int) * (n > 0 ? n : 1));
        for (int i = 0; i < n; i++)
          res[nres].buf[i] = -777;
        rc = MPI_Get_accumulate(ob, n, MPI_INT, res[nres].buf, n, MPI_INT, t, d, n, MPI_INT, op, win);
        nres++;
      }
    } else if (!strcmp(c, "get")) {
      id            = atoi(tok[2]);
      int n         = atoi(tok[5]);
      res[nres].id  = id;
      res[nres].n   = n;
      res[nres].buf = malloc(sizeof(int) * (n > 0 ? n : 1));
      for (int i = 0; i < n; i++)
        res[nres].buf[i] = -777;
      rc = MPI_Get(res[nres].buf, n, MPI_INT, atoi(tok[3]), atol(tok[4]), n, MPI_INT, win);
      nres++;
    } else if (!strcmp(c, "fop")) {
      id            = atoi(tok[2]);
      int* ob       = malloc(sizeof(int));
      keep[nkeep++] = ob;
      *ob           = atoi(tok[6]);
      res[nres].id  = id;
      res[nres].n   = 1;
      res[nres].buf = malloc(sizeof(int));
      res[nres].buf[0] = -777;
      rc = MPI_Fetch_and_op(ob, res[nres].buf, MPI_INT, atoi(tok[3]), atol(tok[4]), parse_op(tok[5]), win);
      nres++;
    } else if (!strcmp(c, "cas")) {
      id            = atoi(tok[2]);
      int* ob       = malloc(2 * sizeof(int));
      keep[nkeep++] = ob;
      ob[0]         = atoi(tok[6]); /* new */
      ob[1]         = atoi(tok[5]); /* compare */
      res[nres].id  = id;
      res[nres].n   = 1;
      res[nres].buf = malloc(sizeof(int));
      res[nres].buf[0] = -777;
      rc = MPI_Compare_and_swap(&ob[0], &ob[1], res[nres].buf, MPI_INT, atoi(tok[3]), atol(tok[4]), win);
      nres++;
    } else if (!strcmp(c, "dump")) {
      MPI_Barrier(MPI_COMM_WORLD);
      size_t outsz = 64 + 12 * (size_t)(wn > MAXTOK ? wn : MAXTOK);
      char* out    = malloc(outsz);
      int o        = snprintf(out, outsz, "D %s %d", tok[2], rank);
      for (int i = 0; i < wn; i++)
        o += snprintf(out + o, outsz - o, " %d", base[i]);
      printf("%s\n", out);
      for (int r = 0; r < nres; r++) {
        o = snprintf(out, outsz, "R %d", res[r].id);
        for (int i = 0; i < res[r].n; i++)
          o += snprintf(out + o, outsz - o, " %d", res[r].buf[i]);
        printf("%s\n", out);
        free(res[r].buf);
      }
      nres = 0;
      for (int i = 0; i < nkeep; i++)
        free(keep[i]);
      nkeep = 0;
      free(out);
      fflush(stdout);
      MPI_Barrier(MPI_COMM_WORLD);
    } else {
      fprintf(stderr, "bad command %s\n", c);
      exit(3);
    }
    if (getenv("C34_TRACE"))
      fprintf(stderr, "# t=%.9f rank %d done %s (id %d)\n", MPI_Wtime(), rank, c, id);
    if (rc != MPI_SUCCESS) {
      printf("E %d %s %d\n", id, c, rc);
      fflush(stdout);
    }
    if (nres >= MAXRES - 1 || nkeep >= 2 * MAXRES - 2) {
      fprintf(stderr, "too many pending results\n");
      exit(3);
    }
  }
  fclose(f);
  if (win != MPI_WIN_NULL) {
    MPI_Win_free(&win);
    free(base);
  }
  MPI_Finalize();
  return 0;
}
