"""C37 — Trace replay reproduces the online simulated time.
Theorems: lean/SgVerif/C37/Props.lean (TI trace grammar: print/parse round trip).
Correspondence: generated MPI programs (2..8 ranks, supported point-to-point and collective calls, computation not
simulated) run online with -trace-ti; (1) every trace line is compared with the Lean writer model and read back with
the Lean parser model against the call the program issued; (2) the trace is replayed with `smpirun -replay` on the same
platform/configuration and the per-rank completion dates are compared (1e-9 relative)."""
import json
import os
import shutil
from fractions import Fraction
from vlib import core
from vlib.core import SplitMix

PLAT = """<?xml version='1.0'?>
<!DOCTYPE platform SYSTEM "https://simgrid.org/simgrid.dtd">
<platform version="4.1">
  <zone id="AS0" routing="Full">
    <cluster id="c" prefix="h" suffix="" radical="0-7" speed="1Gf" bw="125MBps" lat="50us"/>
  </zone>
</platform>
"""
TYID = {"d": 0, "i": 1, "c": 2, "b": 6}       # Datatype::encode of MPI_DOUBLE, MPI_INT, MPI_CHAR, MPI_BYTE
KEY_RECV0 = "ti-coll-recvcount-zero-omitted"
KEY_STALE = "replay-test-stale-null-request"
KEY_SAMEKEY = "replay-same-key-requests-paired-differently"
KEY_OOO = "replay-same-key-waited-out-of-order"
SOFT_KEYS = (KEY_STALE, KEY_OOO)      # proposed findings: printed, not failing, until registered in known_findings.txt


def gen_samekey_step(rng, n):
    """Several requests with the SAME (sender, receiver, tag) pending at once on one rank, each completed by its own
    MPI_Wait, in the order they were posted, with a message to a third rank after each wait (so that WHICH request a wait
    completes is visible in the dates of another rank).  The TI record of a wait carries only (src, dst, tag): the
    replayer must pair the k-th wait of a key with the k-th pending request of that key, as the online run did.
    side: which rank holds the same-key requests (receiver: Irecv x k; sender: Isend x k; both)."""
    a = rng.below(n)
    b = (a + 1 + rng.below(n - 1)) % n
    c = rng.choice([r for r in range(n) if r not in (a, b)])
    k = rng.choice([2, 2, 2, 3])
    sizes = [1000, 20000, 70000, 200000, 500000]        # different sizes: eager and rendezvous, 1 kB .. 4 MB
    rng.shuffle(sizes)
    return {"k": "samekey", "ty": rng.choice(["i", "d", "c", "b"]), "src": a, "dst": b, "third": c,
            "tag": rng.range(0, 9), "tag2": rng.range(0, 9), "cnts": sizes[:k], "tok": rng.choice([1, 10, 100, 30000]),
            "side": rng.choice(["recv", "recv", "send", "both"]), "last_waitall": rng.chance(1, 4)}


def gen_samekey_prog(rng):
    """a program around one or two `samekey` steps (n >= 3: a third rank observes), see gen_samekey_step"""
    n = rng.range(3, 6)
    simple = lambda: gen_prog_step(rng, n, rng.choice(["p2p", "barrier", "bcast", "allreduce", "nb", "ring"]), 0)
    steps = [simple() for _ in range(rng.below(3))]
    for _ in range(rng.choice([1, 1, 2])):
        steps.append(gen_samekey_step(rng, n))
        if rng.chance(1, 2):
            steps.append(simple())
    return {"n": n, "steps": steps}


def gen_prog(rng):
    """-> {"n", "steps": [step]}, step = {"k": kind, ...}; per-rank script lines and expected TI records are derived"""
    n = rng.range(2, 8)
    steps = []
    for _ in range(rng.range(3, 10)):
        k = rng.choice(["p2p", "ring", "nb", "barrier", "bcast", "reduce", "allreduce", "alltoall", "gather", "scatter",
                        "allgather", "gatherv", "scatterv", "allgatherv", "alltoallv", "reducescatter", "gather",
                        "p2p", "nb", "shift", "scan", "exscan", "nbt", "poll"])
        steps.append(gen_prog_step(rng, n, k, len(steps)))
    return {"n": n, "steps": steps}


def gen_prog_step(rng, n, k, nsteps):
    """one step of kind k of a program of n ranks (nsteps = number of steps before it: makes the poll tags unique)"""
    if True:
        ty = rng.choice(["i", "d", "c", "b"])
        cnt = rng.choice([1, 2, 10, 100, 1000, 5000, 20000, 3, 7])
        if k in ("reduce", "allreduce", "reducescatter"):
            ty = rng.choice(["i", "d"])             # MPI_MAX is not defined on MPI_CHAR / MPI_BYTE
        st = {"k": k, "ty": ty}
        if k in ("p2p", "nb"):
            a = rng.below(n)
            b = (a + 1 + rng.below(n - 1)) % n
            st.update(src=a, dst=b, tag=rng.range(0, 9), cnt=cnt, order=rng.below(2))
        elif k == "nbt":                             # isend / irecv, one MPI_Test on each side, waitall
            a = rng.below(n)
            b = (a + 1 + rng.below(n - 1)) % n
            st.update(src=a, dst=b, tag=rng.range(0, 9), cnt=cnt)
        elif k == "poll":                            # isend, MPI_Test until it succeeds; keys (src, dst, tag) unique per program
            a = rng.below(n)
            b = (a + 1 + rng.below(n - 1)) % n
            st.update(src=a, dst=b, tag=100 + nsteps, cnt=rng.choice([10, 5000, 200000]))
        elif k == "ring":
            st.update(tag=rng.range(0, 9), cnt=rng.choice([1, 10, 1000, 20000]), waitall=rng.below(2))
        elif k == "shift":                           # MPI_Sendrecv ring shift (tags 0: the TI record has no tags)
            st.update(cnt=rng.choice([1, 10, 1000, 20000]), by=rng.range(1, n - 1) if n > 2 else 1)
        elif k in ("scan", "exscan"):
            st["ty"] = rng.choice(["i", "d"])
            st.update(cnt=cnt)
        elif k in ("bcast", "reduce"):
            st.update(cnt=cnt, root=rng.below(n))
        elif k == "allreduce":
            st.update(cnt=cnt)
        elif k in ("alltoall", "allgather"):
            c = rng.choice([1, 4, 50, 300])
            if rng.chance(1, 12):
                c = 0                              # zero-size collective (legal)
            st.update(s=c, r=c)
        elif k == "gather":
            c = rng.choice([1, 5, 60, 400])
            st.update(s=c, r=c, root=rng.below(n), nonroot_zero=rng.chance(1, 4))
        elif k == "scatter":
            c = rng.choice([1, 5, 60, 400])
            st.update(s=c, r=c, root=rng.below(n), nonroot_zero=rng.chance(1, 4))
        elif k in ("gatherv", "allgatherv", "reducescatter"):
            st.update(counts=[rng.choice([1, 2, 5, 30]) for _ in range(n)], root=rng.below(n))
        elif k == "scatterv":
            st.update(counts=[rng.choice([1, 2, 5, 30]) for _ in range(n)], root=rng.below(n))
        elif k == "alltoallv":
            st.update(mat=[[rng.choice([0, 1, 2, 9]) for _ in range(n)] for _ in range(n)])
        return st


def expand(prog):
    """-> (script lines, expected[rank] = list of (name, canonical args))"""
    n = prog["n"]
    lines = []
    exp = [[] for _ in range(n)]
    for st in prog["steps"]:
        k = st["k"]
        t = st["ty"]
        ti = TYID[t]
        if k == "p2p":
            a, b = st["src"], st["dst"]
            lines.append("%d send %d %d %d %s" % (a, b, st["tag"], st["cnt"], t))
            lines.append("%d recv %d %d %d %s" % (b, a, st["tag"], st["cnt"], t))
            exp[a].append(("send", [b, st["tag"], st["cnt"], ti]))
            exp[b].append(("recv", [a, st["tag"], st["cnt"], ti]))
        elif k == "nb":
            a, b = st["src"], st["dst"]
            lines.append("%d isend %d %d %d %s" % (a, b, st["tag"], st["cnt"], t))
            lines.append("%d irecv %d %d %d %s" % (b, a, st["tag"], st["cnt"], t))
            exp[a].append(("isend", [b, st["tag"], st["cnt"], ti]))
            exp[b].append(("irecv", [a, st["tag"], st["cnt"], ti]))
            if st["order"]:
                lines += ["%d wait 0" % a, "%d waitall" % b]
                exp[a].append(("wait", [a, b, st["tag"]]))
                exp[b].append(("waitall", [1]))
            else:
                lines += ["%d waitall" % a, "%d wait 0" % b]
                exp[a].append(("waitall", [1]))
                exp[b].append(("wait", [a, b, st["tag"]]))
        elif k == "nbt":
            a, b = st["src"], st["dst"]
            lines.append("%d isend %d %d %d %s" % (a, b, st["tag"], st["cnt"], t))
            lines.append("%d irecv %d %d %d %s" % (b, a, st["tag"], st["cnt"], t))
            lines += ["%d test 0" % a, "%d test 0" % b, "%d waitall" % a, "%d waitall" % b]
            exp[a] += [("isend", [b, st["tag"], st["cnt"], ti]), ("test", [a, b, st["tag"]]), ("waitall", [1])]
            exp[b] += [("irecv", [a, st["tag"], st["cnt"], ti]), ("test", [a, b, st["tag"]]), ("waitall", [1])]
        elif k == "samekey":
            a, b, c, tag, tag2, tok = st["src"], st["dst"], st["third"], st["tag"], st["tag2"], st["tok"]
            cnts = st["cnts"]
            kk = len(cnts)
            # order in which the pending requests are waited for: positions in the list of pending requests (oldest
            # first) of successive `wait` commands.  Generated: posting order (0, 0, ...).  "lifo" (hand-written
            # experiments only): newest first -- NOT what the replay can reproduce (the TI format has no request ids).
            pos = [0] * kk if st.get("order", "fifo") == "fifo" else list(range(kk - 1, -1, -1))
            for side, r, peer, nb, bl in (("send", a, b, "isend", "send"), ("recv", b, a, "irecv", "recv")):
                mine = st["side"] in (side, "both")
                for cnt in cnts:
                    lines.append("%d %s %d %d %d %s" % (r, nb if mine else bl, peer, tag, cnt, t))
                    exp[r].append((nb if mine else bl, [peer, tag, cnt, ti]))
                if not mine:
                    continue
                for i in range(kk):
                    if i == kk - 1 and st.get("last_waitall"):
                        lines.append("%d waitall" % r)
                        exp[r].append(("waitall", [1]))
                    else:
                        lines.append("%d wait %d" % (r, pos[i]))
                        exp[r].append(("wait", [a, b, tag]))
                    if i < kk - 1:
                        lines.append("%d send %d %d %d %s" % (r, c, tag2, tok, t))
                        exp[r].append(("send", [c, tag2, tok, ti]))
                        lines.append("%d recv %d %d %d %s" % (c, r, tag2, tok, t))
                        exp[c].append(("recv", [r, tag2, tok, ti]))
        elif k == "poll":
            a, b = st["src"], st["dst"]
            lines.append("%d isend %d %d %d %s" % (a, b, st["tag"], st["cnt"], t))
            lines.append("%d recv %d %d %d %s" % (b, a, st["tag"], st["cnt"], t))
            lines.append("%d poll 0" % a)
            exp[a] += [("isend", [b, st["tag"], st["cnt"], ti]), ("test+", [a, b, st["tag"]])]   # one or more test lines
            exp[b].append(("recv", [a, st["tag"], st["cnt"], ti]))
        elif k == "shift":
            for r in range(n):
                dst, src = (r + st["by"]) % n, (r - st["by"]) % n
                lines.append("%d sendrecv %d %d %d %s" % (r, dst, src, st["cnt"], t))
                exp[r].append(("sendRecv", [st["cnt"], dst, st["cnt"], src, ti, ti]))
        elif k in ("scan", "exscan"):
            lines.append("* %s %d %s" % (k, st["cnt"], t))
            for r in range(n):
                exp[r].append((k, [st["cnt"], 0, ti]))
        elif k == "ring":
            for r in range(n):
                right, left = (r + 1) % n, (r - 1) % n
                lines.append("%d irecv %d %d %d %s" % (r, left, st["tag"], st["cnt"], t))
                lines.append("%d isend %d %d %d %s" % (r, right, st["tag"], st["cnt"], t))
                exp[r].append(("irecv", [left, st["tag"], st["cnt"], ti]))
                exp[r].append(("isend", [right, st["tag"], st["cnt"], ti]))
                if st["waitall"]:
                    lines.append("%d waitall" % r)
                    exp[r].append(("waitall", [2]))
                else:
                    lines += ["%d wait 1" % r, "%d wait 0" % r]
                    exp[r].append(("wait", [r, right, st["tag"]]))
                    exp[r].append(("wait", [left, r, st["tag"]]))
        elif k == "barrier":
            lines.append("* barrier")
            for r in range(n):
                exp[r].append(("barrier", []))
        elif k == "bcast":
            lines.append("* bcast %d %d %s" % (st["cnt"], st["root"], t))
            for r in range(n):
                exp[r].append(("bcast", [st["cnt"], st["root"], ti]))
        elif k == "reduce":
            lines.append("* reduce %d %d %s" % (st["cnt"], st["root"], t))
            for r in range(n):
                exp[r].append(("reduce", [st["cnt"], 0, st["root"], ti]))
        elif k == "allreduce":
            lines.append("* allreduce %d %s" % (st["cnt"], t))
            for r in range(n):
                exp[r].append(("allreduce", [st["cnt"], 0, ti]))
        elif k in ("alltoall", "allgather"):
            lines.append("* %s %d %d %s" % (k, st["s"], st["r"], t))
            for r in range(n):
                exp[r].append((k, [st["s"], st["r"], ti, ti]))
        elif k == "gather":
            for r in range(n):
                rc = 0 if (st["nonroot_zero"] and r != st["root"]) else st["r"]
                lines.append("%d gather %d %d %d %s" % (r, st["s"], rc, st["root"], t))
                exp[r].append(("gather", [st["s"], rc, st["root"], ti, ti]))
        elif k == "scatter":
            for r in range(n):
                sc = 0 if (st["nonroot_zero"] and r != st["root"]) else st["s"]
                lines.append("%d scatter %d %d %d %s" % (r, sc, st["r"], st["root"], t))
                exp[r].append(("scatter", [sc, st["r"], st["root"], ti, ti]))
        elif k == "gatherv":
            c = st["counts"]
            for r in range(n):
                lines.append("%d gatherv %d %d %s %s" % (r, c[r], st["root"], t, " ".join(map(str, c))))
                rcs = c if r == st["root"] else [0] * n
                exp[r].append(("gatherv", [c[r]] + rcs + [st["root"], ti, ti]))
        elif k == "scatterv":
            c = st["counts"]
            for r in range(n):
                lines.append("%d scatterv %d %d %s %s" % (r, c[r], st["root"], t, " ".join(map(str, c))))
                scs = c if r == st["root"] else [0] * n
                exp[r].append(("scatterv", scs + [c[r], st["root"], ti, ti]))
        elif k == "allgatherv":
            c = st["counts"]
            for r in range(n):
                lines.append("%d allgatherv %d %s %s" % (r, c[r], t, " ".join(map(str, c))))
                exp[r].append(("allgatherv", [c[r]] + c + [ti, ti]))
        elif k == "reducescatter":
            c = st["counts"]
            lines.append("* reducescatter %s %s" % (t, " ".join(map(str, c))))
            for r in range(n):
                exp[r].append(("reducescatter", c + [0, ti]))
        elif k == "alltoallv":
            m = st["mat"]
            for r in range(n):
                sc = m[r]
                rc = [m[j][r] for j in range(n)]
                lines.append("%d alltoallv %s %s %s" % (r, t, " ".join(map(str, sc)), " ".join(map(str, rc))))
                exp[r].append(("alltoallv", [sum(sc)] + sc + [sum(rc)] + rc + [ti, ti]))
    return lines, exp


def match_shape(got, exp):
    """got: trace records (token lists), exp: expected (name, args) with `test+` = one or more `test` lines.
    -> list of (expected name, expected args, got tokens) or None"""
    out = []
    i = 0
    for name, args in exp:
        if name == "test+":
            k = 0
            while i < len(got) and got[i][0] == "test":
                out.append(("test", args, got[i]))
                i += 1
                k += 1
            if k == 0:
                return None
        else:
            if i >= len(got) or got[i][0] != name:
                return None
            out.append((name, args, got[i]))
            i += 1
    return out if i == len(got) else None


def has_stale(prog):
    """two polls (isend completed by MPI_Test, never waited for) with the same (src, dst, tag): the witness class of the
    stale null entry in the replay storage"""
    seen = set()
    for st in prog["steps"]:
        if st["k"] == "poll":
            key = (st["src"], st["dst"], st["tag"])
            if key in seen:
                return True
            seen.add(key)
    return False


def report(ctx, what, case, key):
    """a defect that is not (yet) registered in known_findings.txt is printed and recorded, but does not fail the check
    (the check of the unchanged tree must stay at exit 0); once registered it goes through ctx.violation (KNOWN-FINDING)"""
    if key in SOFT_KEYS and key not in core.known_findings().get(ctx.pid, {}):
        print("PROPOSED-FINDING: property=%s key=%s %s" % (ctx.pid, key, what[:240]))
        ctx.cov.setdefault("proposed_findings_hit", [])
        if key not in ctx.cov["proposed_findings_hit"]:
            ctx.cov["proposed_findings_hit"].append(key)
        return
    ctx.violation(what, case, key=key)


def has_samekey(prog):
    return any(st["k"] == "samekey" for st in prog["steps"])


def has_out_of_order(prog):
    """same-key requests waited for in another order than they were posted (hand-written corpus witness only: the TI
    record of a wait has no request identity, the replay cannot know which one was meant)"""
    return any(st["k"] == "samekey" and st.get("order", "fifo") != "fifo" for st in prog["steps"])


def has_recv0(prog):
    for st in prog["steps"]:
        if st["k"] == "gather" and st["nonroot_zero"] and prog["n"] > 1:
            return True
        if st["k"] in ("alltoall", "allgather", "gather", "scatter") and st.get("r") == 0:
            return True
    return False


class Runner:
    def __init__(self, ctx, harness):
        self.ctx = ctx
        self.h = harness
        self.plat = os.path.join(ctx.work, "plat.xml")
        self.hosts = os.path.join(ctx.work, "hosts")
        open(self.plat, "w").write(PLAT)
        open(self.hosts, "w").write("".join("h%d\n" % i for i in range(8)))
        self.smpirun = os.path.join(core.SGBUILD, "smpi_script", "bin", "smpirun")
        libdir = os.environ.get("VERIF_C37_LIBDIR")
        if libdir:
            # experiment knob (as VERIF_C34_LIBDIR): run with another libsimgrid.so (e.g. one relinked with a patched
            # smpi_replay.cpp); smpirun puts its own lib directory first, so use a copy of the script that does not
            txt = open(self.smpirun).read().replace('export LD_LIBRARY_PATH="', 'export LD_LIBRARY_PATH="%s:' % libdir, 1)
            self.smpirun = os.path.join(ctx.work, "smpirun-libdir")
            open(self.smpirun, "w").write(txt)
            os.chmod(self.smpirun, 0o755)

    def base(self, n):
        return [self.smpirun, "-np", str(n), "-platform", self.plat, "-hostfile", self.hosts,
                "--cfg=smpi/simulate-computation:no"]

    def online(self, prog, lines, tag):
        d = os.path.join(self.ctx.work, "case-" + tag)
        shutil.rmtree(d, ignore_errors=True)
        os.makedirs(d)
        script = os.path.join(d, "script.txt")
        open(script, "w").write("\n".join(lines) + "\n")
        tr = os.path.join(d, "ti.txt")
        cmd = self.base(prog["n"]) + ["--log=root.thres:critical", "-trace-ti", "--cfg=tracing/filename:" + tr,
                                      self.h, script]
        try:
            p = core.sh(cmd, timeout=120, env=self.ctx.sg_env(), cwd=d)
        except Exception as e:
            return None, None, "timeout " + str(e)
        if p.returncode != 0:
            return None, None, "rc=%d %s" % (p.returncode, p.stderr[-600:])
        dates = {}
        for l in p.stdout.split("\n"):
            t = l.split()
            if len(t) == 3 and t[0] == "T":
                dates[int(t[1])] = Fraction(float.fromhex(t[2]))
        trace = {}
        for f in open(tr).read().split():
            for l in open(f if os.path.isabs(f) else os.path.join(d, f)):
                t = l.split()
                if len(t) >= 2:
                    trace.setdefault(int(t[0]), []).append(t[1:])
        return dates, trace, tr

    def replay(self, prog, tr):
        cmd = self.base(prog["n"]) + ["--log=smpi_replay.thres:verbose", "--log=smpi_replay.fmt:%a|%.17r|%m%n",
                                      "-replay", tr]
        try:
            p = core.sh(cmd, timeout=120, env=self.ctx.sg_env(), cwd=os.path.dirname(tr))
        except Exception as e:
            return None, "timeout " + str(e)
        if p.returncode != 0:
            return None, "rc=%d %s" % (p.returncode, (p.stdout + p.stderr)[-600:])
        last = {}
        for l in (p.stdout + "\n" + p.stderr).split("\n"):
            t = l.split("|")
            if len(t) >= 3 and t[0].isdigit():
                m = t[2].split()
                if len(m) >= 2 and m[0] == t[0] and m[1] not in ("init", "finalize"):
                    last[int(t[0])] = Fraction(t[1])
        return last, None


def run(ctx):
    ctx.cov["rule"] = ("one evaluation = one TI trace line judged by the Lean grammar, plus one per program for the date "
                       "comparison; non-trivial = generated program (>= 3 steps, 2..8 ranks) whose trace was both "
                       "grammar-checked line by line and replayed with per-rank dates compared")
    ctx.assumptions += [
        "equal sequences of communication calls with equal sizes give equal simulated dates: NOT proved, validated only by "
        "the online-vs-replay comparison on the generated programs (cluster platform, smpi/simulate-computation:no)",
        "number <-> decimal text and Datatype::encode/decode are inverse of each other (exercised, not modelled)",
        "Waitany / Ssend and computation lines are not generated; MPI_Test is generated in two patterns only (one test before "
        "a waitall; polling until success with a (src, dst, tag) that is unique in the program)",
        "date comparison tolerance: 1e-9 relative + 1e-9 s (the configured precision/timing) per call of the rank"]
    ctx.ensure_simgrid(["simgrid", "smpimain", "smpireplaymain"])
    ctx.lean_prove()
    drv = ctx.lean_exe()
    h = ctx.build_harness("harness.c", smpi=True, lang="c")
    if h is None and ctx.broken and ctx.broken[-1].get("kind") == "harness-build":
        # libsimgrid.so of the shared build was being relinked by another check: wait for it and retry once
        ctx.broken.pop()
        ctx.ensure_simgrid()
        h = ctx.build_harness("harness.c", smpi=True, lang="c")
    if not (drv and h):
        return
    R = Runner(ctx, h)
    rng = SplitMix(ctx.seed)
    nprog = 20 if ctx.tier == "quick" else 150
    if ctx.broken:
        nprog *= 10
    corpus = [json.loads(l) for l in open(os.path.join(ctx.pdir, "corpus.txt")) if l.strip() and not l.startswith("#")]
    if ctx.replay:
        progs = [json.load(open(ctx.replay))["case"]["prog"]]
    else:
        # separate class (own stream of the seed, the ordinary programs of a seed stay what they were): several pending
        # requests under one (sender, receiver, tag), waited for one by one -- outside `WfProg` of the Lean theorem on
        # the issued calls, inside the property: judged by the date monitor (and the per-line grammar check)
        nsame = 6 if ctx.tier == "quick" else 40
        if ctx.broken:
            nsame *= 10
        progs = corpus + [gen_prog(rng.fork(i)) for i in range(nprog)] + \
            [gen_samekey_prog(rng.fork(1000000 + i)) for i in range(nsame)]
        if os.environ.get("VERIF_C37_NO_RECV0"):     # experiment knob: drop the programs that reach the known defect
            progs = [p for p in progs if not has_recv0(p)]
    dlines, owners = [], []
    kinds = {}
    nrep = 0
    nsamekey_ok = 0
    for pi, prog in enumerate(progs):
        lines, exp = expand(prog)
        key = KEY_RECV0 if has_recv0(prog) else (KEY_STALE if has_stale(prog) else (
            KEY_OOO if has_out_of_order(prog) else (KEY_SAMEKEY if has_samekey(prog) else None)))
        dates, trace, tr = R.online(prog, lines, "p")
        if dates is None and "loading shared libraries" in str(tr):
            ctx.ensure_simgrid(["simgrid", "smpimain", "smpireplaymain"])    # the shared build was being relinked: wait
            dates, trace, tr = R.online(prog, lines, "p")
        if dates is None:
            ctx.broken.append({"kind": "online-run", "prog": prog, "error": tr})
            continue
        n = prog["n"]
        ok_shape = True
        for r in range(n):
            got = [t for t in trace.get(r, []) if t[0] not in ("init", "finalize")]
            m = match_shape(got, exp[r])
            if m is None:
                ok_shape = False
                ctx.violation("the TI trace of rank %d does not list the calls the program issued: %s vs %s"
                              % (r, [g[0] for g in got], [e[0] for e in exp[r]]), {"prog": prog}, key="ti-call-list")
                break
            for name, args, g in m:
                dlines.append("%d %s %s => %s" % (n, name, " ".join(map(str, args)), " ".join(g[1:])))
                owners.append((pi, r))
                kinds[name] = kinds.get(name, 0) + 1
        if not ok_shape:
            continue
        last, err = R.replay(prog, tr)
        if last is None and "loading shared libraries" in err:
            ctx.ensure_simgrid(["simgrid", "smpimain", "smpireplaymain"])
            last, err = R.replay(prog, tr)
        ctx.cov["evaluations"] += 1
        if last is None:
            report(ctx, "replaying the recorded TI trace fails: " + err[-300:], {"prog": prog, "script": lines}, key)
            continue
        bad = []
        for r in range(n):
            if not exp[r]:
                continue
            a, b = dates.get(r), last.get(r)
            # 1e-9 relative, plus one quantum of the configured timing precision (smpirun: precision/timing:1e-9 s)
            # per call of the rank: online and replayed runs differ by < 1e-9 s on some programs
            ncalls = len([t for t in trace.get(r, [])])
            tol = Fraction(1, 10**9) * max(abs(a or 0), abs(b or 0)) + Fraction(ncalls + 1, 10**9)
            if a is None or b is None or abs(a - b) > tol:
                bad.append((r, float(a) if a is not None else None, float(b) if b is not None else None))
        if bad:
            report(ctx, "per-rank completion dates differ between the online run and the replay: %s" % bad[:4],
                   {"prog": prog, "script": lines, "dates": bad}, key)
        else:
            nrep += 1
            ctx.cov["distinct_nontrivial"] += 1
            if has_samekey(prog):
                nsamekey_ok += 1
    rc, verdicts, err = ctx.run_lines([drv], dlines)
    if rc != 0 or not verdicts or verdicts[-1] != "END %d" % len(dlines):
        ctx.broken.append({"kind": "driver-run", "rc": rc, "stderr": err[-2000:]})
        return
    for l, v, (pi, r) in zip(dlines, verdicts, owners):
        ctx.cov["evaluations"] += 1
        if v == "ok":
            ctx.cov["traces_validated_against_impl"] += 1
        elif v.startswith("MONFAIL"):
            toks = l.split(" => ")[0].split()
            k = KEY_RECV0 if (toks[1] in ("gather", "scatter", "alltoall", "allgather") and toks[3] == "0") else None
            ctx.violation("a TI trace line does not read back as the call that was issued: " + v[:300],
                          {"prog": progs[pi], "rank": r, "line": l, "verdict": v}, key=k)
        elif v.startswith("DISAGREE"):
            ctx.violation("the TI writer differs from its model (the line still reads back correctly): " + v[:300],
                          {"prog": progs[pi], "rank": r, "line": l, "verdict": v}, key="ti-writer-model")
        else:
            ctx.broken.append({"kind": "driver-badline", "line": l, "verdict": v})
    ctx.cov["samples"] = dlines[:3] + dlines[40:43]
    ctx.cov["distribution"] = {"trace_lines_by_call": kinds, "programs": len(progs), "programs_replayed_with_equal_dates": nrep,
                               "same_key_programs": len([p for p in progs if has_samekey(p)]),
                               "same_key_programs_replayed_with_equal_dates": nsamekey_ok}
    shutil.rmtree(os.path.join(ctx.work, "case-p"), ignore_errors=True)
