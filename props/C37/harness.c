/* C37 harness: an MPI interpreter for the calls the SMPI trace replayer supports (compiled with smpicc).
 *   harness <script>
 * script lines `<rank|*> <cmd> <args>`; every rank executes the lines addressed to it or to `*`, in file order.
 *   send dst tag count ty | recv src tag count ty | isend dst tag count ty | irecv src tag count ty
 *   wait k (k-th pending request of this rank, oldest first) | waitall
 *   test k (MPI_Test on the k-th pending request; it stays in the list, as MPI_REQUEST_NULL when the test succeeded)
 *   poll k (MPI_Test on the k-th pending request until it succeeds, then drop it from the list)
 *   sendrecv dst src count ty (tags 0) | scan count ty | exscan count ty
 *   barrier | bcast count root ty | reduce count root ty | allreduce count ty
 *   alltoall scount rcount ty | gather scount rcount root ty | scatter scount rcount root ty | allgather scount rcount ty
 *   gatherv scount root ty rc_0..rc_{n-1} | scatterv rcount root ty sc_0..sc_{n-1} | allgatherv scount ty rc_0..rc_{n-1}
 *   alltoallv ty sc_0..sc_{n-1} rc_0..rc_{n-1} | reducescatter ty rc_0..rc_{n-1}
 * ty: i (MPI_INT) d (MPI_DOUBLE) c (MPI_CHAR) b (MPI_BYTE).   Counts are per-rank arguments exactly as given: a rank
 * may pass a different (e.g. 0) count for an argument that MPI ignores on that rank.
 * Before MPI_Finalize every rank prints `T <rank> <MPI_Wtime() as %a>`.
 */
#include <mpi.h>
#include <stdio.h>
#include <stdlib.h>
#include <string.h>

#define MAXTOK 64
#define MAXREQ 64
#define BUFSZ (1 << 22)

static MPI_Datatype ty(const char* s)
{
  switch (s[0]) {
    case 'i': return MPI_INT;
    case 'd': return MPI_DOUBLE;
    case 'c': return MPI_CHAR;
    default: return MPI_BYTE;
  }
}

int main(int argc, char** argv)
{
  MPI_Init(&argc, &argv);
  int rank, size;
  MPI_Comm_rank(MPI_COMM_WORLD, &rank);
  MPI_Comm_size(MPI_COMM_WORLD, &size);
  FILE* f = argc > 1 ? fopen(argv[1], "r") : NULL;
  if (!f) {
    fprintf(stderr, "usage: harness script\n");
    return 3;
  }
  char* sbuf = calloc(BUFSZ, 1);
  char* rbuf = calloc(BUFSZ, 1);
  MPI_Request reqs[MAXREQ];
  int nreq = 0;
  char line[2048];
  int a[MAXTOK], b[MAXTOK], sd[MAXTOK], rd[MAXTOK];
  while (fgets(line, sizeof line, f)) {
    char* tok[MAXTOK];
    int nt = 0;
    for (char* p = strtok(line, " \t\n"); p && nt < MAXTOK; p = strtok(NULL, " \t\n"))
      tok[nt++] = p;
    if (nt < 2 || tok[0][0] == '#')
      continue;
    if (tok[0][0] != '*' && atoi(tok[0]) != rank)
      continue;
    const char* c = tok[1];
    if (!strcmp(c, "send"))
      MPI_Send(sbuf, atoi(tok[4]), ty(tok[5]), atoi(tok[2]), atoi(tok[3]), MPI_COMM_WORLD);
    else if (!strcmp(c, "recv"))
      MPI_Recv(rbuf, atoi(tok[4]), ty(tok[5]), atoi(tok[2]), atoi(tok[3]), MPI_COMM_WORLD, MPI_STATUS_IGNORE);
    else if (!strcmp(c, "isend"))
      MPI_Isend(sbuf, atoi(tok[4]), ty(tok[5]), atoi(tok[2]), atoi(tok[3]), MPI_COMM_WORLD, &reqs[nreq++]);
    else if (!strcmp(c, "irecv"))
      MPI_Irecv(rbuf, atoi(tok[4]), ty(tok[5]), atoi(tok[2]), atoi(tok[3]), MPI_COMM_WORLD, &reqs[nreq++]);
    else if (!strcmp(c, "wait")) {
      int k = atoi(tok[2]);
      if (k < nreq) {
        MPI_Wait(&reqs[k], MPI_STATUS_IGNORE);
        memmove(&reqs[k], &reqs[k + 1], sizeof(MPI_Request) * (nreq - k - 1));
        nreq--;
      }
    } else if (!strcmp(c, "test")) {
      int k = atoi(tok[2]), flag = 0;
      if (k < nreq)
        MPI_Test(&reqs[k], &flag, MPI_STATUS_IGNORE);
    } else if (!strcmp(c, "poll")) {
      int k = atoi(tok[2]), flag = 0;
      if (k < nreq) {
        while (!flag)
          MPI_Test(&reqs[k], &flag, MPI_STATUS_IGNORE);
        memmove(&reqs[k], &reqs[k + 1], sizeof(MPI_Request) * (nreq - k - 1));
        nreq--;
      }
    } else if (!strcmp(c, "sendrecv"))
      MPI_Sendrecv(sbuf, atoi(tok[4]), ty(tok[5]), atoi(tok[2]), 0, rbuf, atoi(tok[4]), ty(tok[5]), atoi(tok[3]), 0,
                   MPI_COMM_WORLD, MPI_STATUS_IGNORE);
    else if (!strcmp(c, "scan"))
      MPI_Scan(sbuf, rbuf, atoi(tok[2]), ty(tok[3]), MPI_MAX, MPI_COMM_WORLD);
    else if (!strcmp(c, "exscan"))
      MPI_Exscan(sbuf, rbuf, atoi(tok[2]), ty(tok[3]), MPI_MAX, MPI_COMM_WORLD);
    else if (!strcmp(c, "waitall")) {
      MPI_Waitall(nreq, reqs, MPI_STATUSES_IGNORE);
      nreq = 0;
    } else if (!strcmp(c, "barrier"))
      MPI_Barrier(MPI_COMM_WORLD);
    else if (!strcmp(c, "bcast"))
      MPI_Bcast(sbuf, atoi(tok[2]), ty(tok[4]), atoi(tok[3]), MPI_COMM_WORLD);
    else if (!strcmp(c, "reduce"))
      MPI_Reduce(sbuf, rbuf, atoi(tok[2]), ty(tok[4]), MPI_MAX, atoi(tok[3]), MPI_COMM_WORLD);
    else if (!strcmp(c, "allreduce"))
      MPI_Allreduce(sbuf, rbuf, atoi(tok[2]), ty(tok[3]), MPI_MAX, MPI_COMM_WORLD);
    else if (!strcmp(c, "alltoall"))
      MPI_Alltoall(sbuf, atoi(tok[2]), ty(tok[4]), rbuf, atoi(tok[3]), ty(tok[4]), MPI_COMM_WORLD);
    else if (!strcmp(c, "gather"))
      MPI_Gather(sbuf, atoi(tok[2]), ty(tok[5]), rbuf, atoi(tok[3]), ty(tok[5]), atoi(tok[4]), MPI_COMM_WORLD);
    else if (!strcmp(c, "scatter"))
      MPI_Scatter(sbuf, atoi(tok[2]), ty(tok[5]), rbuf, atoi(tok[3]), ty(tok[5]), atoi(tok[4]), MPI_COMM_WORLD);
    else if (!strcmp(c, "allgather"))
      MPI_Allgather(sbuf, atoi(tok[2]), ty(tok[4]), rbuf, atoi(tok[3]), ty(tok[4]), MPI_COMM_WORLD);
    else if (!strcmp(c, "gatherv") || !strcmp(c, "allgatherv") || !strcmp(c, "scatterv") ||
             !strcmp(c, "reducescatter") || !strcmp(c, "alltoallv")) {
      int base = !strcmp(c, "gatherv") || !strcmp(c, "scatterv") ? 5 : (c[0] == 'a' && c[3] == 'g' ? 4 : 3);
      for (int i = 0; i < size; i++)
        a[i] = atoi(tok[base + i]);
      sd[0] = 0;
      for (int i = 1; i < size; i++)
        sd[i] = sd[i - 1] + a[i - 1];
      if (!strcmp(c, "gatherv"))
        MPI_Gatherv(sbuf, atoi(tok[2]), ty(tok[4]), rbuf, a, sd, ty(tok[4]), atoi(tok[3]), MPI_COMM_WORLD);
      else if (!strcmp(c, "scatterv"))
        MPI_Scatterv(sbuf, a, sd, ty(tok[4]), rbuf, atoi(tok[2]), ty(tok[4]), atoi(tok[3]), MPI_COMM_WORLD);
      else if (!strcmp(c, "allgatherv"))
        MPI_Allgatherv(sbuf, atoi(tok[2]), ty(tok[3]), rbuf, a, sd, ty(tok[3]), MPI_COMM_WORLD);
      else if (!strcmp(c, "reducescatter"))
        MPI_Reduce_scatter(sbuf, rbuf, a, ty(tok[2]), MPI_MAX, MPI_COMM_WORLD);
      else {
        for (int i = 0; i < size; i++)
          b[i] = atoi(tok[base + size + i]);
        rd[0] = 0;
        for (int i = 1; i < size; i++)
          rd[i] = rd[i - 1] + b[i - 1];
        MPI_Alltoallv(sbuf, a, sd, ty(tok[2]), rbuf, b, rd, ty(tok[2]), MPI_COMM_WORLD);
      }
    } else {
      fprintf(stderr, "bad command %s\n", c);
      exit(3);
    }
  }
  fclose(f);
  printf("T %d %a\n", rank, MPI_Wtime());
  fflush(stdout);
  MPI_Finalize();
  free(sbuf);
  free(rbuf);
  return 0;
}
