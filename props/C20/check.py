"""C20 — isolated activities follow the documented formulas.
Theorems: lean/SgVerif/C20/Props.lean.  Tie: the Lean model of the parameter computation of NetworkCm02Model::communicate,
CpuCas01, DiskS19 and ptask_L07 + the one-variable LMM solution is run against the real kernel (one S4U program per case,
one activity alone on a generated platform); the monitor is the DOCUMENTED formula evaluated on the implementation's
duration (relative tolerance 1e-9)."""
import json
from fractions import Fraction
from vlib.core import SplitMix

KEY_GAMMA = "tcp-gamma-bound-scaled-by-bandwidth-factor"
SMPI_THR = [0, 257, 732, 1426, 3484, 5776, 9376, 15424, 65472]
MANT = ["1", "1.25", "2", "2.5", "3", "5", "7.5", "9.99"]


def num(rng, lo, hi):
    """a decimal literal m*10^e with e uniform in [lo, hi] (orders of magnitude are what matters)"""
    e = rng.range(lo, hi)
    if rng.chance(1, 3):
        m = "%d.%03d" % (rng.range(1, 9), rng.below(1000))
    else:
        m = rng.choice(MANT)
    return "%se%d" % (m, e)


def gen_comm(rng, cls):
    model = rng.choice(["raw", "CM02", "LV08", "SMPI"])
    xt = rng.choice(["d", "d", "0", "1"])
    gamma = rng.choice(["d", "d", "0", num(rng, 3, 9)])
    n = rng.range(1, 8)
    size = str(max(1, int(float(num(rng, 0, 12)))))
    links = []
    homog = rng.chance(1, 4)
    bw0 = num(rng, 3, 14)
    for i in range(n):
        bw = bw0 if homog else num(rng, 3, 14)
        lat = "0" if rng.chance(1, 10) else num(rng, -9, 2)
        pol = rng.choice(["S", "S", "S", "S", "D", "F"])
        links.append([bw, lat, pol])
    if cls == "zero-lat":                       # no latency phase, variable created with penalty 1.0, no gamma bound
        for l in links:
            l[1] = "0"
    elif cls == "smpi-threshold":               # message sizes on both sides of every FactorSet boundary
        model = "SMPI"
        t = rng.choice(SMPI_THR)
        size = str(max(1, t + rng.range(-1, 1)))
    elif cls == "gamma-tie":                    # gamma/(2 lat) close to the bottleneck bandwidth: both branches of the min
        model = rng.choice(["CM02", "LV08", "SMPI"])
        gamma = "d"
        bwf = float(bw0) * rng.choice([0.5, 0.9, 0.97, 1.0, 1.03, 1.05, 1.1, 2.0])
        lat = 4194304.0 / (2.0 * bwf)
        n = rng.range(1, 4)
        links = [[bw0, "%.6e" % (lat / n), rng.choice(["S", "S", "D"])] for _ in range(n)]
    elif cls == "balanced":                     # latency phase and data phase of comparable length
        n = rng.range(1, 8)
        bw = float(bw0)
        dt = float(size) / bw
        lat = max(dt * float(rng.choice(["0.01", "0.1", "1", "10"])), 1e-9)
        links = [[bw0 if i == 0 else num(rng, 3, 14), "%.6e" % (lat / n), rng.choice(["S", "S", "D", "F"])] for i in range(n)]
        links[0][0] = bw0
    return "comm %s %s %s %s %d %s" % (model, xt, gamma, size, len(links), " ".join(" ".join(l) for l in links))


def gen_case(rng):
    k = rng.below(20)
    if k < 11:
        cls = ["plain", "plain", "plain", "plain", "zero-lat", "smpi-threshold", "smpi-threshold", "gamma-tie", "gamma-tie",
               "balanced", "balanced"][k]
        return cls, gen_comm(rng, cls)
    if k < 14:
        speed = num(rng, 3, 14)
        cores = rng.range(1, 8)
        flops = num(rng, 0, 15)
        threads = rng.choice([1, 1, 1, rng.range(1, cores), cores, cores + rng.range(1, 3)])
        b = rng.below(4)
        bound = "0" if b < 2 else ("%.6e" % (float(speed) * (0.3 if b == 2 else 2.5)))
        return "exec", "exec %s %d %s %d %s" % (speed, cores, flops, threads, bound)
    if k < 15:
        d = rng.choice([num(rng, -9, 6), num(rng, -9, 6), "1e-9", "9.99e-10", num(rng, -13, -10)])
        return "sleep", "sleep %s" % d
    if k < 17:
        return "io", "io %s %s %d %s" % (num(rng, 3, 12), num(rng, 3, 12), max(1, int(float(num(rng, 0, 12)))), rng.choice("RW"))
    n = rng.range(1, 6)
    parts = []
    for i in range(n):
        fl = "0" if (n > 1 and i > 0 and rng.chance(1, 6)) else num(rng, 0, 15)
        parts.append("%s %d %s" % (num(rng, 3, 14), rng.range(1, 8), fl))
    return "ptask", "ptask %d %s" % (n, " ".join(parts))


def frac(tok):
    f = Fraction(float(tok))
    return "%d/%d" % (f.numerator, f.denominator)


def canon(line):
    """decimal literals of the query and hexfloat answers -> exact rationals p/q of the doubles the kernel saw"""
    q, a = line.split(" =>", 1)
    t = q.split()
    kind = t[0]
    if kind == "comm":
        out = t[:3] + [t[3] if t[3] == "d" else frac(t[3]), t[4], t[5]]
        for i in range(6, len(t), 3):
            out += [frac(t[i]), frac(t[i + 1]), t[i + 2]]
    elif kind == "exec":
        out = [kind, frac(t[1]), t[2], frac(t[3]), t[4], frac(t[5])]
    elif kind == "sleep":
        out = [kind, frac(t[1])]
    elif kind == "io":
        out = [kind, frac(t[1]), frac(t[2]), t[3], t[4]]
    elif kind == "ptask":
        out = t[:2]
        for i in range(2, len(t), 3):
            out += [frac(t[i]), t[i + 1], frac(t[i + 2])]
    else:
        out = t
    at = a.split()
    if at and at[0] != "error":
        at = ["%d/%d" % (Fraction(float.fromhex(x)).numerator, Fraction(float.fromhex(x)).denominator) for x in at]
    return " ".join(out) + " => " + " ".join(at)


def run_parallel(ctx, h, queries, jobs=8):
    """each case is a forked child with its own Engine (~0.1-0.3 s): spread contiguous chunks over a few processes"""
    from concurrent.futures import ThreadPoolExecutor
    k = max(1, min(jobs, len(queries) // 8))
    size = (len(queries) + k - 1) // k
    chunks = [queries[i:i + size] for i in range(0, len(queries), size)]
    with ThreadPoolExecutor(max_workers=k) as ex:
        res = list(ex.map(lambda c: ctx.run_lines([h], c, timeout=3000), chunks))
    out, err, rc = [], "", 0
    for r, o, e in res:
        rc = rc or r
        out += o
        err += e
    return rc, out, err


def run(ctx):
    ctx.cov["rule"] = ("one isolated activity per case (comm over 1..8 links x raw/CM02/LV08/SMPI x crosstraffic x TCP-gamma, "
                       "exec, sleep, io, pure-compute ptask), parameters m*10^e over 12+ orders of magnitude drawn from "
                       "splitmix64(VERIF_SEED) + planted classes (zero latency, SMPI factor thresholds +-1, gamma/(2 lat) at the "
                       "bottleneck bandwidth, balanced latency/data phases); non-trivial = distinct query for which the kernel "
                       "returned a finish date")
    ctx.assumptions += ["floating-point rounding of the kernel is not modelled: durations compared at relative 1e-9",
                        "the network configuration defaults (factor tables, weight-S, TCP-gamma) are transcribed into the model; "
                        "each is exercised against the kernel by the correspondence"]
    ctx.ensure_simgrid(["simgrid"])
    ctx.lean_prove()
    drv = ctx.lean_exe()
    h = ctx.build_harness("harness.cpp")
    if not (drv and h):
        return
    n = 400 if ctx.tier == "quick" else 4000
    if ctx.broken:
        n *= 10
    corpus = [l.strip() for l in open(ctx.pdir + "/corpus.txt") if l.strip() and not l.startswith("#")]
    classes = {}
    if ctx.replay:
        queries = [json.load(open(ctx.replay))["case"]["query"]]
    else:
        rng = SplitMix(ctx.seed)
        queries = list(corpus)
        for i in range(n):
            cls, q = gen_case(rng.fork(i))
            classes[cls] = classes.get(cls, 0) + 1
            queries.append(q)
    rc, out, err = run_parallel(ctx, h, queries)
    if rc != 0 or len(out) != len(queries):
        ctx.broken.append({"kind": "harness-run", "rc": rc, "stderr": err[-2000:], "lines": len(out)})
        return
    try:
        cout = [canon(l) for l in out]
    except Exception as ex:                     # noqa
        ctx.broken.append({"kind": "canon", "error": repr(ex)})
        return
    rc, verdicts, err = ctx.run_lines([drv], cout)
    if rc != 0 or not verdicts or verdicts[-1] != "END %d" % len(cout):
        ctx.broken.append({"kind": "driver-run", "rc": rc, "stderr": err[-2000:]})
        return
    seen = set()
    branches = {"gamma-binding-doc-differs": 0, "impl-error": 0}
    for q, l, v in zip(queries, out, verdicts):
        ctx.cov["evaluations"] += 1
        if q not in seen and "=> error" not in l:
            seen.add(q)
            ctx.cov["distinct_nontrivial"] += 1
        if "=> error" in l:
            branches["impl-error"] += 1
        if v == "ok":
            ctx.cov["traces_validated_against_impl"] += 1
        elif v.startswith("MONFAIL"):
            key = v.rsplit("key=", 1)[-1].strip()
            if key == KEY_GAMMA:
                branches["gamma-binding-doc-differs"] += 1
                ctx.cov["traces_validated_against_impl"] += 1      # the model (= the code's formula) agreed
                ctx.violation("comm alone: duration differs from the documented lat*lf + s/min(bw*bf, gamma/(2 lat)): the code "
                              "multiplies the TCP-gamma bound by the bandwidth factor. " + v[:200],
                              {"query": q, "impl": l, "verdict": v}, key=KEY_GAMMA)
            else:
                ctx.violation("isolated activity does not take the documented time: " + v[:300],
                              {"query": q, "impl": l, "verdict": v}, key=None)
        else:
            # model and kernel differ while the documented formula holds on the kernel's answer (or no documented
            # formula applies to this input): the correspondence is broken, not (yet) the property
            ctx.broken.append({"kind": "correspondence", "query": q, "impl": l, "verdict": v[:400]})
    ctx.cov["samples"] = out[:2] + out[len(corpus):len(corpus) + 4]
    ctx.cov["distribution"] = classes
    ctx.cov["branches"] = branches
