// C20 harness: one isolated activity per case on a generated platform, run by the REAL simgrid kernel.
// stdin: one case per line; stdout: `<case> => <start %a> <finish %a>` (or `=> error <what>`).
// Each case runs in a forked child (the network model / config can be chosen only once per process).
//   comm <raw|CM02|LV08|SMPI> <xt:0|1|d> <gamma:num|d> <size> <n> {<bw> <lat> <S|D|F>}xn
//        symmetric route h1 -> h2 over n links (S shared: same constraint both ways; D split-duplex: UP forward,
//        DOWN back; F fatpipe).  `d` = keep the model's default.
//   exec <speed> <cores> <flops> <threads> <bound>      (bound <= 0: none)
//   sleep <d>
//   io <read_bw> <write_bw> <size> <R|W>
//   ptask <n> {<speed> <cores> <flops>}xn               (host/model:ptask_L07, no communication)
#include <simgrid/s4u.hpp>
#include <cstdio>
#include <iostream>
#include <sstream>
#include <string>
#include <sys/wait.h>
#include <unistd.h>
#include <vector>

namespace sg4 = simgrid::s4u;

static int run_case(const std::string& line)
{
  std::istringstream in(line);
  std::string kind;
  in >> kind;
  std::vector<std::string> args = {"c20", "--log=root.thres:critical"};
  std::string model, xt, gamma;
  if (kind == "comm") {
    in >> model >> xt >> gamma;
    args.push_back("--cfg=network/model:" + model);
    if (xt != "d")
      args.push_back("--cfg=network/crosstraffic:" + xt);
    if (gamma != "d")
      args.push_back("--cfg=network/TCP-gamma:" + gamma);
  } else if (kind == "ptask") {
    args.push_back("--cfg=host/model:ptask_L07");
  }
  std::vector<char*> argv;
  for (auto& a : args)
    argv.push_back(a.data());
  argv.push_back(nullptr);
  int argc = (int)args.size();
  sg4::Engine e(&argc, argv.data());
  auto* zone = e.get_netzone_root();
  double t0 = -1, t1 = -1;

  if (kind == "comm") {
    std::string ssize;
    int n;
    in >> ssize >> n;
    unsigned long long size = std::stoull(ssize);
    auto* h1 = zone->add_host("h1", 1e9);
    auto* h2 = zone->add_host("h2", 1e9);
    std::vector<sg4::LinkInRoute> route;
    for (int i = 0; i < n; i++) {
      std::string bw, lat, pol;
      in >> bw >> lat >> pol;
      std::string name = "l" + std::to_string(i);
      if (pol == "D") {
        auto* l = zone->add_split_duplex_link(name, std::stod(bw));
        l->set_latency(std::stod(lat));
        route.emplace_back(l, sg4::LinkInRoute::Direction::UP);
      } else {
        auto* l = zone->add_link(name, std::stod(bw));
        l->set_latency(std::stod(lat));
        if (pol == "F")
          l->set_sharing_policy(sg4::Link::SharingPolicy::FATPIPE);
        route.emplace_back(l);
      }
    }
    zone->add_route(h1, h2, route, true);
    zone->seal();
    h1->add_actor("a", [=, &t0, &t1]() {
      auto c = sg4::Comm::sendto_async(h1, h2, size);
      c->wait();
      t0 = c->get_start_time();
      t1 = c->get_finish_time();
    });
  } else if (kind == "exec") {
    std::string speed, flops, bound;
    int cores, threads;
    in >> speed >> cores >> flops >> threads >> bound;
    auto* h = zone->add_host("h1", std::stod(speed));
    h->set_core_count(cores);
    zone->seal();
    double fl = std::stod(flops), b = std::stod(bound);
    h->add_actor("a", [=, &t0, &t1]() {
      auto x = sg4::this_actor::exec_init(fl);
      if (threads != 1)
        x->set_thread_count(threads);
      if (b > 0)
        x->set_bound(b);
      x->start();
      x->wait();
      t0 = x->get_start_time();
      t1 = x->get_finish_time();
    });
  } else if (kind == "sleep") {
    std::string d;
    in >> d;
    auto* h = zone->add_host("h1", 1e9);
    zone->seal();
    double dd = std::stod(d);
    h->add_actor("a", [=, &t0, &t1]() {
      t0 = sg4::Engine::get_clock();
      sg4::this_actor::sleep_for(dd);
      t1 = sg4::Engine::get_clock();
    });
  } else if (kind == "io") {
    std::string r, w, ssize, op;
    in >> r >> w >> ssize >> op;
    auto* h    = zone->add_host("h1", 1e9);
    auto* disk = h->add_disk("d1", std::stod(r), std::stod(w));
    zone->seal();
    unsigned long long size = std::stoull(ssize);
    h->add_actor("a", [=, &t0, &t1]() {
      auto x = disk->io_init(size, op == "R" ? sg4::Io::OpType::READ : sg4::Io::OpType::WRITE);
      x->start();
      x->wait();
      t0 = x->get_start_time();
      t1 = x->get_finish_time();
    });
  } else if (kind == "ptask") {
    int n;
    in >> n;
    std::vector<sg4::Host*> hosts;
    std::vector<double> flops;
    for (int i = 0; i < n; i++) {
      std::string speed, fl;
      int cores;
      in >> speed >> cores >> fl;
      auto* h = zone->add_host("h" + std::to_string(i), std::stod(speed));
      h->set_core_count(cores);
      hosts.push_back(h);
      flops.push_back(std::stod(fl));
    }
    zone->seal();
    std::vector<double> bytes(n * n, 0.0);
    hosts[0]->add_actor("a", [=, &t0, &t1]() {
      auto x = sg4::this_actor::exec_init(hosts, flops, bytes);
      x->start();
      x->wait();
      t0 = x->get_start_time();
      t1 = x->get_finish_time();
    });
  } else {
    printf("%s => error unknown-kind\n", line.c_str());
    return 0;
  }
  e.run();
  printf("%s => %a %a\n", line.c_str(), t0, t1);
  return 0;
}

int main()
{
  std::string line;
  while (std::getline(std::cin, line)) {
    if (line.empty())
      continue;
    fflush(stdout);
    pid_t pid = fork();
    if (pid == 0) {
      if (not getenv("C20_STDERR")) fclose(stderr);
      int rc = 1;
      try {
        rc = run_case(line);
      } catch (std::exception const& ex) {
        printf("%s => error exception\n", line.c_str());
        rc = 0;
      }
      fflush(stdout);
      _exit(rc);
    }
    int st = 0;
    waitpid(pid, &st, 0);
    if (not(WIFEXITED(st) && WEXITSTATUS(st) == 0)) {
      printf("%s => error crash\n", line.c_str());
      fflush(stdout);
    }
  }
  return 0;
}
