"""C21 — work is conserved and capacity is respected over time.
Theorems: lean/SgVerif/C21/Props.lean over the Full-update fluid model (lean/SgVerif/C21/Model.lean).
Tie: generated concurrent workloads run on the real kernel (props/_shared/fluid/fluid_harness.cpp), sampled at every
Engine::on_time_advance; the Lean driver replays the model's update_remains arithmetic on the sampled rates and evaluates
the property's monitor (monotone remaining, conservation, load <= capacity, equal-execs share)."""
import json
import os
import sys
from fractions import Fraction

from vlib.core import SplitMix

sys.path.insert(0, os.path.join(os.path.dirname(os.path.abspath(__file__)), "..", "_shared", "fluid"))
import gen as G  # noqa: E402

PREC_WORK = "1/100000000000000"      # sg_precision_workamount (1e-5) * sg_precision_timing (1e-9)
PREC_TIMING = "1/1000000000"
CFGS = [("", 1), ("", 1), ("cpu/optim:Full,network/optim:Full", 1), ("cpu/optim:Full,network/optim:Full", 2),
        ("cpu/optim:Full,network/optim:Full,cpu/maxmin-selective-update:yes,network/maxmin-selective-update:yes", 1),
        ("network/model:CM02,network/crosstraffic:0", 1), ("cpu/optim:Full", 1), ("network/optim:Full", 1)]


def query_of(sc):
    q = ["c21", PREC_WORK, PREC_TIMING, "1"]
    for i, (k, cost, res) in sc["acts"].items():
        q += ["ACT", i, k, G.hex_to_rat(G.fx(cost)), ",".join(res) if res else "-"]
    for r in sc["fat"]:
        q += ["RES", r, "F"]
    if sc["eq"]:
        S, n, k = sc["eq"]
        q += ["EQ", G.hex_to_rat(G.fx(S)), str(n), str(k)]
    return " ".join(q)


def make_cases(rng, n):
    cases = []
    for i in range(n):
        r = rng.fork(i)
        # eqdyn (speed changes by pstate / profile under a uniform population of execs) is drawn here, not in the shared
        # generator's default mix (C19 shares it)
        sc = G.gen_scenario(r, klass="eqdyn") if r.chance(1, 4) else G.gen_scenario(r)
        cfg, sample = r.choice(CFGS)
        cases.append({"line": G.scenario_line(sc, cfg, sample), "query": query_of(sc), "klass": sc["klass"],
                      "feats": sorted(sc["feats"]), "cfg": cfg, "index": i})
    return cases


def corpus_cases(pdir):
    cases = []
    for l in open(os.path.join(pdir, "corpus.txt")):
        l = l.strip()
        if not l or l.startswith("#"):
            continue
        q, line = l.split(" @@ ", 1)
        cases.append({"line": line, "query": q, "klass": "corpus", "feats": [], "cfg": "", "index": -1})
    return cases


# classes of the two defects this check found (shared with C19), both fixed in the library (NOTES.md, props/C19/fix_series):
# `classify` only names the class when one regresses, the violation is reported as any other
KEYS = {"noop-penalty": "lazy-noop-penalty-update-drops-heap-entry",
        "bw-latency": "bandwidth-change-during-latency-phase"}


def classify(c, verdict):
    """stable classification keys of the witness classes of the fixed defects (NOTES.md): the failing activity must
    belong to the class, and the symptom must be one the defect produces:
      noop-penalty: the exec never completes / completes late (remaining already 0);
      bw-latency:   the comm never completes / completes late, or progresses while its latency is not paid with a rate the
                    Lazy loop never refreshes (it skips heap type `latency`): work received above the link capacity, or a
                    remaining that does not follow the kernel rate"""
    msg = verdict.split(" => ", 1)[1] if " => " in verdict else verdict
    classes = G.witness_classes(c["line"], c["cfg"])
    if msg.startswith("model="):
        who = msg[len("model="):].split()[0]
        return KEYS["bw-latency"] if "bw-latency" in classes.get(who, set()) else None
    if msg.startswith("work received on "):
        rid = msg.split()[3]
        acts = {}
        toks = c["query"].split()
        for i, t in enumerate(toks):
            if t == "ACT":
                acts[toks[i + 1]] = toks[i + 4].split(",")
        if any("bw-latency" in ks and rid in acts.get(a, []) for a, ks in classes.items()):
            return KEYS["bw-latency"]
        return None
    who = msg.split()[0].rstrip(":")
    wc = classes.get(who, set())
    if "never completed" in msg or "remaining reached 0 at" in msg:
        for k in ("noop-penalty", "bw-latency"):
            if k in wc:
                return KEYS[k]
    return None


def run(ctx):
    ctx.cov["rule"] = ("one case = one generated platform + timed workload (execs with bounds/priorities/threads, comms on shared "
                       "links, I/Os on disks, suspend/resume/bound/priority changes, speed and bandwidth profiles) run under "
                       "Lazy or Full update; non-trivial = distinct case that ran to completion with >= 1 activity of "
                       "positive cost and >= 2 samples")
    ctx.assumptions += ["floating-point rounding is not modelled: sampled doubles are compared with the exact-rational model "
                        "within 1e-9 relative (tolerance lane); the I/O model's byte rounding (rint) is allowed 1 byte per step",
                        "rates are read from the kernel (Action::get_rate) at the end of each step; the LMM solution itself "
                        "is C15/C16's object",
                        "sampling is done from Engine::on_time_advance (maestro context)"]
    ctx.ensure_simgrid(["simgrid"])
    ctx.lean_prove()
    drv = ctx.lean_exe()
    h = G.build_harness(ctx)
    if not (drv and h):
        return
    n = 120 if ctx.tier == "quick" else 1200
    if ctx.broken:
        n *= 10
    if ctx.replay:
        cases = [json.load(open(ctx.replay))["case"]]
    else:
        cases = corpus_cases(ctx.pdir) + make_cases(SplitMix(ctx.seed), n)
    out = G.run_harness(ctx, h, [c["line"] for c in cases])
    if out is None:
        return
    dlines = []
    for c, o in zip(cases, out):
        ans = o.split(" =>", 1)[1] if " =>" in o else " CRASH parse"
        c["impl"] = ans.strip()
        toks = G.canon_tokens(ans)
        if toks is None:
            c["nonfinite"] = True
            toks = ["SKIP"]
        if "CRASH" in ans or "ERR" in ans:
            c["crash"] = True
            toks = ["SKIP"]
        # what the platform DESCRIPTION says about capacities and uniform hosts (never read from the kernel), expanded up
        # to the date at which the run ended
        plat = []
        if toks != ["SKIP"] and len(toks) >= 2 and toks[-2] == "END":
            plat = G.platform_tokens(c["line"], Fraction(toks[-1]))
            c["plat"] = [t for t in plat if t in ("CAP", "EQH")]
        dlines.append(" ".join([c["query"]] + plat) + " => " + " ".join(toks))
    rc, verdicts, err = ctx.run_lines([drv], dlines, timeout=3000)
    if rc != 0 or not verdicts or verdicts[-1] != "END %d" % len(dlines):
        ctx.broken.append({"kind": "driver-run", "rc": rc, "stderr": err[-2000:], "last": verdicts[-1:] if verdicts else None})
        return
    kinds, feats, cfgs = {}, {}, {}
    seen = set()
    ctx.cov["platform_lane"] = {"cases_with_uniform_host": 0, "capacity_timelines": 0}
    for c, v in zip(cases, verdicts):
        ctx.cov["platform_lane"]["cases_with_uniform_host"] += 1 if "EQH" in c.get("plat", []) else 0
        ctx.cov["platform_lane"]["capacity_timelines"] += c.get("plat", []).count("CAP")
        if " => " in v and len(v) > 600:      # the driver echoes the query (long timelines): keep its head and the reason
            v = v.split(" => ", 1)[0][:300] + " ... => " + v.split(" => ", 1)[1]
        ctx.cov["evaluations"] += 1
        kinds[c["klass"]] = kinds.get(c["klass"], 0) + 1
        cfgs[c["cfg"] or "default"] = cfgs.get(c["cfg"] or "default", 0) + 1
        for f in c["feats"]:
            feats[f] = feats.get(f, 0) + 1
        rec = {"line": c["line"], "query": c["query"], "klass": c["klass"], "feats": c["feats"], "cfg": c["cfg"],
               "index": c["index"], "verdict": v, "impl": c["impl"][:4000]}
        if c.get("crash"):
            # the kernel aborted or threw on a well-formed workload: no answer to compare
            ctx.broken.append({"kind": "harness-crash", "line": c["line"], "impl": c["impl"][-300:]})
            continue
        if c.get("nonfinite"):
            ctx.violation("non-finite remaining/rate/load reported", rec, key=None)
            continue
        if v == "ok":
            ctx.cov["traces_validated_against_impl"] += 1
            if c["line"] not in seen and c["impl"].count(" T ") + c["impl"].startswith("T ") >= 2 and "ACT" in c["query"]:
                seen.add(c["line"])
                ctx.cov["distinct_nontrivial"] += 1
        elif v.startswith("MONFAIL"):
            ctx.violation(v[:600], rec, key=classify(c, v))
        else:
            # model and implementation differ while the monitor holds: a regression of a fixed defect class (the work
            # received does not follow the allocated rate = the property fails), else a broken correspondence
            key = classify(c, v)
            if key:
                ctx.violation(v[:600], rec, key=key)
            else:
                ctx.broken.append({"kind": "disagree", "verdict": v[:600], "line": c["line"]})
    ctx.cov["samples"] = [c["line"] for c in cases[:2]] + [c["line"] for c in cases[-2:]]
    ctx.cov["distribution"] = kinds
    ctx.cov["features"] = feats
    ctx.cov["configs"] = cfgs
