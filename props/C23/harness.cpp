// C23 harness: a workload on one host (pstate changes, on/off, multi-core execs) + a comm on one link, with the
// host_energy and link_energy plugins; the consumed energy is sampled at every date at which the simulation does something
// (and a little after), together with the observed load / pstate / on-off.
// stdin: one case per line:  <cores> | <speed per pstate> | <idle:eps:max per pstate (or idle:max)> | <watts_off> |
//                            <link: bw lat idle busy> | <ops>
//   ops (run by a controller actor on another host): s <d> | x <flops> <threads> | p <pstate> | off | on | c <bytes>
// stdout: `<case> => <n> {<tag> <t> <host_energy> <load> <pstate> <on> <link_energy> <link_load>}xn`  (doubles %a; tag e|a)
// Pass 1 (forked child) runs the workload and records every date the clock stops at; pass 2 (another child) runs it
// again with a sampler actor waking up at each of those dates (tag e) and 2^-16 later (tag a).
#include <simgrid/plugins/energy.h>
#include <simgrid/s4u.hpp>
#include <cstdio>
#include <iostream>
#include <sstream>
#include <string>
#include <sys/wait.h>
#include <unistd.h>
#include <vector>

namespace sg4 = simgrid::s4u;
static const double EPS = 1.0 / 65536;

static std::vector<std::string> split(const std::string& s, char c)
{
  std::vector<std::string> out;
  std::string cur;
  for (char ch : s) {
    if (ch == c) {
      out.push_back(cur);
      cur.clear();
    } else
      cur += ch;
  }
  out.push_back(cur);
  return out;
}

static void run_case(const std::string& line, const std::vector<double>* sample_dates, FILE* out)
{
  auto f = split(line, '|');
  std::vector<std::string> args = {"c23", "--log=root.thres:critical", "--cfg=network/model:CM02",
                                   "--cfg=network/crosstraffic:0", "--cfg=network/TCP-gamma:0"};
  std::vector<char*> argv;
  for (auto& a : args)
    argv.push_back(a.data());
  argv.push_back(nullptr);
  int argc = (int)args.size();
  sg4::Engine e(&argc, argv.data());
  sg_host_energy_plugin_init();
  sg_link_energy_plugin_init();
  auto* zone = e.get_netzone_root();

  int cores = std::stoi(f[0]);
  std::vector<double> speeds;
  {
    std::istringstream in(f[1]);
    double s;
    while (in >> s)
      speeds.push_back(s);
  }
  std::string watts;
  {
    std::istringstream in(f[2]);
    std::string w;
    while (in >> w)
      watts += (watts.empty() ? "" : ",") + w;
  }
  double bw, lat;
  std::string lidle, lbusy;
  std::istringstream(f[4]) >> bw >> lat >> lidle >> lbusy;

  auto* h0 = zone->add_host("h0", 1e9);
  h0->set_property("wattage_per_state", "0:0");
  auto* h1 = zone->add_host("h1", speeds);
  h1->set_core_count(cores);
  h1->set_property("wattage_per_state", watts);
  std::string woff;
  std::istringstream(f[3]) >> woff;
  h1->set_property("wattage_off", woff);
  auto* h2 = zone->add_host("h2", 1e9);
  h2->set_property("wattage_per_state", "0:0");
  auto* l = zone->add_link("l", bw);
  l->set_latency(lat);
  l->set_property("wattage_range", lidle + ":" + lbusy);
  zone->add_route(h0, h2, {sg4::LinkInRoute(l)}, true);
  zone->seal();

  std::vector<std::string> ops;
  {
    std::istringstream in(f[5]);
    std::string t;
    while (in >> t)
      ops.push_back(t);
  }
  auto keep = std::make_shared<std::vector<sg4::ActivityPtr>>();
  h0->add_actor("controller", [=]() {
    for (size_t i = 0; i < ops.size(); i++) {
      const std::string& o = ops[i];
      try {
        if (o == "s")
          sg4::this_actor::sleep_for(std::stod(ops[++i]));
        else if (o == "x") {
          double fl = std::stod(ops[++i]);
          int th    = std::stoi(ops[++i]);
          auto x    = sg4::Exec::init()->set_flops_amount(fl)->set_host(h1);
          if (th != 1)
            x->set_thread_count(th);
          x->start();
          keep->push_back(x);
        } else if (o == "p")
          h1->set_pstate(std::stoul(ops[++i]));
        else if (o == "off")
          h1->turn_off();
        else if (o == "on")
          h1->turn_on();
        else if (o == "c") {
          auto c = sg4::Comm::sendto_async(h0, h2, (uint64_t)std::stod(ops[++i]));
          keep->push_back(c);
        }
      } catch (const simgrid::Exception&) {
      }
    }
    for (auto& a : *keep) {
      try {
        a->wait();
      } catch (const simgrid::Exception&) {
      }
    }
  });

  std::vector<double> dates;
  if (sample_dates == nullptr) {
    sg4::Engine::on_time_advance_cb([&dates](double) { dates.push_back(sg4::Engine::get_clock()); });
    e.run();
    for (double d : dates)
      fprintf(out, "%a\n", d);
    return;
  }
  struct Sample {
    char tag;
    double t, he, load, le, lload;
    unsigned long ps;
    int on;
    bool has_e;
  };
  auto samples = std::make_shared<std::vector<Sample>>();
  std::vector<double> sd = *sample_dates;
  h2->add_actor("sampler", [=]() {
    // reading the energy makes the plugin update(): do it only at every 3rd date (and at the end) so that the plugin's own
    // update calls (its signal subscriptions) are what is checked in between; load/pstate/on reads have no side effect
    auto take = [&](char tag, bool energy) {
      Sample s;
      s.tag   = tag;
      s.t     = sg4::Engine::get_clock();
      s.has_e = energy;
      s.load  = h1->get_load();
      s.ps    = h1->get_pstate();
      s.on    = h1->is_on();
      s.lload = l->get_load();
      s.he = s.le = 0;
      if (energy) {
        s.he = sg_host_get_consumed_energy(h1);
        s.le = sg_link_get_consumed_energy(l);
      }
      samples->push_back(s);
      return;
      s.he    = sg_host_get_consumed_energy(h1);
      s.load  = h1->get_load();
      s.ps    = h1->get_pstate();
      s.on    = h1->is_on();
      s.le    = sg_link_get_consumed_energy(l);
      s.lload = l->get_load();
      samples->push_back(s);
    };
    take('e', true); // t = 0: nothing consumed yet; the state is read again at EPS, once the LMM has been solved
    sg4::this_actor::sleep_until(EPS);
    take('a', false);
    for (size_t i = 0; i < sd.size(); i++) {
      sg4::this_actor::sleep_until(sd[i]);
      take('e', false);
      sg4::this_actor::sleep_until(sd[i] + EPS);
      take('a', i % 3 == 2 || i + 1 == sd.size());
    }
  });
  e.run();
  fprintf(out, "%s => %zu", line.c_str(), samples->size());
  for (auto const& s : *samples) {
    if (s.has_e)
      fprintf(out, " %c %a %a %a %lu %d %a %a", s.tag, s.t, s.he, s.load, s.ps, s.on, s.le, s.lload);
    else
      fprintf(out, " %c %a - %a %lu %d - %a", s.tag, s.t, s.load, s.ps, s.on, s.lload);
  }
  fprintf(out, "\n");
}

static bool child(const std::string& line, const std::vector<double>* sd, std::string& result)
{
  int fd[2];
  if (pipe(fd) != 0)
    return false;
  fflush(stdout);
  pid_t pid = fork();
  if (pid == 0) {
    close(fd[0]);
    if (not getenv("C23_STDERR"))
      fclose(stderr);
    FILE* out = fdopen(fd[1], "w");
    try {
      run_case(line, sd, out);
    } catch (std::exception const&) {
      fflush(out);
      _exit(3);
    }
    fflush(out);
    _exit(0);
  }
  close(fd[1]);
  char buf[4096];
  ssize_t n;
  while ((n = read(fd[0], buf, sizeof buf)) > 0)
    result.append(buf, n);
  close(fd[0]);
  int st = 0;
  waitpid(pid, &st, 0);
  return WIFEXITED(st) && WEXITSTATUS(st) == 0;
}

int main()
{
  std::string line;
  while (std::getline(std::cin, line)) {
    if (line.empty())
      continue;
    std::string r1;
    if (not child(line, nullptr, r1)) {
      printf("%s => abort\n", line.c_str());
      fflush(stdout);
      continue;
    }
    std::vector<double> dates;
    {
      std::istringstream in(r1);
      std::string t;
      while (in >> t) {
        double d = strtod(t.c_str(), nullptr);
        if (d > 0 && (dates.empty() || d > dates.back() + 4 * EPS))
          dates.push_back(d);
      }
    }
    std::string r2;
    if (not child(line, &dates, r2))
      printf("%s => abort\n", line.c_str());
    else
      fputs(r2.c_str(), stdout);
    fflush(stdout);
  }
  return 0;
}
