"""C23 — energy accounting integrates the power model.
Theorems: lean/SgVerif/C23/Props.lean.  Tie: generated workloads (pstate changes, on/off, multi-core and competing execs,
one link with comms) run on the real kernel with the host_energy and link_energy plugins; the harness first records every
date at which the simulation does something, then re-runs the workload with a sampler reading the consumed energy, the
load, the pstate and the on/off state at each of these dates and 2^-16 s later.  The Lean driver integrates the power
function (model of get_current_watts_value / LinkEnergy::get_power) over the OBSERVED timeline and compares every
increment (relative 1e-9); it also checks that the reported energy never decreases."""
import json
from fractions import Fraction
from vlib.core import SplitMix


def gen_case(rng):
    cores = rng.choice([1, 1, 2, 4, 8, rng.range(1, 8)])
    nps = rng.range(1, 3)
    base = 2 ** rng.range(10, 24)
    speeds = sorted({base * rng.choice([1, 2, 3, 4]) // 4 for _ in range(nps)}, reverse=True)
    nps = len(speeds)
    ranges = []
    for _ in range(nps):
        idle = rng.range(0, 120)
        eps = idle + rng.range(0, 40)
        mx = eps + rng.range(0, 200)
        ranges.append("%d:%d" % (idle, mx) if rng.chance(1, 4) else "%d:%d:%d" % (idle, eps, mx))
    woff = rng.range(0, 20)
    bw = 2 ** rng.range(10, 24)
    lat = rng.choice(["0", "0.125", "0.5"])
    lidle = rng.range(0, 10)
    lbusy = lidle + rng.range(0, 20)
    ops = []
    on = True
    for _ in range(rng.range(4, 14)):
        k = rng.below(12)
        if k < 4 and on:
            th = rng.choice([1, 1, 1, 2, cores, cores + 1, rng.range(1, cores + 1)])
            ops += ["x", str(speeds[0] * rng.range(1, 32) // 8), str(th)]
        elif k < 6 and nps > 1:
            ops += ["p", str(rng.below(nps))]
        elif k == 6:
            ops += ["off" if on else "on"]
            on = not on
        elif k == 7:
            ops += ["c", str(bw * rng.range(1, 24) // 8)]
        else:
            ops += ["s", str(float(Fraction(rng.range(1, 24), 8)))]
        if rng.chance(1, 2):
            ops += ["s", str(float(Fraction(rng.range(1, 16), 8)))]
    ops += ["s", "1"]
    q = "%d | %s | %s | %d | %d %s %d %d | %s" % (cores, " ".join(map(str, speeds)), " ".join(ranges), woff, bw, lat, lidle,
                                                    lbusy, " ".join(ops))
    cls = "%s%s%s" % ("off " if "off" in ops else "", "pstate " if "p" in ops else "", "comm" if "c" in ops else "")
    return cls.strip() or "exec-only", q


def fr(tok):
    f = Fraction(float(tok))
    return "%d/%d" % (f.numerator, f.denominator)


def canon(line):
    q, a = line.split(" =>", 1)
    f = [x.strip() for x in q.split("|")]
    rng_ = " ".join(":".join(fr(v) for v in r.split(":")) for r in f[2].split())
    out = [f[0], "|", " ".join(fr(x) for x in f[1].split()), "|", rng_, "|", fr(f[3]), "|",
           " ".join(fr(x) for x in f[4].split()), "|", "ops"]
    at = a.split()
    if at and at[0] == "abort":
        return " ".join(out) + " => abort"
    res = [at[0]]
    i = 1
    while i + 7 < len(at) + 0 and i < len(at):
        tag, t, he, load, ps, on, le, ll = at[i:i + 8]
        h = lambda x: x if x == "-" else "%d/%d" % (Fraction(float.fromhex(x)).numerator, Fraction(float.fromhex(x)).denominator)
        res += [tag, h(t), h(he), h(load), ps, on, h(le), h(ll)]
        i += 8
    return " ".join(out) + " => " + " ".join(res)


def run_parallel(ctx, h, queries, jobs=8):
    from concurrent.futures import ThreadPoolExecutor
    k = max(1, min(jobs, len(queries) // 4))
    size = (len(queries) + k - 1) // k
    chunks = [queries[i:i + size] for i in range(0, len(queries), size)]
    with ThreadPoolExecutor(max_workers=k) as ex:
        res = list(ex.map(lambda c: ctx.run_lines([h], c, timeout=3000), chunks))
    out, err, rc = [], "", 0
    for r, o, e in res:
        rc = rc or r
        out += o
        err += e
    return rc, out, err


def run(ctx):
    ctx.cov["rule"] = ("generated workloads on one host (1..8 cores, 1..3 pstates, random wattage_per_state in both formats, "
                       "wattage_off) and one link (wattage_range): async execs (1..cores+1 threads, competing), set_pstate, "
                       "turn_off/turn_on, comms, sleeps, all at dyadic dates; energy/load/pstate/on sampled at every date the "
                       "clock stops at and 2^-16 later; non-trivial = distinct workload with >= 4 sampled dates")
    ctx.assumptions += ["the timeline (load, pstate, on/off) is the one OBSERVED through Host::get_load etc., not recomputed",
                        "energy increments compared at relative 1e-9 of the running total"]
    ctx.ensure_simgrid(["simgrid"])
    ctx.lean_prove()
    drv = ctx.lean_exe()
    h = ctx.build_harness("harness.cpp")
    if not (drv and h):
        return
    n = 160 if ctx.tier == "quick" else 1500
    if ctx.broken:
        n *= 10
    corpus = [l.strip() for l in open(ctx.pdir + "/corpus.txt") if l.strip() and not l.startswith("#")]
    classes = {}
    if ctx.replay:
        queries = [json.load(open(ctx.replay))["case"]["query"]]
    else:
        rng = SplitMix(ctx.seed)
        queries = list(corpus)
        for i in range(n):
            cls, q = gen_case(rng.fork(i))
            classes[cls] = classes.get(cls, 0) + 1
            queries.append(q)
    rc, out, err = run_parallel(ctx, h, queries)
    if rc != 0 or len(out) != len(queries):
        ctx.broken.append({"kind": "harness-run", "rc": rc, "stderr": err[-2000:], "lines": len(out)})
        return
    try:
        cout = [canon(l) for l in out]
    except Exception as ex:                     # noqa
        ctx.broken.append({"kind": "canon", "error": repr(ex)})
        return
    rc, verdicts, err = ctx.run_lines([drv], cout)
    if rc != 0 or not verdicts or verdicts[-1] != "END %d" % len(cout):
        ctx.broken.append({"kind": "driver-run", "rc": rc, "stderr": err[-2000:], "tail": verdicts[-2:]})
        return
    seen = set()
    nsamples = 0
    hits = {}
    for q, l, v in zip(queries, out, verdicts):
        ctx.cov["evaluations"] += 1
        ns = int(l.split("=> ")[1].split()[0]) if "=> abort" not in l else 0
        nsamples += ns
        if q not in seen and ns >= 8:
            seen.add(q)
            ctx.cov["distinct_nontrivial"] += 1
        if v == "ok":
            ctx.cov["traces_validated_against_impl"] += 1
        elif v.startswith("MONFAIL"):
            key = v.rsplit("key=", 1)[-1].strip()
            hits[key] = hits.get(key, 0) + 1
            if key == "link-energy-latency-phase-accounted-at-final-load":
                ctx.cov["traces_validated_against_impl"] += 1          # the host energy was checked to the end and agreed
            ctx.violation("reported energy is not the integral of the power model: " + v[v.find("=>"):][:300],
                          {"query": q, "impl": l[:4000], "verdict": v[:600]},
                          key=key if key == "link-energy-latency-phase-accounted-at-final-load" else None)
        else:
            ctx.broken.append({"kind": "correspondence", "query": q, "impl": l[:600], "verdict": v[:400]})
    ctx.cov["samples"] = [o[:300] for o in out[:1] + out[len(corpus):len(corpus) + 2]]
    ctx.cov["distribution"] = classes
    ctx.cov["sampled_points"] = nsamples
    ctx.cov["monitor_failures_by_key"] = hits
