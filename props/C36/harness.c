/* C36 harness (smpicc): an MPI program with global and static variables in .data and .bss; every rank executes its
 * lines of a generated script.
 *   <rank|*> w <var> <val>     store into variable <var>
 *   <rank|*> r <var>           load it and print `R <rank> <value>`
 *   * barrier | * bcast <root> | * ring (MPI_Sendrecv to the right neighbour) | <a> send <b> / <b> recv <a>
 * variables: 0 g_init (.data int)  1 g_zero (.bss int)  2 s_init (static .data)  3 s_zero (static .bss)
 *            4..7 g_arr[0..3] (.data array)  8..11 s_zarr[0..3] (static .bss array)  12 function-local static
 *            13 g_dbl (.data double, holds integers)
 *   <rank> ws <k> <val> / <rank> rs <k> / <rank> rr <k>   store into sb[k] / print sb[k] / print rb[k] (stack buffers)
 *   <a> gsend <b> <m> [kind] and <b> grecv <a> <m> [kind]   one message with buffers chosen by the two letters of m
 *        (send buffer, receive buffer):  a = g_arr   z = s_zarr   s = the stack buffer (sb to send, rb to receive);
 *        legacy spellings gg = az, gs = as, sg = sz.  So az / za are messages between DIFFERENT globals, aa / zz between
 *        the two ranks' copies of the SAME global, as / zs global -> stack, sa / sz stack -> global.
 *        kind: e (default) MPI_Send of 4 ints — below smpi/send-is-detached-thresh the data is duplicated on the heap by
 *              Request::start at send time (detached send) and the copy callback sees a heap source;
 *              y  MPI_Ssend of 4 ints (never detached: the copy callback reads the user's send buffer);
 *              L  MPI_Send of the WHOLE arrays, NBIG ints = 64 KiB = the default threshold exactly (not detached);
 *              i  MPI_Issend of 4 ints + MPI_Wait (never detached, the sender's slice goes on before the copy).
 * g_arr, s_zarr, sb, rb have NBIG ints; the script sees [0..3] and the LAST element:
 *   variables 14 = g_arr[NBIG-1], 15 = s_zarr[NBIG-1];  ws / rs / rr index 4 = sb / rb[NBIG-1].
 * The script itself lives on the heap; sb / rb are on the stack. */
#include <mpi.h>
#include <stdio.h>
#include <stdlib.h>
#include <string.h>

int g_init = 5;
int g_zero;
static int s_init = 7;
static int s_zero;
#define NBIG 16384 /* NBIG * sizeof(int) = 65536 = default smpi/send-is-detached-thresh: the smallest non-detached MPI_Send */
int g_arr[NBIG] = {1, 2, 3, 4, [NBIG - 1] = 6};
static int s_zarr[NBIG];
#define IDX(k) ((k) < 4 ? (k) : NBIG - 1)
double g_dbl = 9.0;

static int* local_static(void)
{
  static int hidden = 11;
  return &hidden;
}

static void store(int var, int val)
{
  switch (var) {
    case 0: g_init = val; break;
    case 1: g_zero = val; break;
    case 2: s_init = val; break;
    case 3: s_zero = val; break;
    case 12: *local_static() = val; break;
    case 13: g_dbl = val; break;
    case 14: g_arr[NBIG - 1] = val; break;
    case 15: s_zarr[NBIG - 1] = val; break;
    default:
      if (var < 8) g_arr[var - 4] = val;
      else s_zarr[var - 8] = val;
  }
}

static int load(int var)
{
  switch (var) {
    case 0: return g_init;
    case 1: return g_zero;
    case 2: return s_init;
    case 3: return s_zero;
    case 12: return *local_static();
    case 13: return (int)g_dbl;
    case 14: return g_arr[NBIG - 1];
    case 15: return s_zarr[NBIG - 1];
    default: return var < 8 ? g_arr[var - 4] : s_zarr[var - 8];
  }
}

int main(int argc, char** argv)
{
  MPI_Init(&argc, &argv);
  int rank, size;
  MPI_Comm_rank(MPI_COMM_WORLD, &rank);
  MPI_Comm_size(MPI_COMM_WORLD, &size);
  FILE* f = argc > 1 ? fopen(argv[1], "r") : NULL;
  if (!f) {
    fprintf(stderr, "usage: harness script\n");
    return 3;
  }
  char line[256];
  int sb[NBIG], rb[NBIG];
  memset(sb, 0, sizeof sb);
  memset(rb, 0, sizeof rb);
  while (fgets(line, sizeof line, f)) {
    char* tok[8];
    int nt = 0;
    for (char* p = strtok(line, " \t\n"); p && nt < 8; p = strtok(NULL, " \t\n"))
      tok[nt++] = p;
    if (nt < 2 || tok[0][0] == '#')
      continue;
    if (tok[0][0] != '*' && atoi(tok[0]) != rank)
      continue;
    const char* c = tok[1];
    if (!strcmp(c, "w"))
      store(atoi(tok[2]), atoi(tok[3]));
    else if (!strcmp(c, "r")) {
      printf("R %d %d\n", rank, load(atoi(tok[2])));
      fflush(stdout);
    } else if (!strcmp(c, "ws"))
      sb[IDX(atoi(tok[2]))] = atoi(tok[3]);
    else if (!strcmp(c, "rs") || !strcmp(c, "rr")) {
      printf("R %d %d\n", rank, c[1] == 's' ? sb[IDX(atoi(tok[2]))] : rb[IDX(atoi(tok[2]))]);
      fflush(stdout);
    } else if (!strcmp(c, "gsend")) {
      char m       = tok[3][0];
      char kind    = nt > 4 ? tok[4][0] : 'e';
      const int* b = (m == 'g' || m == 'a') ? g_arr : m == 'z' ? s_zarr : sb;
      int peer     = atoi(tok[2]);
      if (kind == 'y')
        MPI_Ssend(b, 4, MPI_INT, peer, 6, MPI_COMM_WORLD);
      else if (kind == 'L')
        MPI_Send(b, NBIG, MPI_INT, peer, 6, MPI_COMM_WORLD);
      else if (kind == 'i') {
        MPI_Request rq;
        MPI_Issend(b, 4, MPI_INT, peer, 6, MPI_COMM_WORLD, &rq);
        MPI_Wait(&rq, MPI_STATUS_IGNORE);
      } else
        MPI_Send(b, 4, MPI_INT, peer, 6, MPI_COMM_WORLD);
    } else if (!strcmp(c, "grecv")) {
      char m    = tok[3][1];
      char kind = nt > 4 ? tok[4][0] : 'e';
      int* b    = (m == 'g' || m == 'z') ? s_zarr : m == 'a' ? g_arr : rb;
      MPI_Recv(b, kind == 'L' ? NBIG : 4, MPI_INT, atoi(tok[2]), 6, MPI_COMM_WORLD, MPI_STATUS_IGNORE);
    }
    else if (!strcmp(c, "barrier"))
      MPI_Barrier(MPI_COMM_WORLD);
    else if (!strcmp(c, "bcast"))
      MPI_Bcast(sb, 4, MPI_INT, atoi(tok[2]), MPI_COMM_WORLD);
    else if (!strcmp(c, "ring"))
      MPI_Sendrecv(sb, 4, MPI_INT, (rank + 1) % size, 3, rb, 4, MPI_INT, (rank + size - 1) % size, 3, MPI_COMM_WORLD,
                   MPI_STATUS_IGNORE);
    else if (!strcmp(c, "send"))
      MPI_Send(sb, 4, MPI_INT, atoi(tok[2]), 5, MPI_COMM_WORLD);
    else if (!strcmp(c, "recv"))
      MPI_Recv(rb, 4, MPI_INT, atoi(tok[2]), 5, MPI_COMM_WORLD, MPI_STATUS_IGNORE);
    else {
      fprintf(stderr, "bad command %s\n", c);
      exit(3);
    }
  }
  fclose(f);
  MPI_Finalize();
  return 0;
}
