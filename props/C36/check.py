"""C36 — Each rank has its own copy of global variables.
Theorems: lean/SgVerif/C36/Props.lean (switch on every resume => private-memory semantics on every interleaving).
Correspondence: props/C36/harness.c (globals and statics in .data and .bss) driven by generated per-rank scripts of
writes / read-backs separated by communication calls that force context switches, 2..8 ranks, under
smpi/privatization mmap and dlopen: every read-back must be the rank's own last write (Lean driver = model + monitor).
Sanity of the harness: with privatization OFF the same programs must show leaks."""
import json
import os
from vlib import core
from vlib.core import SplitMix

PLAT = """<?xml version='1.0'?>
<!DOCTYPE platform SYSTEM "https://simgrid.org/simgrid.dtd">
<platform version="4.1">
  <zone id="AS0" routing="Full">
    <cluster id="c" prefix="h" suffix="" radical="0-7" speed="1Gf" bw="125MBps" lat="50us"/>
  </zone>
</platform>
"""
NVARS = 16
INIT = [5, 0, 7, 0, 1, 2, 3, 4, 0, 0, 0, 0, 11, 9, 6, 0]     # 14 / 15: the LAST element of g_arr / s_zarr (64 KiB arrays)
G_ARR, S_ZARR = [4, 5, 6, 7, 14], [8, 9, 10, 11, 15]
# message buffers (send, receive): a = g_arr, z = s_zarr, s = stack.  DIFFERENT globals, the SAME global, global <-> stack
PAIRS = ["az", "za", "az", "za", "aa", "zz", "as", "zs", "sa", "sz"]
# e: MPI_Send of 4 ints (detached below smpi/send-is-detached-thresh: Request::start duplicates the data at send time)
# y: MPI_Ssend, i: MPI_Issend + Wait (never detached)   L: MPI_Send of the whole 64 KiB array (= the default threshold: not
# detached).  Not detached <=> smpi_comm_copy_buffer_callback reads the user's send buffer itself.
KINDS = ["e", "y", "L", "i", "y", "L"]
LEGACY = {"gg": "az", "gs": "as", "sg": "sz"}


def buf_vars(letter):
    return G_ARR if letter == "a" else S_ZARR if letter == "z" else []


def gen_prog(rng):
    n = rng.range(2, 8)
    lines = []
    glob = rng.chance(1, 2)                               # messages whose buffers are globals / stack accesses observed
    hot = [rng.below(NVARS) for _ in range(3)]            # a few variables everybody fights over
    # a program-wide smpi/send-is-detached-thresh: default (64 KiB), or 16 = the size of the 4-int messages exactly (then
    # plain MPI_Send / Sendrecv / Bcast of 4 ints are NOT detached either), or 17 (4-int messages just below: detached)
    thresh = rng.choice([None, None, 16, 17]) if glob else None
    step = 0
    for _ in range(rng.range(3, 9)):
        step += 1
        order = list(range(n))
        rng.shuffle(order)
        for r in order:
            for _ in range(rng.range(0, 3)):
                v = rng.choice(hot) if rng.chance(2, 3) else rng.below(NVARS)
                if rng.chance(3, 5):
                    lines.append("%d w %d %d" % (r, v, 1000 * (r + 1) + 10 * step + rng.below(10)))
                else:
                    lines.append("%d r %d" % (r, v))
        k = rng.below(5)
        msg = None
        if glob:
            for r in order:
                if rng.chance(1, 3):
                    lines.append("%d ws %d %d" % (r, rng.below(5), 500 * (r + 1) + step))
            k = rng.below(9)
        if k >= 5:                                            # one message with a global on at least one side
            a = rng.below(n)
            b = (a + 1 + rng.below(n - 1)) % n
            m, kind = rng.choice(PAIRS), rng.choice(KINDS)
            # both ranks give the message buffers rank-specific contents first (every cell, the last element included):
            # the receiver's copy of the SEND variable must differ from the sender's, or a copy from the wrong rank's
            # data segment could not be told from the right one
            for r in (a, b):
                for v in buf_vars(m[0]) + (buf_vars(m[1]) if m[1] != m[0] else []):
                    if rng.chance(3, 4):
                        lines.append("%d w %d %d" % (r, v, 1000 * (r + 1) + 10 * step + rng.below(10)))
            lines += ["%d gsend %d %s %s" % (a, b, m, kind), "%d grecv %d %s %s" % (b, a, m, kind)]
            msg = (a, b, m)
        elif k == 0:
            lines.append("* barrier")
        elif k == 1:
            lines.append("* bcast %d" % rng.below(n))
        elif k == 2:
            lines.append("* ring")
        elif k == 3:
            a = rng.below(n)
            b = (a + 1 + rng.below(n - 1)) % n
            lines += ["%d send %d" % (a, b), "%d recv %d" % (b, a)]
        else:
            lines.append("* barrier")
            lines.append("* ring")
        if msg:
            # the property's monitor on this message: the receiver reads back the whole receive buffer (the sender's
            # values) and its own copy of the send variable (unchanged); the sender its copies of both (unchanged)
            a, b, m = msg
            for v in buf_vars(m[1]):
                lines.append("%d r %d" % (b, v))
            if m[1] == "s":
                lines += ["%d rr %d" % (b, k) for k in range(5)]
            for v in (buf_vars(m[0]) if m[0] != m[1] else []):
                lines.append("%d r %d" % (b, v))
            for v in buf_vars(m[0]) + (buf_vars(m[1]) if m[1] != m[0] else []):
                if rng.chance(1, 2):
                    lines.append("%d r %d" % (a, v))
            c = rng.below(n)                                  # and a bystander
            lines += ["%d r %d" % (c, v) for v in buf_vars(m[0]) + buf_vars(m[1]) if rng.chance(1, 3)]
        for r in range(n):
            if rng.chance(1, 2):
                lines.append("%d r %d" % (r, rng.choice(hot)))
            if glob and rng.chance(1, 2):
                lines.append("%d %s %d" % (r, rng.choice(["rs", "rr"]), rng.below(5)))
            if glob and rng.chance(1, 3):
                lines.append("%d r %d" % (r, rng.choice(G_ARR + S_ZARR)))   # g_arr / s_zarr: the message buffers
    for r in range(n):
        for v in hot:
            lines.append("%d r %d" % (r, v))
    p = {"n": n, "lines": lines, "glob": glob}
    if thresh:
        p["thresh"] = thresh
    return p


def prog_query(prog):
    """whole program for the address-level model (Segment.lean): ops in script order"""
    n = prog["n"]
    toks = ["P", str(n), "I"] + [str(v) for v in INIT]
    for l in prog["lines"]:
        t = l.split()
        c = t[1]
        ranks = range(n) if t[0] == "*" else [int(t[0])]
        if c in ("w", "r", "ws", "rs", "rr"):
            for r in ranks:
                toks += [c, str(r)] + t[2:]
        elif c == "gsend":
            m = LEGACY.get(t[3], t[3])
            toks += ["m", t[4] if len(t) > 4 else "e", m[0], m[1], t[0], t[2]]
        elif c == "send":
            toks += ["sr", t[0], t[2]]
        elif c == "bcast":
            toks += ["bc", t[2]]
        elif c == "ring":
            toks += ["ring"]
    return " ".join(toks)


def prog_answer(prog, reads):
    return " ".join("| " + " ".join(reads.get(r, [])) if reads.get(r) else "|" for r in range(prog["n"]))


def rank_query(prog, r):
    toks = [str(r), str(NVARS), "I"] + [str(v) for v in INIT]
    for l in prog["lines"]:
        t = l.split()
        if t[0] != "*" and int(t[0]) == r and t[1] in ("w", "r"):
            toks += t[1:]
        elif t[0] == "*" and t[1] in ("w", "r"):
            toks += t[1:]
    return " ".join(toks)


class Runner:
    def __init__(self, ctx, h):
        self.ctx, self.h = ctx, h
        self.plat = os.path.join(ctx.work, "plat.xml")
        self.hosts = os.path.join(ctx.work, "hosts")
        open(self.plat, "w").write(PLAT)
        open(self.hosts, "w").write("".join("h%d\n" % i for i in range(8)))
        self.smpirun = os.path.join(core.SGBUILD, "smpi_script", "bin", "smpirun")

    def run(self, prog, priv):
        path = os.path.join(self.ctx.work, "script.txt")
        open(path, "w").write("\n".join(prog["lines"]) + "\n")
        cmd = [self.smpirun, "-np", str(prog["n"]), "-platform", self.plat, "-hostfile", self.hosts,
               "--log=root.thres:critical", "--cfg=smpi/simulate-computation:no", "--cfg=smpi/privatization:" + priv]
        if prog.get("thresh"):
            cmd.append("--cfg=smpi/send-is-detached-thresh:%d" % prog["thresh"])
        cmd += [self.h, path]
        for attempt in range(2):
            try:
                p = core.sh(cmd, timeout=120, env=self.ctx.sg_env(), cwd=self.ctx.work)
            except Exception as e:
                return None, str(e)
            if p.returncode != 0 and "loading shared libraries" in p.stderr and attempt == 0:
                self.ctx.ensure_simgrid()
                continue
            break
        if p.returncode != 0:
            return None, "rc=%d %s" % (p.returncode, p.stderr[-500:])
        reads = {}
        for l in p.stdout.split("\n"):
            t = l.split()
            if len(t) == 3 and t[0] == "R":
                reads.setdefault(int(t[1]), []).append(t[2])
        return reads, None


def run(ctx):
    ctx.cov["rule"] = ("one evaluation = one rank of one generated program under one privatization strategy (mmap, dlopen); "
                       "non-trivial = rank that wrote >= 1 and read back >= 2 variables that another rank also wrote")
    ctx.assumptions += ["the C program is fixed (14 global/static variables in .data and .bss, one function-local "
                        "static, one double); what is generated is the per-rank access pattern and the communication "
                        "calls between accesses", "mmap / dlopen themselves are not modelled"]
    ctx.ensure_simgrid(["simgrid", "smpimain"])
    ctx.lean_prove()
    drv = ctx.lean_exe()
    h = ctx.build_harness("harness.c", smpi=True, lang="c")
    if h is None and ctx.broken and ctx.broken[-1].get("kind") == "harness-build":
        ctx.broken.pop()
        ctx.ensure_simgrid()
        h = ctx.build_harness("harness.c", smpi=True, lang="c")
    if not (drv and h):
        return
    R = Runner(ctx, h)
    rng = SplitMix(ctx.seed)
    nprog = 14 if ctx.tier == "quick" else 300
    if ctx.broken:
        nprog *= 10
    corpus = [json.loads(l) for l in open(os.path.join(ctx.pdir, "corpus.txt")) if l.strip() and not l.startswith("#")]
    if ctx.replay:
        c = json.load(open(ctx.replay))["case"]
        progs, strategies = [c["prog"]], [c["privatization"]]
    else:
        progs, strategies = corpus + [gen_prog(rng.fork(i)) for i in range(nprog)], ["mmap", "dlopen"]
    qlines, owners = [], []
    leaks_off = 0
    for pi, prog in enumerate(progs):
        for priv in strategies:
            reads, err = R.run(prog, priv)
            if reads is None:
                ctx.violation("the program does not run under privatization %s: %s" % (priv, err),
                              {"prog": prog, "privatization": priv}, key="privatization-run-fails")
                continue
            if not prog.get("glob"):
                for r in range(prog["n"]):
                    qlines.append(rank_query(prog, r) + " => " + " ".join(reads.get(r, [])))
                    owners.append((pi, priv, r))
            # the whole program against the address-level model (messages may use globals as buffers)
            qlines.append(prog_query(prog) + " => " + prog_answer(prog, reads))
            owners.append((pi, priv, -1))
        if not ctx.replay and pi < 6 and not prog.get("glob"):
            # sanity: the harness can see a leak (privatization off: all ranks share the variables)
            reads, err = R.run(prog, "no")
            if reads is not None:
                off = [rank_query(prog, r) + " => " + " ".join(reads.get(r, [])) for r in range(prog["n"])]
                rc, v, _ = ctx.run_lines([drv], off)
                leaks_off += sum(1 for x in v if x.startswith("MONFAIL"))
    rc, verdicts, err = ctx.run_lines([drv], qlines)
    if rc != 0 or not verdicts or verdicts[-1] != "END %d" % len(qlines):
        ctx.broken.append({"kind": "driver-run", "rc": rc, "stderr": err[-2000:]})
        return
    if not ctx.replay and leaks_off == 0 and any(not p.get("glob") for p in progs[:6]):
        ctx.broken.append({"kind": "sanity", "what": "with privatization off no leak was observed: the harness is blind"})
    strat = {}
    msgs = {}
    for l, v, (pi, priv, r) in zip(qlines, verdicts, owners):
        ctx.cov["evaluations"] += 1
        strat[priv] = strat.get(priv, 0) + 1
        q = l.split(" => ")[0].split()
        if q.count("w") >= 1 and q.count("r") >= 2:
            ctx.cov["distinct_nontrivial"] += 1
        if q[0] == "P":
            th = progs[pi].get("thresh") or 65536
            for i, tk in enumerate(q):
                if tk == "m" and i + 3 < len(q) and q[i + 2] in "azs" and q[i + 3] in "azs" and q[i + 1] in "eyLi":
                    kind, m = q[i + 1], q[i + 2] + q[i + 3]
                    size = 65536 if kind == "L" else 16
                    nd = kind in "yi" or size >= th                 # Request::start: not detached
                    cls = ("same-global" if m[0] == m[1] else "different-globals") if "s" not in m else \
                        ("global-to-stack" if m[1] == "s" else "stack-to-global")
                    k2 = "%s/%s" % (cls, "user-buffer-in-copy-callback" if nd else "detached-heap-copy")
                    msgs[k2] = msgs.get(k2, 0) + 1
        if v == "ok":
            ctx.cov["traces_validated_against_impl"] += 1
        elif v.startswith("MONFAIL"):
            ctx.violation("a rank read a value it did not write under privatization %s: %s" % (priv, v[-300:]),
                          {"prog": progs[pi], "privatization": priv, "rank": r, "line": l}, key=None)
        else:
            ctx.broken.append({"kind": "driver-badline", "line": l[:300], "verdict": v[:200]})
    if not ctx.replay and not msgs.get("different-globals/user-buffer-in-copy-callback"):
        ctx.broken.append({"kind": "sanity", "what": "no non-detached message between two different globals was run: the "
                           "temp copy of smpi_comm_copy_buffer_callback is not exercised"})
    ctx.cov["samples"] = qlines[:2] + qlines[20:22]
    ctx.cov["distribution"] = {"rank_runs_by_strategy": strat, "programs": len(progs),
                               "leaks_seen_with_privatization_off": leaks_off,
                               "messages_with_global_buffers": msgs}
