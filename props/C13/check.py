"""C13 — workflow dependencies are respected.
Theorems: lean/SgVerif/C13/Props.lean (safety for every valid history; all_finish and start date = max(...) for live
histories).  Tie: the real S4U Activity API (and the JSON / DAX loaders) is driven by generated scripts of
add_successor / remove_successor / set_host / set_disk / set_source / set_destination / start calls made before
Engine::run and by a late actor; the Lean driver replays the script on the model, accepting the implementation's choice
for same-date completions, and evaluates the property's monitor on the implementation's signal stream alone."""
import json
import os
from fractions import Fraction
from vlib.core import SplitMix

UNIT = 1024            # durations are multiples of 2^-10 s; every resource runs at 2^20 units/s
DAXF = 4200000000      # loaders.cpp: runtime *= 4200000000.


# ------------------------------------------------------------------ generators
def gen_dag(rng, n, dense):
    """random DAG as a list of edges (a,b) with a before b in a random topological order"""
    order = list(range(n))
    rng.shuffle(order)
    edges = []
    for j in range(1, n):
        for i in range(j):
            if rng.chance(dense, 100 * max(1, j // 3 + 1)):
                edges.append((order[i], order[j]))
    return edges


def gen_durs(rng, n):
    style = rng.below(3)
    if style == 0:      # many ties: same-date completions
        return [rng.choice([256, 512, 1024]) for _ in range(n)]
    if style == 1:
        return [128 * rng.range(1, 16) for _ in range(n)]
    return [rng.range(1, 1 << 13) for _ in range(n)]


def assign_ops(kind, i):
    return ["f:%d" % i, "t:%d" % i] if kind == "C" else ["h:%d" % i]


def place_late(rng, ops, durs, keep_first=0):
    """cut the script: a prefix runs before Engine::run, the rest in an actor at increasing dates"""
    if not ops or rng.chance(1, 4):
        return ops
    cut = rng.range(keep_first, len(ops))
    out = ops[:cut]
    t = 0
    grid = sorted(set(durs)) or [128]
    i = cut
    while i < len(ops):
        # dates: on the 128 grid, on sums of activity durations (collide with completions), or arbitrary
        k = rng.below(4)
        if k == 0:
            t += 128 * rng.range(0, 12)
        elif k == 1:
            t += rng.choice(grid)
        elif k == 2:
            t += rng.range(0, 3000)
        # k == 3: same date again
        out.append("@:%d" % t)
        m = rng.range(1, max(1, (len(ops) - i + 1) // 2 + 1))
        out += ops[i:i + m]
        i += m
    return out


def gen_api(rng, big):
    cls = rng.below(10)
    n = rng.range(1, 30 if big else 12)
    if rng.chance(1, 8):
        n = rng.range(25, 30)
    kinds = [rng.choice("ECI") for _ in range(n)]
    durs = gen_durs(rng, n)
    edges = gen_dag(rng, n, rng.choice([30, 60, 120, 250]))
    head = "api %d %s |" % (n, " ".join("%s:%d" % (k, d) for k, d in zip(kinds, durs)))
    sops = ["s:%d:%d" % e for e in edges]
    rng.shuffle(sops)
    rest = []
    for i in range(n):
        a = assign_ops(kinds[i], i)
        if cls == 9 and rng.chance(1, 6):
            a = a[:-1] if rng.chance(1, 2) else []          # never (fully) assigned
        g = ["g:%d" % i]
        if cls == 9 and rng.chance(1, 6):
            g = []                                          # never started by the user
        if rng.chance(1, 10):
            g = g * 2                                       # start() twice
        if kinds[i] != "C" and rng.chance(1, 12):
            a = a * 2                                       # set_host twice
        rest += a + g
    rng.shuffle(rest)
    tag = "live"
    if cls <= 5:
        # live class: every dependency is declared before the run starts (any order w.r.t. assign/start calls)
        k = rng.range(0, len(rest))
        pre = sops + rest[:k]
        rng.shuffle(pre)
        left = rest[k:]
        ops = place_late(rng, pre + left, durs, keep_first=len(pre))
    elif cls <= 7 or cls == 9:
        # dynamic class: dependencies declared / removed at any time, also by the late actor; self / duplicate edges
        tag = "dynamic"
        extra = []
        for _ in range(rng.range(0, 4)):
            a, b = rng.below(n), rng.below(n)
            extra.append("%s:%d:%d" % (rng.choice("ssr"), a, b))
        if edges and rng.chance(1, 2):
            extra.append("r:%d:%d" % rng.choice(edges))
        ops = sops + rest + extra
        rng.shuffle(ops)
        ops = place_late(rng, ops, durs)
    else:
        # malformed class: unguarded setters, may hit the xbt_asserts of Comm / Io / CommImpl
        tag = "malformed"
        ops = sops + rest
        for _ in range(rng.range(1, 3)):
            i = rng.below(n)
            if kinds[i] == "C":
                ops.append("%s:%d" % (rng.choice(["F!", "T!"]), i))
            elif kinds[i] == "I":
                ops.append("D!:%d" % i)
        rng.shuffle(ops)
        ops = place_late(rng, ops, durs)
    return {"line": head + " " + " ".join(ops), "class": tag, "n": n, "kinds": "".join(kinds)}


def gen_json(rng, work, idx):
    """wfformat file read by create_DAG_from_json + the API calls the loader makes, transcribed"""
    n = rng.range(1, 14)
    kinds, parents, machine = [], [], []
    for i in range(n):
        comp = [j for j in range(i) if kinds[j] == "E"]
        if comp and rng.chance(2, 5):
            kinds.append("C")
            parents.append(sorted(set(rng.choice(comp) for _ in range(rng.range(1, 2)))))
        else:
            kinds.append("E")
            cand = list(range(i))
            parents.append(sorted(set(rng.choice(cand) for _ in range(rng.range(0, 3)))) if cand else [])
        machine.append(rng.chance(1, 2))
    # a transfer with exactly one parent takes its source from that parent's host: the parent needs one
    for i in range(n):
        if kinds[i] == "C" and len(parents[i]) == 1:
            machine[parents[i][0]] = True
    durs = gen_durs(rng, n)
    names = ["%s%02d" % ("c" if kinds[i] == "E" else "t", i) for i in range(n)]
    tasks = []
    for i in range(n):
        t = {"name": names[i], "type": "compute" if kinds[i] == "E" else "transfer", "parents": [names[p] for p in parents[i]]}
        if kinds[i] == "E":
            t["runtimeInSeconds"] = durs[i] * UNIT
        else:
            t["writtenBytes"] = durs[i] * UNIT
        if machine[i]:
            t["machine"] = ("a%d" if kinds[i] == "E" else "b%d") % i
        tasks.append(t)
    path = os.path.join(work, "wf%d.json" % idx)
    with open(path, "w") as fh:
        json.dump({"name": "g", "schemaVersion": "1.4", "workflow": {"tasks": tasks}}, fh)
    # transcription of create_DAG_from_json
    lops, src = [], [-1] * n
    for i in range(n):
        if kinds[i] == "E" and machine[i]:
            lops.append("h:%d" % i)
        if kinds[i] == "C" and len(parents[i]) == 1:
            lops.append("f:%d" % i)
            src[i] = parents[i][0]
    succ = {}
    for i in range(n):
        for p in parents[i]:
            succ.setdefault(names[p], []).append(i)
    for pname in sorted(succ):                       # std::map<std::string, ...>
        for c in succ[pname]:
            lops.append("s:%d:%d" % (names.index(pname), c))
    for i in range(n):                               # comms_destinations (map ordered by address: the calls commute)
        if kinds[i] == "C" and machine[i]:
            lops.append("t:%d" % i)
    for i in range(n):
        if kinds[i] == "E" and not parents[i]:
            lops.append("g:%d" % i)
    ops = []
    for i in range(n):
        if kinds[i] == "E" and not machine[i]:
            ops.append("h:%d" % i)
        if kinds[i] == "C":
            if src[i] < 0:
                ops.append("f:%d" % i)
            if not machine[i]:
                ops.append("t:%d" % i)
        ops.append("g:%d" % i)
    rng.shuffle(ops)
    ops = place_late(rng, ops, durs)
    head = "json:%s %d %s |" % (path, n, " ".join(
        "%s:%d" % (k, d) if s < 0 else "%s:%d:%d" % (k, d, s) for k, d, s in zip(kinds, durs, src)))
    return {"line": head + " " + " ".join(lops) + " || " + " ".join(ops), "class": "json", "n": n, "kinds": "".join(kinds)}


def gen_dax(rng, work, idx):
    """DAX file read by create_DAG_from_DAX + transcription of the loader (root/end tasks, one comm per
    producer-consumer pair, placeholders destroyed)"""
    J = rng.range(1, 7)
    runtime = [rng.range(1, 3) for _ in range(J)]
    nfiles = rng.range(0, 6)
    files = []           # (name, size_units, producer or None, consumers)
    for f in range(nfiles):
        prod = rng.below(J) if rng.chance(2, 3) else None
        lo = 0 if prod is None else prod + 1
        cons = sorted(set(rng.range(lo, J - 1) for _ in range(rng.range(0, 2)))) if lo <= J - 1 else []
        files.append(("f%02d" % f, rng.choice([256, 512, 1024, 2048]), prod, cons))
    ctrl = []
    for c in range(1, J):
        for p in range(c):
            if rng.chance(1, 5):
                ctrl.append((p, c))
    x = ['<?xml version="1.0" encoding="UTF-8"?>', '<adag xmlns="http://pegasus.isi.edu/schema/DAX" version="2.1" count="1" index="0" name="g">']
    for j in range(J):
        x.append('  <job id="%d" namespace="SG" name="job%d" version="1.0" runtime="%d">' % (j, j, runtime[j]))
        for (nm, sz, prod, cons) in files:
            if prod == j:
                x.append('    <uses file="%s" link="output" register="true" transfer="true" optional="false" type="data" size="%d"/>' % (nm, sz * UNIT))
            if j in cons:
                x.append('    <uses file="%s" link="input" register="true" transfer="true" optional="false" type="data" size="%d"/>' % (nm, sz * UNIT))
        x.append('  </job>')
    by_child = {}
    for p, c in ctrl:
        by_child.setdefault(c, []).append(p)
    for c in sorted(by_child):
        x.append('  <child ref="%d">' % c)
        for p in by_child[c]:
            x.append('    <parent ref="%d"/>' % p)
        x.append('  </child>')
    x.append('</adag>')
    path = os.path.join(work, "wf%d.dax" % idx)
    with open(path, "w") as fh:
        fh.write("\n".join(x) + "\n")
    # ---- transcription of create_DAG_from_DAX: dag = [root, jobs..., comms..., end]
    used = [f for f in files if f[2] is not None or f[3]]           # files that appear in some <uses>
    used_sorted = sorted(used, key=lambda f: f[0])                   # std::map<std::string, Comm*>
    comms = []           # (size, pred index in dag or 'root', succ index or 'end')
    root, job0 = 0, 1
    for (nm, sz, prod, cons) in used_sorted:
        if prod is None:
            for c in cons:
                comms.append((sz, root, job0 + c))
        if not cons and prod is not None:
            comms.append((sz, job0 + prod, "end"))
        if prod is not None:
            for c in cons:
                comms.append((sz, job0 + prod, job0 + c))
    n = 2 + J + len(comms)
    end = n - 1
    kinds = ["E"] + ["E"] * J + ["C"] * len(comms) + ["E"]
    durs_amount = [0] + [r * DAXF for r in runtime] + [c[0] * UNIT for c in comms] + [0]
    ph = {f[0]: n + k for k, f in enumerate(used)}                   # placeholders, in order of first use? (indices only)
    lops = ["g:%d" % root, "g:%d" % end]
    # parse phase: jobs in file order; <uses> in the order written above
    for j in range(J):
        lops.append("g:%d" % (job0 + j))
        for (nm, sz, prod, cons) in files:
            if prod == j:
                lops.append("s:%d:%d" % (job0 + j, ph[nm]))
            if j in cons:
                lops.append("s:%d:%d" % (ph[nm], job0 + j))
    for c in sorted(by_child):
        for p in by_child[c]:
            lops.append("s:%d:%d" % (job0 + p, job0 + c))
    k = 0
    for (nm, sz, prod, cons) in used_sorted:
        mine = []
        if prod is None:
            mine += [(root, job0 + c) for c in cons]
        if not cons and prod is not None:
            mine += [(job0 + prod, end)]
        if prod is not None:
            mine += [(job0 + prod, job0 + c) for c in cons]
        for (a, b) in mine:
            ci = job0 + J + k
            lops += ["s:%d:%d" % (a, ci), "s:%d:%d" % (ci, b)]
            k += 1
        lops.append("x:%d" % ph[nm])
    # final pass over `result` (= dag without end): comms start; jobs get connected to root / end
    has_dep = {i: False for i in range(n)}
    has_succ = {i: False for i in range(n)}
    for j in range(J):
        pass
    # dependencies / successors after the previous phases (placeholders are gone)
    for p, c in ctrl:
        has_dep[job0 + c] = True
        has_succ[job0 + p] = True
    for ci, (sz, a, b) in enumerate(comms):
        b = end if b == "end" else b
        has_succ[a] = True
        has_dep[b] = True
    for i in range(1, n - 1):
        if kinds[i] == "C":
            lops.append("g:%d" % i)
        else:
            if not has_dep[i]:
                lops.append("s:%d:%d" % (root, i))
            if not has_succ[i]:
                lops.append("s:%d:%d" % (i, end))
    ops = []
    for i in range(n):
        ops += assign_ops(kinds[i], i)
    rng.shuffle(ops)
    ops = place_late(rng, ops, [1024])
    def units(a):
        f = Fraction(a, 1024)
        return "%d" % f.numerator if f.denominator == 1 else "%d/%d" % (f.numerator, f.denominator)
    head = "dax:%s %d %s |" % (path, n, " ".join("%s:%s" % (k, units(a)) for k, a in zip(kinds, durs_amount)))
    return {"line": head + " " + " ".join(lops) + " || " + " ".join(ops), "class": "dax", "n": n, "kinds": "".join(kinds),
            "amounts": durs_amount}


# ------------------------------------------------------------------ canonicalisation
def canon(line):
    """%a clocks -> p/q; the two on_start signals that Comm::do_start fires for one start -> one"""
    if " => " not in line and not line.endswith(" =>"):
        return line
    q, a = line.split(" =>", 1)
    toks = []
    for t in a.split():
        if t[0] in "SVFE" and "@" in t:
            h, r = t.rsplit("@", 1)
            st = ""
            if ":" in r:
                r, st = r.split(":", 1)
                st = ":" + st
            f = Fraction(float.fromhex(r))
            t = "%s@%d/%d%s" % (h, f.numerator, f.denominator, st)
        elif t[0] == "o" and "@" in t:
            h, r = t.rsplit("@", 1)
            f = Fraction(float.fromhex(r))
            t = "%s@%d/%d" % (h, f.numerator, f.denominator)
        elif t[0] == "D" and t.count(":") >= 7:
            p = t.split(":")
            f = Fraction(float.fromhex(p[3]))
            p[3] = "%d/%d" % (f.numerator, f.denominator)
            t = ":".join(p)
        if toks and t == toks[-1] and t[0] == "S":
            continue
        toks.append(t)
    return q + " => " + " ".join(toks)


def run(ctx):
    ctx.cov["rule"] = ("generated scripts (splitmix64(VERIF_SEED)): random DAGs of 1..30 Exec/Comm/Io with a random "
                       "interleaving of add_successor / setters / start calls before the run and from a late actor "
                       "(classes live, dynamic [late / removed / self / duplicate dependencies], malformed [unguarded "
                       "setters]), plus JSON and DAX files through the loaders; non-trivial = distinct case with at "
                       "least one dependency edge, at least one activity that started, and accepted by the driver")
    ctx.assumptions += ["durations are exact: every activity runs alone on a private 2^20 units/s resource (CM02, no "
                        "TCP gamma, no cross-traffic), amounts are multiples of 2^10: the model's date arithmetic is "
                        "compared exactly with the printed %a clocks",
                        "the order in which same-date completions are reported is taken from the implementation",
                        "loaders: check.py transcribes the API calls the loader makes (python re-implementation of "
                        "create_DAG_from_json / create_DAG_from_DAX); the file syntax itself is not modelled"]
    ctx.ensure_simgrid(["simgrid"])
    ctx.lean_prove()
    drv = ctx.lean_exe()
    h = ctx.build_harness("harness.cpp")
    if not (drv and h):
        return
    quick = ctx.tier == "quick"
    n_api, n_json, n_dax = (200, 40, 30) if quick else (4000, 800, 600)
    if ctx.broken:
        n_api, n_json, n_dax = n_api * 10, n_json * 10, n_dax * 10
    corpus = [l.strip() for l in open(ctx.pdir + "/corpus.txt") if l.strip() and not l.startswith("#")]
    cases = [{"line": l, "class": "corpus"} for l in corpus]
    if ctx.replay:
        cases = [json.load(open(ctx.replay))["case"]["gen"]]
        if cases[0].get("file"):
            with open(cases[0]["line"].split()[0].split(":", 1)[1], "w") as fh:
                fh.write(cases[0]["file"])
    else:
        rng = SplitMix(ctx.seed)
        for i in range(n_api):
            cases.append(gen_api(rng.fork(i), big=(i % 3 == 0)))
        for i in range(n_json):
            cases.append(gen_json(rng.fork(100000 + i), ctx.work, i))
        for i in range(n_dax):
            cases.append(gen_dax(rng.fork(200000 + i), ctx.work, i))
    lines = [c["line"] for c in cases]
    # one process per case inside the harness (0.25 s each): run a few harness instances side by side
    from concurrent.futures import ThreadPoolExecutor
    W = 4 if quick else 6
    chunks = [lines[i::W] for i in range(W)]
    with ThreadPoolExecutor(W) as ex:
        res = list(ex.map(lambda ch: ctx.run_lines([h], ch, timeout=3000) if ch else (0, [], ""), chunks))
    out = [None] * len(lines)
    for w, (rc, o, err) in enumerate(res):
        if rc != 0 or len(o) != len(chunks[w]):
            ctx.broken.append({"kind": "harness-run", "rc": rc, "stderr": err[-2000:], "lines": len(o)})
            return
        out[w::W] = o
    out = [canon(l) for l in out]
    rc, verdicts, err = ctx.run_lines([drv], out, timeout=3000)
    if rc != 0 or not verdicts or verdicts[-1] != "END %d" % len(out):
        ctx.broken.append({"kind": "driver-run", "rc": rc, "stderr": err[-2000:], "tail": verdicts[-2:]})
        return
    classes, sizes, seen = {}, {}, set()
    started_total = finished_total = asserts = 0
    for c, l, v in zip(cases, out, verdicts):
        ctx.cov["evaluations"] += 1
        classes[c["class"]] = classes.get(c["class"], 0) + 1
        ans = l.split(" => ", 1)[1] if " => " in l else ""
        toks = ans.split()
        ns = len([t for t in toks if t.startswith("S")])
        started_total += ns
        finished_total += len([t for t in toks if t.startswith("F") and t.endswith(":F")])
        asserts += ans == "assert"
        if "n" in c:
            b = "%d-%d" % (5 * (c["n"] // 5), 5 * (c["n"] // 5) + 4)
            sizes[b] = sizes.get(b, 0) + 1
        rec = dict(c)
        if c["class"] in ("json", "dax"):
            try:
                rec["file"] = open(c["line"].split()[0].split(":", 1)[1]).read()
            except OSError:
                pass
        if v == "ok":
            ctx.cov["traces_validated_against_impl"] += 1
            if c["line"] not in seen and ns > 0 and (" s:" in c["line"]):
                seen.add(c["line"])
                ctx.cov["distinct_nontrivial"] += 1
        elif v.startswith("MONFAIL"):
            ctx.violation(v, {"gen": rec, "impl": l, "verdict": v}, key=None)
        else:
            # the monitor held on this stream: model and implementation differ without a property failure
            ctx.broken.append({"kind": "correspondence", "case": c["line"][:600], "impl": l[-600:], "verdict": v[:600]})
    ctx.cov["distribution"] = {"classes": classes, "sizes": sizes, "activities_started": started_total,
                               "activities_finished": finished_total, "cases_aborting_on_xbt_assert": asserts}
    ctx.cov["samples"] = [o[:400] for o in out[:2] + out[len(corpus):len(corpus) + 2]]
