// C13 harness: builds a workflow of Exec/Comm/Io activities through the real S4U API (or the JSON / DAX loaders),
// each activity on private resources, applies a script of API calls before Engine::run and from a late actor, and
// prints the observation stream (op markers, on_start / on_veto / on_completion signals with the clock in %a).
//
// stdin: one case per line; each case runs in a forked child (one Engine per process; xbt_assert aborts -> "assert").
//   <mode> <n> <K:d>*n | <op>*
//     mode = api | json:<file> | dax:<file>   (loader modes: `| <loader ops> || <op>*`, K:d:<i> = comm leaves from host of i)
//     K    = E (Exec on private host) | C (host-to-host Comm on private hosts+link) | I (Io on private disk)
//     d    = duration in units of 2^-10 s (amount = d * 2^10 on a 2^20 units/s resource); for loader modes the K:d list
//            describes dag[i] as the check expects it (the amount in the file is what counts)
//     op   = s:a:b  a->add_successor(b)        r:a:b  a->remove_successor(b)
//            h:b    Exec::set_host / Io::set_disk      f:b / t:b  Comm::set_source / set_destination
//            g:b    start()                            @:T        following ops run in an actor at date T*2^-10
//            F!:b T!:b D!:b  unguarded set_source / set_destination / set_disk (may hit an xbt_assert)
//          every guarded op first reads get_state(); it is skipped unless the state is INITED or STARTING
//          (s: on the successor b; r: never skipped).
// stdout: `<case> => <tokens>` with tokens
//     o<i>=<c>[x|k]   op i is about to run, state char c of its target (I,G=STARTING,S,X=FAILED,C,F); x = exception,
//                     k = skipped by the guard
//     S<b>@<t>  V<b>@<t>  F<b>@<t>:<c>     on_start, on_veto, on_completion (state char) of activity b at clock t
//     L                                   end of the loader phase, then N<size> and the dump
//                                         D<i>:<c>:<kind>:<amount %a>:<succs,>:<deps,>:<name>:<flags h|s|d|->
//     E@<t>                               Engine::run returned at clock t
#include <simgrid/s4u.hpp>
#include <cstdarg>
#include <cstdio>
#include <fcntl.h>
#include <algorithm>
#include <cstring>
#include <iostream>
#include <map>
#include <sstream>
#include <string>
#include <sys/wait.h>
#include <unistd.h>
#include <vector>
namespace sg4 = simgrid::s4u;

struct Op {
  std::string k;
  int a = -1, b = -1;
  long t = 0;
};
static std::vector<sg4::ActivityPtr> acts;
static std::vector<char> kinds;
static std::map<const sg4::Activity*, int> idx;
static std::vector<sg4::Host*> hostA, hostB;
static std::vector<sg4::Disk*> disks;
static std::string out;
static std::vector<int> srcof; // loader modes: comm i leaves from the host of activity srcof[i]

static char st(const sg4::Activity* a)
{
  switch (a->get_state()) {
    case sg4::Activity::State::INITED: return 'I';
    case sg4::Activity::State::STARTING: return 'G';
    case sg4::Activity::State::STARTED: return 'S';
    case sg4::Activity::State::FAILED: return 'X';
    case sg4::Activity::State::CANCELED: return 'C';
    case sg4::Activity::State::FINISHED: return 'F';
  }
  return '?';
}
static void emit(const char* fmt, ...)
{
  char buf[2048];
  va_list ap;
  va_start(ap, fmt);
  vsnprintf(buf, sizeof buf, fmt, ap);
  va_end(ap);
  out += " ";
  out += buf;
}
static int id_of(const sg4::Activity* a)
{
  auto it = idx.find(a);
  return it == idx.end() ? -1 : it->second;
}
// activities the loaders create and destroy again (DAX file placeholders) are reported by name
static std::string ref_of(const sg4::Activity& a)
{
  int i = id_of(&a);
  return i >= 0 ? std::to_string(i) : "?" + a.get_name();
}
template <class T> static void hook()
{
  T::on_start_cb([](T const& a) { emit("S%s@%a", ref_of(a).c_str(), sg4::Engine::get_clock()); });
  T::on_veto_cb([](T& a) { emit("V%s@%a", ref_of(a).c_str(), sg4::Engine::get_clock()); });
  T::on_completion_cb([](T const& a) { emit("F%s@%a:%c", ref_of(a).c_str(), sg4::Engine::get_clock(), st(&a)); });
}
static bool open_state(char c)
{
  return c == 'I' || c == 'G';
}
static void add_succ(sg4::Activity* a, sg4::ActivityPtr b, bool add)
{
  if (auto* e = dynamic_cast<sg4::Exec*>(a))
    add ? e->add_successor(b) : e->remove_successor(b);
  else if (auto* c = dynamic_cast<sg4::Comm*>(a))
    add ? c->add_successor(b) : c->remove_successor(b);
  else if (auto* io = dynamic_cast<sg4::Io*>(a))
    add ? io->add_successor(b) : io->remove_successor(b);
}
static void do_op(int i, const Op& o)
{
  sg4::Activity* tgt = acts[o.b].get();
  char c             = st(tgt);
  bool guarded       = o.k != "r" && o.k.find('!') == std::string::npos;
  if (guarded && not open_state(c)) {
    emit("o%d=%ck", i, c);
    return;
  }
  emit("o%d=%c", i, c);
  try {
    if (o.k == "s")
      add_succ(acts[o.a].get(), acts[o.b], true);
    else if (o.k == "r")
      add_succ(acts[o.a].get(), acts[o.b], false);
    else if (o.k == "h") {
      if (auto* e = dynamic_cast<sg4::Exec*>(tgt))
        e->set_host(hostA[o.b]);
      else if (auto* io = dynamic_cast<sg4::Io*>(tgt))
        io->set_disk(disks[o.b]);
      else
        out += "?";
    } else if (o.k == "D!")
      static_cast<sg4::Io*>(tgt)->set_disk(disks[o.b]);
    else if (o.k == "f" || o.k == "F!")
      static_cast<sg4::Comm*>(tgt)->set_source(hostA[o.b]);
    else if (o.k == "t" || o.k == "T!")
      static_cast<sg4::Comm*>(tgt)->set_destination(hostB[o.b]);
    else if (o.k == "g")
      tgt->start();
    else
      out += "?";
  } catch (const std::invalid_argument&) {
    out += "x";
  }
}

static std::vector<std::string> split(const std::string& s, char sep)
{
  std::vector<std::string> r;
  std::string cur;
  for (char ch : s)
    if (ch == sep) {
      r.push_back(cur);
      cur.clear();
    } else
      cur += ch;
  r.push_back(cur);
  return r;
}

static int run_case(const std::string& line)
{
  std::istringstream in(line);
  std::string mode;
  int n;
  in >> mode >> n;
  std::vector<long> dur(n);
  kinds.resize(n);
  for (int i = 0; i < n; i++) {
    std::string t;
    in >> t;
    kinds[i] = t[0];
    dur[i]   = std::stol(t.substr(2));
    auto parts = split(t, ':');
    srcof.push_back(parts.size() > 2 ? std::stoi(parts[2]) : -1);
  }
  std::string bar;
  in >> bar;
  std::vector<Op> ops;
  std::string tok;
  while (in >> tok) {
    if (tok == "||") { // loader modes: what precedes is the check's transcription of the loader, for the driver only
      ops.clear();
      continue;
    }
    auto p = split(tok, ':');
    Op o;
    o.k = p[0];
    if (o.k == "@")
      o.t = std::stol(p[1]);
    else if (o.k == "s" || o.k == "r") {
      o.a = std::stoi(p[1]);
      o.b = std::stoi(p[2]);
    } else
      o.b = std::stoi(p[1]);
    ops.push_back(o);
  }

  int argc           = 6;
  const char* argv0[] = {"c13", "--log=root.thres:critical", "--cfg=network/model:CM02", "--cfg=network/TCP-gamma:0",
                         "--cfg=network/crosstraffic:0", "--cfg=network/weight-S:0", nullptr};
  char** argv        = const_cast<char**>(argv0);
  sg4::Engine e(&argc, argv);
  auto* zone = e.get_netzone_root();
  const double R = 1048576.0; // 2^20 units per second everywhere
  hostA.assign(n, nullptr);
  hostB.assign(n, nullptr);
  disks.assign(n, nullptr);
  auto* ah = zone->add_host("actorhost", R);
  for (int i = 0; i < n; i++)
    hostA[i] = zone->add_host("a" + std::to_string(i), R);
  for (int i = 0; i < n; i++) {
    if (kinds[i] == 'C' && srcof[i] >= 0)
      hostA[i] = hostA[srcof[i]];
    if (kinds[i] == 'C') {
      hostB[i]  = zone->add_host("b" + std::to_string(i), R);
      auto* l   = zone->add_link("l" + std::to_string(i), R)->set_latency(0);
      zone->add_route(hostA[i], hostB[i], std::vector<const sg4::Link*>{l});
    }
    if (kinds[i] == 'I')
      disks[i] = hostA[i]->add_disk("d" + std::to_string(i), R, R);
  }
  zone->seal();
  hook<sg4::Exec>();
  hook<sg4::Comm>();
  hook<sg4::Io>();

  if (mode == "api") {
    for (int i = 0; i < n; i++) {
      double amount = (double)dur[i] * 1024.0;
      std::string nm = "n" + std::to_string(i);
      if (kinds[i] == 'E')
        acts.push_back(sg4::Exec::init()->set_name(nm)->set_flops_amount(amount));
      else if (kinds[i] == 'C')
        acts.push_back(sg4::Comm::sendto_init()->set_name(nm)->set_payload_size((uint64_t)amount));
      else
        acts.push_back(sg4::Io::init()->set_name(nm)->set_size((sg_size_t)amount)->set_op_type(sg4::Io::OpType::READ));
      idx[acts.back().get()] = i;
    }
  } else {
    // the loaders run API calls themselves: their signals are part of the stream; placeholders get no index yet
    std::string file = mode.substr(mode.find(':') + 1);
    std::vector<sg4::ActivityPtr> dag =
        mode[0] == 'j' ? sg4::create_DAG_from_json(file) : sg4::create_DAG_from_DAX(file);
    out += " L";
    emit("N%zu", dag.size());
    for (size_t i = 0; i < dag.size(); i++)
      idx[dag[i].get()] = (int)i;
    acts = dag;
    for (size_t i = 0; i < dag.size(); i++) {
      auto* a = dag[i].get();
      char k  = dynamic_cast<sg4::Exec*>(a) ? 'E' : dynamic_cast<sg4::Comm*>(a) ? 'C' : 'I';
      std::string s, d;
      for (auto const& x : a->get_successors())
        s += (s.empty() ? "" : ",") + std::to_string(id_of(x.get()));
      std::vector<int> ds;
      for (auto const& x : a->get_dependencies())
        ds.push_back(id_of(x.get()));
      std::sort(ds.begin(), ds.end());
      for (int x : ds)
        d += (d.empty() ? "" : ",") + std::to_string(x);
      double rem = k == 'E' ? static_cast<sg4::Exec*>(a)->get_remaining() : a->get_remaining();
      std::string fl;
      if (k == 'E' && a->is_assigned())
        fl += "h";
      if (k == 'C' && static_cast<sg4::Comm*>(a)->get_source() != nullptr)
        fl += "s";
      if (k == 'C' && static_cast<sg4::Comm*>(a)->get_destination() != nullptr)
        fl += "d";
      if (fl.empty())
        fl = "-";
      emit("D%zu:%c:%c:%a:%s:%s:%s:%s", i, st(a), k, rem, s.c_str(), d.c_str(), a->get_cname(), fl.c_str());
    }
    if ((int)dag.size() != n) { // the check's expectation of the DAG size is wrong: nothing more can be scripted
      printf("%s\n", out.c_str());
      fflush(stdout);
      return 0;
    }
  }

  size_t i = 0;
  for (; i < ops.size() && ops[i].k != "@"; i++)
    do_op((int)i, ops[i]);
  if (i < ops.size()) {
    size_t first = i;
    ah->add_actor("late", [&ops, first]() {
      for (size_t j = first; j < ops.size(); j++) {
        if (ops[j].k == "@") {
          sg4::this_actor::sleep_until((double)ops[j].t / 1024.0);
          emit("o%zu@%a", j, sg4::Engine::get_clock());
        } else
          do_op((int)j, ops[j]);
      }
    });
  }
  e.run();
  emit("E@%a", sg4::Engine::get_clock());
  printf("%s\n", out.c_str());
  fflush(stdout);
  return 0;
}

int main()
{
  std::string line;
  while (std::getline(std::cin, line)) {
    if (line.empty())
      continue;
    int fd[2];
    if (pipe(fd) != 0)
      return 3;
    fflush(stdout);
    pid_t pid = fork();
    if (pid == 0) {
      close(fd[0]);
      dup2(fd[1], 1);
      int devnull = open("/dev/null", 1);
      dup2(devnull, 2);
      int rc = run_case(line);
      fflush(stdout);
      _exit(rc);
    }
    close(fd[1]);
    std::string res;
    char buf[4096];
    ssize_t k;
    while ((k = read(fd[0], buf, sizeof buf)) > 0)
      res.append(buf, k);
    close(fd[0]);
    int status = 0;
    waitpid(pid, &status, 0);
    while (not res.empty() && (res.back() == '\n'))
      res.pop_back();
    if (WIFSIGNALED(status))
      printf("%s => assert\n", line.c_str());
    else if (WEXITSTATUS(status) != 0)
      printf("%s => exit%d\n", line.c_str(), WEXITSTATUS(status));
    else
      printf("%s =>%s\n", line.c_str(), res.c_str());
    fflush(stdout);
  }
  return 0;
}
