"""C32 — groups and communicators follow MPI rules.
Theorems: lean/SgVerif/C32/Props.lean.  Tie: the model (Model.lean = smpi_group.cpp + the PMPI argument checks + the ordering
loop of Comm::split) is compared with the real MPI_Group_* / MPI_Comm_split / MPI_Comm_create / MPI_Comm_dup called from an MPI
program under smpirun, on worlds of 1..12 ranks with random groups, rank lists, ranges, colours and keys."""
import json
import os
from concurrent.futures import ThreadPoolExecutor

from vlib import core
from vlib.core import SplitMix

UNDEF = -333


def J(xs):
    return " ".join(map(str, xs))


def sub(rng, np_, kind=None):
    """a random group over the world: distinct world ranks in random order"""
    k = rng.below(6) if kind is None else kind
    w = list(range(np_))
    rng.shuffle(w)
    if k == 0:
        return []
    if k == 1:
        return w
    if k == 2:
        return sorted(w[:rng.range(0, np_)])
    return w[:rng.range(0, np_)]


def related(rng, np_, a):
    """second group related to `a`: identical, permuted, subset, superset, disjoint, random"""
    k = rng.below(7)
    if k == 0:
        return list(a)
    if k == 1:
        b = list(a); rng.shuffle(b); return b
    if k == 2:
        b = list(a); rng.shuffle(b); return b[:rng.range(0, len(b))]
    if k == 3:
        rest = [x for x in range(np_) if x not in a]; rng.shuffle(rest)
        b = list(a) + rest[:rng.range(0, len(rest))]
        if rng.below(2): rng.shuffle(b)
        return b
    if k == 4:
        rest = [x for x in range(np_) if x not in a]; rng.shuffle(rest); return rest[:rng.range(0, len(rest))]
    return sub(rng, np_)


def ranks_valid(rng, n):
    r = list(range(n)); rng.shuffle(r)
    k = rng.below(4)
    return [] if k == 0 and rng.below(3) == 0 else r if k == 1 else r[:rng.range(0, n)]


def ranks_bad(rng, n):
    k = rng.below(5)
    r = ranks_valid(rng, n)
    if k == 0 and r:
        r.insert(rng.range(0, len(r)), rng.choice(r))          # duplicate
    elif k == 1:
        r.insert(rng.range(0, len(r)), n)                       # == size
    elif k == 2:
        r.insert(rng.range(0, len(r)), -1)
    elif k == 3:
        r = [rng.range(0, max(n - 1, 0)) for _ in range(n + 1)]  # n > size (hence duplicates)
    else:
        r.insert(rng.range(0, len(r)), rng.choice([n + 5, -7, UNDEF, -666]))
    return r


def terms(f, l, s):
    if s == 0:
        return []
    q = (l - f) // s
    return [f + k * s for k in range(q + 1)] if q >= 0 else []


def ranges_valid(rng, n):
    """non-overlapping valid ranges (positive and negative strides, single-element ranges, strides larger than the span)"""
    out, used = [], set()
    for _ in range(rng.range(0, 4)):
        if n == 0:
            break
        f, l = rng.range(0, n - 1), rng.range(0, n - 1)
        s = rng.range(1, 4) if rng.below(4) else rng.range(1, n + 2)
        if f > l:
            s = -s
        elif f == l and rng.below(2):
            s = -s
        t = terms(f, l, s)
        if used & set(t) or len(out) + 1 > n:
            continue
        used |= set(t)
        out += [f, l, s]
    return out


def ranges_bad(rng, n):
    k = rng.below(6)
    f, l = rng.range(0, max(n - 1, 0)), rng.range(0, max(n - 1, 0))
    if k == 0:
        return [f, l, 0]
    if k == 1:
        return [min(f, l), max(f, l) + (1 if f == l else 0), -1] if n > 1 else [0, 0, 0]
    if k == 2:
        return [max(f, l) + (1 if f == l else 0), min(f, l), 2] if n > 1 else [n, 0, 1]
    if k == 3:
        return [f, n, 1]
    if k == 4:
        return [-1, l, 1]
    r = ranges_valid(rng, n)
    return r + r[:3] if r else [0, 0, 1, 0, 0, 1]              # overlapping (erroneous, undetected): model comparison only


def gen(rng, np_, n):
    qs = []
    for i in range(n):
        k = rng.below(20)
        a = sub(rng, np_)
        if k < 5:
            b = related(rng, np_, a)
            qs.append("%s %s | %s" % (rng.choice(["U", "I", "F"]), J(a), J(b)))
        elif k < 8:
            bad = rng.below(5) == 0
            qs.append("%s %s | %s" % (rng.choice(["N", "X"]), J(a), J(ranks_bad(rng, len(a)) if bad else ranks_valid(rng, len(a)))))
        elif k < 11:
            bad = rng.below(5) == 0
            qs.append("%s %s | %s" % (rng.choice(["RI", "RX"]), J(a), J(ranges_bad(rng, len(a)) if bad else ranges_valid(rng, len(a)))))
        elif k < 13:
            qs.append("C %s | %s" % (J(a), J(related(rng, np_, a))))
        elif k < 15:
            b = related(rng, np_, a)
            r = [rng.choice([-666] + list(range(len(a)))) for _ in range(rng.range(0, 6))] if a else [-666] * rng.below(3)
            if rng.below(6) == 0:
                r.insert(rng.range(0, len(r)), rng.choice([len(a), -1, UNDEF]))
            qs.append("TR %s | %s | %s" % (J(a), J(b), J(r)))
        elif k < 19:
            ncol = rng.range(1, 4)
            colors = [UNDEF if rng.below(6) == 0 else rng.range(0, ncol - 1) * rng.choice([1, 7]) for _ in range(np_)]
            keys = [rng.choice([0, 0, 1, -1, 5, rng.range(-3, 3), rng.range(-100, 100)]) for _ in range(np_)]
            qs.append("SP %s | %s" % (J(colors), J(keys)))
        else:
            qs.append("CC %s" % J(a))
    return [q.strip() for q in qs]


class Runner:
    def __init__(self, ctx, h, drv):
        self.ctx, self.h, self.drv = ctx, h, drv
        w = ctx.work
        self.plat = os.path.join(w, "plat.xml")
        with open(self.plat, "w") as f:
            f.write("<?xml version='1.0'?>\n<!DOCTYPE platform SYSTEM \"https://simgrid.org/simgrid.dtd\">\n<platform version=\"4.1\">\n"
                    "  <cluster id=\"c\" prefix=\"n\" suffix=\"\" radical=\"0-15\" speed=\"1Gf\" bw=\"1GBps\" lat=\"10us\"/>\n</platform>\n")
        self.hosts = os.path.join(w, "hosts")
        with open(self.hosts, "w") as f:
            f.write("".join("n%d\n" % i for i in range(16)))
        self.wrapper = os.environ.get("VERIF_C32_WRAPPER")

    def run(self, np_, queries, tag):
        ctx = self.ctx
        queries = list(dict.fromkeys(queries))
        cf = os.path.join(ctx.work, "cases-%s.txt" % tag)
        with open(cf, "w") as f:
            f.write("\n".join(queries) + "\n")
        cmd = [os.path.join(core.SGBUILD, "smpi_script", "bin", "smpirun")] + (["-wrapper", self.wrapper] if self.wrapper else []) + [
            "-np", str(np_), "-platform", self.plat, "-hostfile", self.hosts, "--log=root.thres:critical",
            "--cfg=smpi/errors-are-fatal:no", self.h, cf]
        rc, out, err = ctx.run_lines(cmd, [], timeout=1500)
        byq = {}
        for l in out:
            if " =>" in l:
                byq[l.split(" =>", 1)[0]] = l
        if rc != 0 or any(q not in byq for q in queries):
            ctx.broken.append({"kind": "harness-run", "np": np_, "rc": rc, "stderr": err[-1500:], "missing": [q for q in queries if q not in byq][:3]})
            return [(q, byq.get(q), None) for q in queries]
        lines = [byq[q] for q in queries]
        rc, verdicts, err = ctx.run_lines([self.drv], lines, timeout=1500)
        if rc != 0 or not verdicts or verdicts[-1] != "END %d" % len(lines):
            ctx.broken.append({"kind": "driver-run", "rc": rc, "stderr": err[-1500:]})
            return [(q, l, None) for q, l in zip(queries, lines)]
        return list(zip(queries, lines, verdicts))


def nontrivial(q, l):
    """a query on at least one non-empty group whose answer is a success with a non-empty result, or a rejected malformed call"""
    t = q.split()
    ans = l.split("=>", 1)[1].split()
    if t[0] in ("SP", "CC"):
        return any(x not in ("|", "-1") for x in ans)
    return len(t) > 2 and (len(ans) > 1 or ans[:1] in (["1"], ["2"]))


def run(ctx):
    ctx.cov["rule"] = ("non-trivial = distinct query involving a non-empty group whose implementation answer is a success with a non-empty "
                       "result (group members / translated ranks / at least one new communicator) or a rejected malformed call")
    ctx.assumptions += ["Group::rank's lookup of the parent actor of an unknown pid is not modelled (rank actors have no parent in a group)",
                        "overlapping ranges given to range_incl/range_excl are erroneous and not detected by the code: compared with the model only",
                        "MPI_Comm_dup / MPI_Comm_create / no message crossing between a communicator and its duplicate: correspondence only (no theorem)"]
    ctx.ensure_simgrid(["simgrid", "smpimain"])
    ctx.lean_prove()
    drv = ctx.lean_exe()
    h = ctx.build_harness("harness.c", smpi=True, lang="c")
    if not (drv and h):
        return
    R = Runner(ctx, h, drv)
    if ctx.replay:
        case = json.load(open(ctx.replay))["case"]
        handle(ctx, R.run(case["np"], [case["query"]], "replay"), case["np"], {})
        return
    per = 250 if ctx.tier == "quick" else 8000
    if ctx.broken:
        per *= 10
    rng = SplitMix(ctx.seed)
    corpus = {}
    for l in open(ctx.pdir + "/corpus.txt"):
        l = l.strip()
        if l and not l.startswith("#"):
            np_, q = l.split(" ", 1)
            corpus.setdefault(int(np_), []).append(q.strip())
    jobs = []
    for np_ in range(1, 13):
        jobs.append((np_, corpus.get(np_, []) + gen(rng.fork(np_), np_, per), "np%d" % np_))
    with ThreadPoolExecutor(max_workers=6) as ex:
        results = list(ex.map(lambda j: (j[0], R.run(*j)), jobs))
    kinds = {}
    for np_, res in results:
        handle(ctx, res, np_, kinds)
    ctx.cov["distribution"] = kinds
    ctx.cov["samples"] = [r[1][:200] for _, res in results[5:7] for r in res[:3] if r[1]]


def handle(ctx, res, np_, kinds):
    for q, l, v in res:
        ctx.cov["evaluations"] += 1
        if v is None:
            continue
        k = q.split()[0]
        kinds[k] = kinds.get(k, 0) + 1
        if v == "ok":
            ctx.cov["traces_validated_against_impl"] += 1
            if nontrivial(q, l):
                ctx.cov["distinct_nontrivial"] += 1
            continue
        case = {"np": np_, "query": q, "impl": l[:1500], "verdict": v[:800]}
        if v.startswith("MONFAIL"):
            ctx.violation(v[:400], case, key=None)
        elif len(ctx.broken) < 40:
            ctx.broken.append({"kind": "correspondence", "case": case})
