/* C32 harness: an MPI program run under smpirun (world size = the case file's np); drives the REAL MPI_Group_* and
 * MPI_Comm_split / MPI_Comm_create / MPI_Comm_dup.  argv[1] = case file (every rank reads it); world rank 0 prints
 * `<query> => <answer>`.  Groups are given as lists of world ranks (built with MPI_Group_incl on the world group) and
 * results are printed as world ranks (MPI_Group_translate_ranks to the world group).  Lists are separated by `|`.
 *   U a | b      union            I a | b   intersection      F a | b   difference        => code members
 *   N a | r      incl(A, r)       X a | r   excl(A, r)                                    => code members
 *   RI a | f l s f l s …  range_incl       RX …  range_excl                               => code members
 *   C a | b      compare  => 0 ident / 1 similar / 2 unequal
 *   TR a | b | r translate_ranks(A, r, B)  => code v…
 *   SP c… | k…   MPI_Comm_split(WORLD, c[me], k[me]) on every rank => per rank `| n newrank size members… cmp r1 r2`
 *                (n = -1: MPI_COMM_NULL; cmp = MPI_Comm_compare(new, dup(new)); r1 r2 = what new rank 1 received on dup
 *                then on new, after new rank 0 sent 1 on new then 2 on dup with the same tag)
 *   CC a         MPI_Comm_create(WORLD, A) on every rank => per rank `| n newrank size members…`
 * codes: 0 success, 1 MPI_ERR_RANK, 2 MPI_ERR_ARG, 99 other */
#include <mpi.h>
#include <stdio.h>
#include <stdlib.h>
#include <string.h>

static int code(int e)
{
  return e == MPI_SUCCESS ? 0 : e == MPI_ERR_RANK ? 1 : e == MPI_ERR_ARG ? 2 : 99;
}
static int lists[4][128], ln[4], nl;
static void parse(char* s)
{
  nl = 0;
  ln[0] = ln[1] = ln[2] = ln[3] = 0;
  char* tok = strtok(s, " ");
  while (tok) {
    if (!strcmp(tok, "|")) {
      nl++;
    } else if (nl < 4 && ln[nl] < 128)
      lists[nl][ln[nl]++] = atoi(tok);
    tok = strtok(NULL, " ");
  }
  nl++;
}
static MPI_Group world;
static MPI_Group mk(int k)
{
  MPI_Group g;
  MPI_Group_incl(world, ln[k], lists[k], &g);
  return g;
}
static void print_group(char* out, MPI_Group g)
{
  int n = 0;
  MPI_Group_size(g, &n);
  int in[128], o[128];
  for (int i = 0; i < n; i++)
    in[i] = i;
  if (n > 0)
    MPI_Group_translate_ranks(g, n, in, world, o);
  for (int i = 0; i < n; i++)
    sprintf(out + strlen(out), " %d", o[i]);
}
static int comm_vals(MPI_Comm nc, int* v, int msgtest)
{
  int n = 0;
  if (nc == MPI_COMM_NULL)
    return -1;
  int nr, ns;
  MPI_Comm_rank(nc, &nr);
  MPI_Comm_size(nc, &ns);
  v[n++] = nr;
  v[n++] = ns;
  MPI_Group g;
  MPI_Comm_group(nc, &g);
  int in[64], o[64];
  for (int i = 0; i < ns; i++)
    in[i] = i;
  MPI_Group_translate_ranks(g, ns, in, world, o);
  for (int i = 0; i < ns; i++)
    v[n++] = o[i];
  MPI_Group_free(&g);
  if (msgtest) {
    MPI_Comm dup;
    MPI_Comm_dup(nc, &dup);
    int cmp = -1, r1 = 0, r2 = 0;
    MPI_Comm_compare(nc, dup, &cmp);
    if (ns >= 2) {
      if (nr == 0) {
        int one = 1, two = 2;
        MPI_Send(&one, 1, MPI_INT, 1, 5, nc);
        MPI_Send(&two, 1, MPI_INT, 1, 5, dup);
      } else if (nr == 1) {
        MPI_Recv(&r1, 1, MPI_INT, 0, 5, dup, MPI_STATUS_IGNORE);
        MPI_Recv(&r2, 1, MPI_INT, 0, 5, nc, MPI_STATUS_IGNORE);
      }
    }
    v[n++] = cmp;
    v[n++] = r1;
    v[n++] = r2;
    MPI_Comm_free(&dup);
  }
  return n;
}

int main(int argc, char** argv)
{
  MPI_Init(&argc, &argv);
  int wr, np;
  MPI_Comm_rank(MPI_COMM_WORLD, &wr);
  MPI_Comm_size(MPI_COMM_WORLD, &np);
  MPI_Comm_group(MPI_COMM_WORLD, &world);
  FILE* f = fopen(argv[1], "r");
  if (!f) {
    MPI_Finalize();
    return 2;
  }
  static char line[8192], copy[8192], out[8192];
  int* all = malloc(sizeof(int) * 40 * np);
  while (fgets(line, sizeof line, f)) {
    size_t L = strlen(line);
    while (L > 0 && (line[L - 1] == '\n' || line[L - 1] == ' '))
      line[--L] = 0;
    if (L == 0)
      continue;
    strcpy(copy, line);
    char* sp = strchr(copy, ' ');
    char kind[8] = {0};
    if (sp) {
      *sp = 0;
      strncpy(kind, copy, 7);
      parse(sp + 1);
    } else {
      strncpy(kind, copy, 7);
      parse(copy + strlen(copy));
    }
    out[0] = 0;
    int collective = !strcmp(kind, "SP") || !strcmp(kind, "CC");
    if (!collective && wr != 0)
      continue;
    if (!strcmp(kind, "U") || !strcmp(kind, "I") || !strcmp(kind, "F")) {
      MPI_Group a = mk(0), b = mk(1), r = MPI_GROUP_NULL;
      int e = kind[0] == 'U' ? MPI_Group_union(a, b, &r) : kind[0] == 'I' ? MPI_Group_intersection(a, b, &r) : MPI_Group_difference(a, b, &r);
      sprintf(out, " %d", code(e));
      if (e == MPI_SUCCESS)
        print_group(out, r);
    } else if (!strcmp(kind, "N") || !strcmp(kind, "X")) {
      MPI_Group a = mk(0), r = MPI_GROUP_NULL;
      int e = kind[0] == 'N' ? MPI_Group_incl(a, ln[1], lists[1], &r) : MPI_Group_excl(a, ln[1], lists[1], &r);
      sprintf(out, " %d", code(e));
      if (e == MPI_SUCCESS)
        print_group(out, r);
    } else if (!strcmp(kind, "RI") || !strcmp(kind, "RX")) {
      MPI_Group a = mk(0), r = MPI_GROUP_NULL;
      int ranges[64][3];
      int n = ln[1] / 3;
      for (int i = 0; i < n; i++)
        for (int j = 0; j < 3; j++)
          ranges[i][j] = lists[1][3 * i + j];
      int e = kind[1] == 'I' ? MPI_Group_range_incl(a, n, ranges, &r) : MPI_Group_range_excl(a, n, ranges, &r);
      sprintf(out, " %d", code(e));
      if (e == MPI_SUCCESS)
        print_group(out, r);
    } else if (!strcmp(kind, "C")) {
      MPI_Group a = mk(0), b = mk(1);
      int res = -1;
      MPI_Group_compare(a, b, &res);
      sprintf(out, " %d", res == MPI_IDENT ? 0 : res == MPI_SIMILAR ? 1 : res == MPI_UNEQUAL ? 2 : 99);
    } else if (!strcmp(kind, "TR")) {
      MPI_Group a = mk(0), b = mk(1);
      int o[128];
      for (int i = 0; i < 128; i++)
        o[i] = -777;
      int e = MPI_Group_translate_ranks(a, ln[2], lists[2], b, o);
      sprintf(out, " %d", code(e));
      if (e == MPI_SUCCESS)
        for (int i = 0; i < ln[2]; i++)
          sprintf(out + strlen(out), " %d", o[i]);
    } else if (collective) {
      MPI_Comm nc = MPI_COMM_NULL;
      int mine[40];
      if (!strcmp(kind, "SP")) {
        MPI_Comm_split(MPI_COMM_WORLD, lists[0][wr], lists[1][wr], &nc);
        mine[0] = comm_vals(nc, mine + 1, 1);
      } else {
        MPI_Group a = mk(0);
        MPI_Comm_create(MPI_COMM_WORLD, a, &nc);
        mine[0] = comm_vals(nc, mine + 1, 0);
      }
      if (nc != MPI_COMM_NULL)
        MPI_Comm_free(&nc);
      MPI_Gather(mine, 40, MPI_INT, all, 40, MPI_INT, 0, MPI_COMM_WORLD);
      if (wr == 0)
        for (int i = 0; i < np; i++) {
          sprintf(out + strlen(out), " | %d", all[40 * i]);
          for (int j = 0; j < all[40 * i]; j++)
            sprintf(out + strlen(out), " %d", all[40 * i + 1 + j]);
        }
    } else {
      sprintf(out, " BADKIND");
    }
    if (wr == 0)
      printf("%s =>%s\n", line, out);
  }
  fflush(stdout);
  fclose(f);
  free(all);
  MPI_Finalize();
  return 0;
}
