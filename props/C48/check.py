import re
"""C48 — configuration flags parse and validate values.
Theorems: lean/SgVerif/C48/Props.lean over the model of src/xbt/config.cpp and the item table *generated from the built
library* on every run (props/C48/gen_config.py -> lean/SgVerif/C48/Gen.lean).  Correspondence: every registered item x
random valid/invalid values of its type through set_as_string, set_parse and Engine::set_config, each call in a forked
child of a process that only created an Engine; read back with get_value<T>."""
import ast
import importlib.util
import json
import os
from fractions import Fraction
from vlib import core
from vlib.core import SplitMix


def hx(s):
    b = s.encode("latin-1") if isinstance(s, str) else s
    return b.hex() or "-"


def unhx(h):
    return "" if h == "-" else bytes.fromhex(h).decode("latin-1")


def load_translator(ctx):
    spec = importlib.util.spec_from_file_location("gen_config", os.path.join(ctx.pdir, "gen_config.py"))
    mod = importlib.util.module_from_spec(spec)
    spec.loader.exec_module(mod)
    return mod


def randcase(rng, s):
    return "".join(c.upper() if rng.chance(1, 3) else c for c in s)


def value_for(rng, ty, valid):
    """(class, text)"""
    if ty == "boolean":
        if valid:
            return "bool-valid", randcase(rng, rng.choice(["yes", "no", "on", "off", "true", "false", "1", "0"]))
        return "bool-invalid", rng.choice(["2", "y", "n", "", "tru", " yes", "yes ", "01", "maybe", "10", "-1", "0.0", "onn", "of", "t", "0x1"])
    if ty == "int":
        if valid:
            k = rng.below(8)
            if k == 0:
                return "int-valid", rng.choice(["0", "1", "-1", str(2**31 - 1), str(-2**31), "017777777777", "0x7fffffff", "-0x80000000"])
            if k == 1:
                return "int-valid", rng.choice(["0x", "0X"]) + "%x" % rng.below(2**31)
            if k == 2:
                return "int-valid", "0%o" % rng.below(2**20)
            if k == 3:
                return "int-valid", rng.choice([" ", "\t", "+", " +", " -", "-"]) + str(rng.below(10**6))
            return "int-valid", str(rng.range(-10**rng.range(1, 9), 10**rng.range(1, 9)))
        return "int-invalid", rng.choice(["", "x", "12x", "1.5", "08", "0x", "0xg", str(2**31), str(-2**31 - 1), str(2**63), str(-2**63 - 1),
                                          str(2**63 - 1), str(-2**63), str(2**64), "1e3", " ", "--1", "1 ", "+-1", "0b1", "09", "1,0", "\xd9\xa3",
                                          str(10**30) + "x", "-" + str(10**30), "0x80000000", "020000000000", "-0x80000001"])
    if ty == "double":
        if valid:
            k = rng.below(8)
            if k == 0:
                return "double-valid", rng.choice(["0", "-0", "1", "0.5", ".5", "5.", "1e3", "1E-3", "inf", "-inf", "nan", "INFINITY", "0x1p-3", "0x10",
                                                   " 2.5", "+7", "1e308", "1e-300", "0x1.8p1"])
            if k <= 3:
                return "double-valid", "%d.%s" % (rng.below(1000), "".join(str(rng.below(10)) for _ in range(rng.range(1, 8))))
            if k <= 5:
                return "double-valid", "%d%s%s%d" % (rng.below(100), rng.choice(["e", "E", ".5e"]), rng.choice(["", "+", "-"]), rng.below(30))
            return "double-valid", str(rng.range(-10**6, 10**6))
        return "double-invalid", rng.choice(["", "x", "1x", "1.5.2", "1e999", "-1e999", "1e-999", "abc", "1 ", "1e", "1e+", "0x", ".", "-", "+", "1,5",
                                             "nan(", "infx", "1.0f", "1e5 ", "--1", "4.9e-324"])
    # string
    if valid:
        return "string-any", rng.choice(["x", "", "abc", "help-not", "a/b", "Cas01", "default", "yes", "0", "TI", "Lazy", "some_value"])
    return "string-any", "".join(rng.choice("abcxyz_-/.019") for _ in range(rng.range(1, 10)))


def bad_names(rng, names):
    n = rng.choice(names)
    return rng.choice(["", "nope", "x/y", n + "x", n[:-1], n.upper(), n.replace("-", "_").replace("/", "_") if "-" in n or "/" in n else n + "_",
                       " " + n, n + "/", "network/", "cfg", n.replace("/", "//")])


def canon(line):
    q, a = line.split(" => ", 1)
    t = a.split()
    if t and t[0] == "ok" and len(t) >= 3 and t[1] == "double":
        rb = unhx(t[2])
        if rb not in ("inf", "-inf", "nan", "-nan"):
            f = Fraction(float.fromhex(rb))
            t[2] = hx("%d/%d" % (f.numerator, f.denominator))
        a = " ".join(t)
    return q + " => " + a


def run_queries(ctx, h, drv, typesfile, queries):
    with open(os.path.join(ctx.work, "last_queries.txt"), "w") as fh:
        fh.write("\n".join(queries) + "\n")
    rc, out, err = ctx.run_lines([h, typesfile], [" ".join(q.split()[:4]) for q in queries], timeout=3000)
    if rc != 0 or len(out) != len(queries):
        ctx.broken.append({"kind": "harness-run", "rc": rc, "stderr": err[-2000:], "lines": len(out)})
        return None, None
    out = [canon(o) for o in out]
    lines = []
    for q, o in zip(queries, out):
        lines.append(q + " => " + o.split(" => ", 1)[1])
    rc, verdicts, err = ctx.run_lines([drv], lines)
    if rc != 0 or not verdicts or verdicts[-1] != "END %d" % len(lines):
        ctx.broken.append({"kind": "driver-run", "rc": rc, "stderr": err[-2000:]})
        return None, None
    return lines, verdicts


def build(ctx, *a, **k):
    """ctx.build_harness, retried once after waiting for the shared simgrid build (another check may be relinking it)"""
    nb = len(ctx.broken)
    h = ctx.build_harness(*a, **k)
    if h is None:
        del ctx.broken[nb:]
        ctx.ensure_simgrid(["simgrid"])
        h = ctx.build_harness(*a, **k)
    return h


def run(ctx):
    ctx.cov["rule"] = ("query = (api, name, value) executed in a forked child of a process that created an Engine; names = every "
                       "registered item and alias + unknown names; values = per-type valid and invalid classes (bool spellings in "
                       "random case; int: decimal/hex/octal/sign/white space/INT and LONG limits; double: decimal/exponent/hex/"
                       "inf/nan/range errors; strings); non-trivial = distinct query on a registered item or alias with a value "
                       "valid for its type that was accepted and read back")
    ctx.assumptions += ["callbacks are not modelled: a rejection of a type-valid value by the item's callback (abort, exit, "
                        "range_error 'invalid value.', another exception) is accepted as a legitimate choice and counted per item",
                        "libc strtod/strtol are specified in the model (Xbt/Strtod.lean, strtol0), not verified",
                        "every query runs from the same initial state (fresh fork): interactions between successive settings are not exercised"]
    ctx.ensure_simgrid(["simgrid"])
    h = build(ctx, "harness.cpp")
    if not h:
        return
    # ---- translate: dump the registered items from the built library
    tr = load_translator(ctx)
    genpath = os.path.join(core.LEAN, "SgVerif", "C48", "Gen.lean")
    accepted = os.path.join(core.LEAN, "SgVerif", "C48", "accepted", "Gen.lean")
    p = core.sh([h, "dump"], env=ctx.sg_env(), timeout=600)
    try:
        items, aliases = tr.parse_dump(p.stdout + p.stderr)
        txt = tr.to_lean(items, aliases)
        if not os.path.exists(genpath) or open(genpath).read() != txt:
            open(genpath, "w").write(txt)
        if os.path.exists(accepted) and open(accepted).read() != txt:
            old, new = open(accepted).read().split("\n"), txt.split("\n")
            ctx.notes.append({"gen_differs_from_accepted": [l for l in new if l not in old][:20], "removed": [l for l in old if l not in new][:20]})
    except tr.TranslationError as e:
        ctx.broken.append({"kind": "translator", "error": str(e), "rc": p.returncode})
        return
    typesfile = os.path.join(ctx.work, "types.txt")
    with open(typesfile, "w") as fh:
        for n, t, _ in items:
            fh.write("%s %s %s\n" % (n, t, n))
        tyof = {n: t for n, t, _ in items}
        for a, r in aliases:
            fh.write("%s %s %s\n" % (a, tyof.get(r, "string"), r))
    ctx.lean_prove()
    drv = ctx.lean_exe()
    if not drv:
        return
    if ctx.replay:
        q = json.load(open(ctx.replay))["case"]["query"]
        lines, verdicts = run_queries(ctx, h, drv, typesfile, [q])
        if lines:
            for l, v in zip(lines, verdicts):
                ctx.cov["evaluations"] += 1
                if v.startswith("MONFAIL"):
                    ctx.violation(v, {"query": q, "impl": l, "verdict": v})
                elif v != "ok":
                    ctx.broken.append({"kind": "disagreement", "line": l, "verdict": v})
        return
    rng = SplitMix(ctx.seed)
    # ---- no callback is modelled: a rejection by the item's callback (abort, exit, exception other than the
    # parser's) of a value valid for the type is a legitimate outcome for every item; which items do so is *measured*
    # below and recorded (items rejecting every valid value = "cannot be changed in this phase", skipped with reason)
    cls = {n: "validated" for n, _, _ in items}
    for a, r in aliases:
        cls[a] = "validated"
    ctx.cov["items"] = len(items)
    ctx.cov["aliases"] = len(aliases)
    # ---- the campaign
    per = 4 if ctx.tier == "quick" else 40
    if ctx.broken:
        per *= 10
    names = [n for n, _, _ in items]
    queries = [l.strip() for l in open(ctx.pdir + "/corpus.txt") if l.strip() and not l.startswith("#")]
    queries = ["set %s %s %s %s" % (q.split(" ", 2)[0], hx(q.split(" ", 2)[1]), hx(ast.literal_eval(q.split(" ", 2)[2])),
                                    cls.get(q.split(" ", 2)[1], "plain")) for q in queries]
    ncorpus = len(queries)
    kinds = {}
    for n, t, d in items + [(a, tyof.get(r, "string"), "") for a, r in aliases]:
        for j in range(per):
            c, v = value_for(rng, t, valid=(j % 2 == 0))
            api = rng.choice(["str", "str", "parse", "eng"])
            if api != "str" and (any(ch in v for ch in " \t\n,") or v == ""):
                api = "str"             # set_parse would split the token at separators / reject the empty token differently
            if c.endswith("-valid") and rng.below(4) == 0 and (
                    (t == "bool" and v in ("0", "1")) or (t == "int" and re.fullmatch(r"-?[1-9][0-9]{0,8}|0", v)) or
                    (t == "double" and re.fullmatch(r"-?[0-9]{1,6}(\.[0-9]{1,4})?", v)) or (t == "string" and v != "")):
                api = "typ"             # the typed API on a canonical value of the item's type
            # in-process (no fork) only when the type's parser must refuse the value: no callback can run
            queries.append("%s %s %s %s %s" % ("setn" if c.endswith("-invalid") else "set", api, hx(n), hx(v), cls[n]))
            kinds[c] = kinds.get(c, 0) + 1
    for j in range(per * 10):
        n = bad_names(rng, names)
        if n in cls:
            continue
        c, v = value_for(rng, rng.choice(["boolean", "int", "double", "string"]), valid=True)
        api = rng.choice(["str", "parse", "eng"])
        if api != "str" and (any(ch in n + v for ch in " \t\n,:") or v == "" or n == ""):
            api = "str"
        queries.append("setn %s %s %s plain" % (api, hx(n), hx(v)))
        kinds["unknown-name"] = kinds.get("unknown-name", 0) + 1
    lines, verdicts = run_queries(ctx, h, drv, typesfile, queries)
    if lines is None and not ctx.replay:
        # the in-process stream died (a `plain` item aborted?): run everything again in forked children
        ctx.notes.append("in-process stream failed; re-run with one fork per query")
        del ctx.broken[-1:]
        queries = ["set " + q.split(" ", 1)[1] for q in queries]
        lines, verdicts = run_queries(ctx, h, drv, typesfile, queries)
    if lines is None:
        return
    seen = set()
    answers = {}
    per_item = {}
    for q, l, v in zip(queries, lines, verdicts):
        ctx.cov["evaluations"] += 1
        a = l.split(" => ", 1)[1].split()
        answers[a[0]] = answers.get(a[0], 0) + 1
        name = unhx(q.split()[2])
        case = {"query": q, "name": name, "value": unhx(q.split()[3]), "impl": l.split(" => ", 1)[1], "verdict": v}
        if name in cls and a[0] not in ("range", "unknown"):
            st = per_item.setdefault(name, {"stored": 0, "rejected_by_callback": {}})
            if a[0] == "ok":
                st["stored"] += 1
            else:
                st["rejected_by_callback"][a[0]] = st["rejected_by_callback"].get(a[0], 0) + 1
        if v == "ok":
            ctx.cov["traces_validated_against_impl"] += 1
            if a[0] == "ok" and q not in seen and name in cls:
                seen.add(q)
                ctx.cov["distinct_nontrivial"] += 1
        elif v.startswith("MONFAIL"):
            ctx.violation(v, case)
        else:
            ctx.broken.append({"kind": "disagreement", "case": case})
    ctx.cov["items_rejecting_every_valid_value"] = {n: st["rejected_by_callback"] for n, st in sorted(per_item.items())
                                                    if st["stored"] == 0 and st["rejected_by_callback"]}
    ctx.cov["items_validating_some_values"] = {n: st["rejected_by_callback"] for n, st in sorted(per_item.items())
                                               if st["stored"] > 0 and st["rejected_by_callback"]}
    ctx.cov["items_storing_every_valid_value"] = sum(1 for st in per_item.values() if st["stored"] > 0 and not st["rejected_by_callback"])
    ctx.cov["samples"] = lines[:2] + lines[ncorpus:ncorpus + 4]
    ctx.cov["distribution"] = kinds
    ctx.cov["answers"] = answers
