// C48 harness: the configuration items of the built library, in-process (an Engine is created first so that every
// flag is declared).
//   argv[1] == "dump": prints what simgrid::config::help() and show_aliases() print (the translator parses it)
//   otherwise stdin, one query per line, each executed in a forked child (callbacks have side effects):
//     set|setn <api> <hexname> <hexvalue>   (setn = in-process, no fork)   api in {str (set_as_string), parse (set_parse "name:value"), eng (Engine::set_config), typ (typed set_value<T>)}
//   answer: ok <type> <hexreadback> <isdefault> <readback-via-real-name-equal 0/1>
//           | range <hexmsg> | unknown | abort | exit <code> | crash <sig> | other <hexmsg>
//   readback: bool 0/1, int decimal, double %a, string raw — hex-encoded
#include <simgrid/s4u/Engine.hpp>
#include <xbt/config.hpp>
#include <xbt/log.h>

#include <cstdio>
#include <cstring>
#include <fcntl.h>
#include <iostream>
#include <map>
#include <sstream>
#include <stdexcept>
#include <string>
#include <sys/resource.h>
#include <sys/wait.h>
#include <unistd.h>
#include <vector>

XBT_LOG_EXTERNAL_CATEGORY(xbt_help);

static std::string unhex(const std::string& h)
{
  std::string s;
  if (h == "-")
    return s;
  for (size_t i = 0; i + 1 < h.size(); i += 2)
    s.push_back((char)std::stoi(h.substr(i, 2), nullptr, 16));
  return s;
}
static std::string hex(const std::string& s)
{
  static const char* d = "0123456789abcdef";
  std::string h;
  for (unsigned char c : s) {
    h.push_back(d[c >> 4]);
    h.push_back(d[c & 15]);
  }
  return h.empty() ? "-" : h;
}

static std::map<std::string, std::string> types; // name -> type, from the dump given on the command line

static std::string readback(const std::string& name, const std::string& type)
{
  char buf[64];
  if (type == "boolean")
    return simgrid::config::get_value<bool>(name) ? "1" : "0";
  if (type == "int")
    return std::to_string(simgrid::config::get_value<int>(name));
  if (type == "double") {
    snprintf(buf, sizeof buf, "%a", simgrid::config::get_value<double>(name));
    return buf;
  }
  return simgrid::config::get_value<std::string>(name);
}

static std::string do_set(const std::string& api, const std::string& name, const std::string& value)
{
  std::string r;
  try {
    if (api == "str")
      simgrid::config::set_as_string(name.c_str(), value);
    else if (api == "parse")
      simgrid::config::set_parse(name + ":" + value);
    else if (api == "typ") { // the typed API (Engine::set_config(name, T), sg_cfg_set_*): canonical values only
      auto itt         = types.find(name);
      std::string type = itt == types.end() ? "string" : itt->second.substr(0, itt->second.find(' '));
      if (type == "bool")
        simgrid::config::set_value<bool>(name.c_str(), value == "1");
      else if (type == "int")
        simgrid::config::set_value<int>(name.c_str(), std::stoi(value));
      else if (type == "double")
        simgrid::config::set_value<double>(name.c_str(), std::stod(value));
      else
        simgrid::config::set_value<std::string>(name.c_str(), value);
    }
    else
      simgrid::s4u::Engine::set_config(name + ":" + value);
    auto it = types.find(name);
    if (it == types.end())
      r = "ok ? - 0 0";
    else {
      std::string type = it->second.substr(0, it->second.find(' '));
      std::string real = it->second.substr(it->second.find(' ') + 1);
      std::string rb   = readback(name, type);
      r = "ok " + type + " " + hex(rb) + " " + (simgrid::config::is_default(name.c_str()) ? "1" : "0") + " " +
          (readback(real, type) == rb ? "1" : "0");
    }
  } catch (const std::range_error& ex) {
    r = std::string("range ") + hex(ex.what());
  } catch (const std::out_of_range& ex) {
    r = "unknown";
  } catch (const std::exception& ex) {
    r = std::string("other ") + hex(ex.what());
  }
  return r;
}

int main(int argc, char** argv)
{
  bool dump = argc > 1 && std::string(argv[1]) == "dump";
  int one   = 1;
  char* args[] = {argv[0], nullptr};
  xbt_log_control_set("root.thres:critical xbt_help.thres:info xbt_help.fmt:%m%n");
  simgrid::s4u::Engine e(&one, args);
  if (dump) {
    // XBT_HELP goes through the log appender (stderr): redirect it to stdout
    fflush(stdout);
    dup2(1, 2);
    XBT_CINFO(xbt_help, "@@HELP");
    simgrid::config::help();
    XBT_CINFO(xbt_help, "@@ALIASES");
    simgrid::config::show_aliases();
    XBT_CINFO(xbt_help, "@@END");
    return 0;
  }
  // argv[1]: file with "name type realname" lines (items and aliases) produced by the translator
  {
    FILE* f = fopen(argv[1], "r");
    char a[512], b[64], c[512];
    while (f && fscanf(f, "%511s %63s %511s", a, b, c) == 3)
      types[a] = std::string(b) + " " + c;
    if (f)
      fclose(f);
  }
  xbt_log_control_set("root.thres:critical");
  simgrid::config::set_as_string("debug/stacktrace", "none"); // once, in the parent: an aborting child prints no backtrace
  std::string line;
  while (std::getline(std::cin, line)) {
    std::istringstream in(line);
    std::string cmd, api, hn, hv;
    in >> cmd >> api >> hn >> hv;
    std::string name = unhex(hn), value = unhex(hv);
    if (cmd == "setn") { // in-process (items whose callback only assigns): no fork
      std::cout << line << " => " << do_set(api, name, value) << "\n";
      continue;
    }
    fflush(stdout);
    std::cout.flush();
    int fds[2];
    if (pipe(fds) != 0)
      return 3;
    pid_t pid = fork();
    if (pid == 0) {
      struct rlimit rl = {0, 0};
      setrlimit(RLIMIT_CORE, &rl);
      struct rlimit cpu = {5, 5};
      setrlimit(RLIMIT_CPU, &cpu); // a callback that spins (e.g. spawning an absurd number of workers) is cut
      alarm(20);                   // … and one that blocks too: the parent reports `crash 14`
      close(fds[0]);
      int devnull = open("/dev/null", O_WRONLY);
      dup2(devnull, 2);
      dup2(devnull, 1);
      std::string r = do_set(api, name, value);
      if (write(fds[1], r.c_str(), r.size()) < 0)
        _exit(9);
      _exit(0);
    }
    close(fds[1]);
    char buf[8192];
    ssize_t n = 0, k;
    while ((k = read(fds[0], buf + n, sizeof buf - 1 - n)) > 0)
      n += k;
    buf[n] = 0;
    close(fds[0]);
    int st = 0;
    waitpid(pid, &st, 0);
    std::string ans;
    if (WIFSIGNALED(st))
      ans = WTERMSIG(st) == SIGABRT ? "abort" : "crash " + std::to_string(WTERMSIG(st));
    else if (WEXITSTATUS(st) != 0 || n == 0)
      ans = "exit " + std::to_string(WEXITSTATUS(st));
    else
      ans = buf;
    std::cout << line << " => " << ans << "\n";
  }
  std::cout.flush();
  fflush(stdout);
  _exit(0); // not `return`: ~Engine would act on whatever the in-process queries configured
}
