// C39 witness: BARRIER_ASYNC_LOCK x BARRIER_ASYNC_LOCK on one barrier is declared independent (ALWAYS_INDEP cell,
// "requests are not ordered in a barrier") but the two orders lead to different kernel states when the barrier is one
// short of full: whoever locks first passes, the other one stays blocked.
// Barrier of 2, three workers P1 P2 P3 do `wait(); put(i)`: the first two lockers pass; the third passes only when the
// late actor A4 arrives, and A4 arrives only after the receiver R got its first message.  So R's first message comes
// from the first two lockers.  R asserts that it is not 3: false exactly in the executions where P3 locks among the
// first two.  No shared memory is involved: everything goes through kernel objects the checker tracks.
#include <simgrid/modelchecker.h>
#include <simgrid/s4u.hpp>
namespace sg4 = simgrid::s4u;
int main(int argc, char* argv[])
{
  sg4::Engine e(&argc, argv);
  auto* zone = e.get_netzone_root();
  auto* h    = zone->add_host("h0", 1e9);
  zone->seal();
  auto bar = sg4::Barrier::create(2);
  auto* mb = sg4::Mailbox::by_name("mb");
  auto* go = sg4::Mailbox::by_name("go");
  for (int i = 1; i <= 3; i++)
    h->add_actor("P" + std::to_string(i), [bar, mb, i]() {
      bar->wait();
      mb->put(new int(i), 8);
    });
  h->add_actor("R", [mb, go]() {
    int* v = mb->get<int>();
    MC_assert(*v != 3);
    delete v;
    go->put(new int(0), 8);
    for (int k = 0; k < 2; k++)
      delete mb->get<int>();
  });
  h->add_actor("A4", [bar, go]() {
    delete go->get<int>();
    bar->wait();
  });
  e.run();
  return 0;
}
