// C39 witness (reported by the C38 work, re-derived here): a COMM_TEST on a still-unpaired comm is declared independent
// (arms EVAL_COMM_SEND_TEST / EVAL_COMM_RECV_TEST: "s->aid_ != t->get_sender() && s->aid_ != t->get_receiver()" -> false)
// of the COMM_ASYNC_SEND on the same mailbox that pairs that comm, although the result of the test differs in the two
// orders.  R: get_async; test; assert(test failed); wait.   S: put.   The assertion is false exactly when S's send is
// executed before R's test.
#include <simgrid/modelchecker.h>
#include <simgrid/s4u.hpp>
namespace sg4 = simgrid::s4u;
int main(int argc, char* argv[])
{
  sg4::Engine e(&argc, argv);
  auto* zone = e.get_netzone_root();
  auto* h    = zone->add_host("h0", 1e9);
  zone->seal();
  auto* mb = sg4::Mailbox::by_name("mb");
  h->add_actor("R", [mb]() {
    int* buf       = nullptr;
    sg4::CommPtr c = mb->get_async<int>(&buf);
    bool done      = c->test();
    MC_assert(not done);
    c->wait();
    delete buf;
  });
  h->add_actor("S", [mb]() { mb->put(new int(1), 8); });
  e.run();
  return 0;
}
