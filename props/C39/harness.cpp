// C39 harness: the REAL Transition::dispatch_depends on synthetic pairs of transitions built in-process.
//
// stdin : one query per line      dep  <T> | <T>      every transition built by deserialize_transition() from a
//                                                     default Channel fed with reinject(serialised fields)
//                                 depd <T> | <T>      same, but COMM_* kinds are built with their direct constructors
//   <T> ::= <KIND> <aid> <times_considered> <field>*          fields in the order the checker-side constructor reads them
//         | TESTANY <aid> <tc> <n> ( COMM_TEST <comm> <sender> <receiver> <mbox> ){n}
//         | WAITANY <aid> <tc> <n> ( COMM_WAIT <timeout> <comm> <sender> <receiver> <mbox> ){n}
// stdout: `<query> => <r12> <r21>`  with r = 0 | 1 | die  (die: xbt_die/abort or uncaught exception in the checker code)
//
// The work is done in forked children, job by job (one job = one direction of one line), so that an abort in the
// library is observed as `die` for exactly that job and the run goes on.
#include "src/mc/api/Aid.hpp"
#include "src/mc/remote/Channel.hpp"
#include "src/mc/transition/Transition.hpp"
#include "src/mc/transition/TransitionActor.hpp"
#include "src/mc/transition/TransitionAny.hpp"
#include "src/mc/transition/TransitionComm.hpp"
#include "src/mc/transition/TransitionRandom.hpp"
#include "src/mc/transition/TransitionSynchro.hpp"
#include <xbt/log.h>

#include <cstdio>
#include <cstring>
#include <fcntl.h>
#include <iostream>
#include <map>
#include <sstream>
#include <string>
#include <sys/wait.h>
#include <unistd.h>
#include <vector>

using namespace simgrid::mc;
using TT = Transition::Type;

static std::map<std::string, TT> kinds;

struct Buf {
  std::string s;
  template <class T> void put(T v) { s.append(reinterpret_cast<const char*>(&v), sizeof(T)); }
  void put_str(const std::string& str)
  {
    put<unsigned short>((unsigned short)str.size());
    s.append(str.data(), str.size() + 1);
  }
};

static long next_long(std::istringstream& in)
{
  long v;
  if (!(in >> v))
    throw std::runtime_error("missing field");
  return v;
}

// append the serialised form (Type + fields, as the application would send them) of one non-ANY transition
static void put_fields(TT k, std::istringstream& in, Buf& b)
{
  b.put<TT>(k);
  switch (k) {
    case TT::RANDOM:
      b.put<int>(next_long(in));
      b.put<int>(next_long(in));
      break;
    case TT::ACTOR_JOIN:
      b.put<aid_t>(next_long(in));
      b.put<bool>(next_long(in));
      break;
    case TT::ACTOR_CREATE:
      b.put<aid_t>(next_long(in));
      break;
    case TT::ACTOR_EXIT:
    case TT::ACTOR_SLEEP:
    case TT::UNKNOWN:
      break;
    case TT::BARRIER_ASYNC_LOCK:
    case TT::BARRIER_WAIT:
      b.put<unsigned>(next_long(in));
      break;
    case TT::COMM_ASYNC_RECV:
    case TT::COMM_ASYNC_SEND:
      b.put<unsigned>(next_long(in));
      b.put<unsigned>(next_long(in));
      b.put<int>(next_long(in));
      b.put_str("loc");
      break;
    case TT::COMM_IPROBE:
      b.put<unsigned>(next_long(in));
      b.put<bool>(next_long(in));
      b.put<int>(next_long(in));
      break;
    case TT::COMM_TEST:
      b.put<unsigned>(next_long(in));
      b.put<aid_t>(next_long(in));
      b.put<aid_t>(next_long(in));
      b.put<unsigned>(next_long(in));
      b.put_str("loc");
      break;
    case TT::COMM_WAIT:
      b.put<bool>(next_long(in));
      b.put<unsigned>(next_long(in));
      b.put<aid_t>(next_long(in));
      b.put<aid_t>(next_long(in));
      b.put<unsigned>(next_long(in));
      b.put_str("loc");
      break;
    case TT::MUTEX_ASYNC_LOCK:
    case TT::MUTEX_TEST:
    case TT::MUTEX_TRYLOCK:
    case TT::MUTEX_UNLOCK:
    case TT::MUTEX_WAIT:
      b.put<unsigned>(next_long(in));
      b.put<aid_t>(next_long(in));
      break;
    case TT::SEM_ASYNC_LOCK:
    case TT::SEM_UNLOCK:
    case TT::SEM_WAIT:
      b.put<unsigned>(next_long(in));
      b.put<bool>(next_long(in));
      b.put<int>(next_long(in));
      break;
    case TT::CONDVAR_ASYNC_LOCK:
      b.put<unsigned>(next_long(in));
      b.put<unsigned>(next_long(in));
      break;
    case TT::CONDVAR_WAIT:
      b.put<unsigned>(next_long(in));
      b.put<unsigned>(next_long(in));
      b.put<bool>(next_long(in));
      b.put<bool>(next_long(in));
      break;
    case TT::CONDVAR_SIGNAL:
    case TT::CONDVAR_BROADCAST:
      b.put<unsigned>(next_long(in));
      break;
    default:
      throw std::runtime_error("kind has no serialised form");
  }
}

static Aid mkaid(long v)
{
  return v == -1 ? Aid::INVALID : Aid{(int)v};
}

// NOMC kinds are never sent by an MC-mode application; deserialize_transition rejects them.  The classes can still
// hold them (the constructors take the type as a parameter), which is how the PANIC_NOMC cells are reached.
static Transition* build(std::istringstream& in, bool direct)
{
  std::string kn;
  if (!(in >> kn) || kinds.find(kn) == kinds.end())
    throw std::runtime_error("bad kind " + kn);
  TT k     = kinds[kn];
  long aid = next_long(in);
  long tc  = next_long(in);
  Buf b;
  if (k == TT::TESTANY || k == TT::WAITANY) {
    long n = next_long(in);
    b.put<TT>(k);
    b.put<unsigned>(n);
    for (long i = 0; i < n; i++) {
      std::string sk;
      in >> sk;
      if (kinds.find(sk) == kinds.end())
        throw std::runtime_error("bad member kind");
      put_fields(kinds[sk], in, b);
    }
    b.put_str("loc");
  } else if (direct && k == TT::COMM_ASYNC_RECV) {
    long c = next_long(in), m = next_long(in), t = next_long(in);
    return new CommRecvTransition(mkaid(aid), tc, c, m, t);
  } else if (direct && k == TT::COMM_ASYNC_SEND) {
    long c = next_long(in), m = next_long(in), t = next_long(in);
    return new CommSendTransition(mkaid(aid), tc, c, m, t);
  } else if (direct && k == TT::COMM_IPROBE) {
    long m = next_long(in), s = next_long(in), t = next_long(in);
    return new CommIprobeTransition(mkaid(aid), tc, s, m, t);
  } else if (direct && k == TT::COMM_TEST) {
    long c = next_long(in), s = next_long(in), r = next_long(in), m = next_long(in);
    return new CommTestTransition(mkaid(aid), tc, c, mkaid(s), mkaid(r), m);
  } else if (direct && k == TT::COMM_WAIT) {
    long to = next_long(in), c = next_long(in), s = next_long(in), r = next_long(in), m = next_long(in);
    return new CommWaitTransition(mkaid(aid), tc, to, c, mkaid(s), mkaid(r), m);
  } else if (k == TT::MUTEX_LOCK_NOMC || k == TT::SEM_LOCK_NOMC || k == TT::CONDVAR_NOMC) {
    // built through the class constructor with a channel holding the fields of a sibling kind
    Channel ch;
    if (k == TT::MUTEX_LOCK_NOMC) {
      b.put<unsigned>(next_long(in));
      b.put<aid_t>(next_long(in));
      ch.reinject(b.s.data(), b.s.size());
      return new MutexTransition(mkaid(aid), tc, k, ch);
    }
    if (k == TT::SEM_LOCK_NOMC) {
      b.put<unsigned>(next_long(in));
      b.put<bool>(next_long(in));
      b.put<int>(next_long(in));
      ch.reinject(b.s.data(), b.s.size());
      return new SemaphoreTransition(mkaid(aid), tc, k, ch);
    }
    throw std::runtime_error("CONDVAR_NOMC cannot be constructed (the constructor dies)");
  } else {
    put_fields(k, in, b);
  }
  Channel ch;
  ch.reinject(b.s.data(), b.s.size());
  Transition* t = deserialize_transition(mkaid(aid), tc, ch);
  if (ch.has_pending_data())
    throw std::runtime_error("checker-side constructor left bytes unread");
  return t;
}

static std::string run_job(const std::string& line, int dir)
{
  try {
    auto bar = line.find(" | ");
    std::istringstream a(line.substr(0, bar)), b(line.substr(bar + 3));
    std::string cmd;
    a >> cmd;
    bool direct    = cmd == "depd";
    Transition* t1 = build(a, direct);
    Transition* t2 = build(b, direct);
    bool r         = dir == 0 ? t1->dispatch_depends(t2) : t2->dispatch_depends(t1);
    return r ? "1" : "0";
  } catch (std::runtime_error& e) {
    return std::string("badquery:") + e.what();
  } catch (std::exception&) {
    return "die"; // e.g. std::out_of_range from TestAnyTransition::get_current_transition
  }
}

int main()
{
  for (int i = 0; i <= (int)TT::UNKNOWN; i++)
    kinds[Transition::to_c_str((TT)i)] = (TT)i;
  xbt_log_control_set("root.thres:critical");
  std::vector<std::string> lines;
  std::string line;
  while (std::getline(std::cin, line))
    if (!line.empty())
      lines.push_back(line);
  size_t total = lines.size() * 2;
  std::vector<std::string> res(total);
  size_t j = 0;
  while (j < total) {
    int fd[2];
    if (pipe(fd) != 0)
      return 3;
    pid_t pid = fork();
    if (pid == 0) {
      close(fd[0]);
      int dn = open("/dev/null", O_WRONLY);
      dup2(dn, 2);
      for (size_t k = j; k < total; k++) {
        std::string r = run_job(lines[k / 2], k % 2) + "\n";
        if (write(fd[1], r.data(), r.size()) != (ssize_t)r.size())
          _exit(3);
      }
      _exit(0);
    }
    close(fd[1]);
    FILE* f = fdopen(fd[0], "r");
    char buf[512];
    while (j < total && fgets(buf, sizeof buf, f)) {
      buf[strcspn(buf, "\n")] = 0;
      res[j++]                = buf;
    }
    fclose(f);
    int st;
    waitpid(pid, &st, 0);
    if (j < total && !(WIFEXITED(st) && WEXITSTATUS(st) == 0))
      res[j++] = "die"; // the child died while computing job j
    else if (j < total)
      return 4; // child ended normally without doing its jobs: defect of the harness
  }
  for (size_t i = 0; i < lines.size(); i++)
    std::cout << lines[i] << " => " << res[2 * i] << " " << res[2 * i + 1] << "\n";
  return 0;
}
