// C39 translator, part (a): the compiler is the translator.
// This TU includes Transition.cpp itself, so it sees the `consteval` dependency_table, the DependencyAction enum and
// NUM_TYPES exactly as the library is compiled.  It prints
//   TYPES <n> <name>*            Transition::Type enumerators in declaration order
//   ACTIONS <m> <name>*          DependencyAction enumerators that occur + all declared ones (by numeric value)
//   ROW <i> <action-number>*     the N x N table
// DependencyAction has no to_c_str, so the numeric values are printed and the Python side maps them to the enumerator
// names it parses out of the `enum class DependencyAction` text (order = value, the enum has no initialisers; checked).
#include "src/mc/transition/Transition.cpp"
#include <cstdio>

int main()
{
  using namespace simgrid::mc;
  std::printf("TYPES %zu", NUM_TYPES);
  for (size_t i = 0; i < NUM_TYPES; i++)
    std::printf(" %s", Transition::to_c_str(static_cast<Transition::Type>(i)));
  std::printf("\n");
  for (size_t i = 0; i < NUM_TYPES; i++) {
    std::printf("ROW %zu", i);
    for (size_t j = 0; j < NUM_TYPES; j++)
      std::printf(" %d", (int)dependency_table[i][j]);
    std::printf("\n");
  }
  // sentinel values of the action enum so that the Python side can check its name<->number mapping
  std::printf("CHECK ALWAYS_INDEP=%d ALWAYS_DEP=%d EVAL_COMM_TEST_WAIT=%d EVAL_MUTEX_ID=%d EVAL_BARRIER_DEPENDS=%d\n",
              (int)DependencyAction::ALWAYS_INDEP, (int)DependencyAction::ALWAYS_DEP,
              (int)DependencyAction::EVAL_COMM_TEST_WAIT, (int)DependencyAction::EVAL_MUTEX_ID,
              (int)DependencyAction::EVAL_BARRIER_DEPENDS);
  return 0;
}
