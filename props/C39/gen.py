"""C39 translator: /repo/src/mc/transition/* -> lean/SgVerif/C39/Gen.lean

Part (a)  the N x N DependencyAction table comes from the compiler: lut_dump.cpp #includes Transition.cpp and prints
          the `consteval` dependency_table (see lut_dump.cpp); this module only maps the numbers to enumerator names.
Part (b)  the `switch (action)` arms of Transition::dispatch_depends and the body of BarrierTransition::depends are
          transliterated into Lean boolean terms over the transition parameters by a small recursive-descent parser for
          the C++ subset these arms are written in.  Anything outside that subset raises TranslationError: the tie is
          broken, nothing is silently skipped.
Part (c)  the parts of the dependency computation that are modelled by hand in Model.lean (prelude of dispatch_depends:
          same-actor test, unwrapping of TESTANY/WAITANY, swap; TestAny/WaitAny::get_current_transition;
          CommWaitTransition::is_enabled; the base virtual Transition::depends) are hashed after normalisation
          (comments and whitespace removed) and compared with accepted/hashes.json by check.py.
Also extracted: kind -> transition class (switch of deserialize_transition) so that Lean can check that every
static_cast in an arm is applied to an object of that class for every LUT cell that selects the arm.
"""
import hashlib
import re


class TranslationError(Exception):
    pass


# member (C++ field without trailing underscore) -> Lean field of structure Base
FIELDS = {
    "aid": ("aid", "Int"), "comm": ("comm", "Int"), "mbox": ("mbox", "Int"), "tag": ("tag", "Int"),
    "sender": ("sender", "Int"), "receiver": ("receiver", "Int"), "timeout": ("timeout", "Bool"),
    "is_sender": ("isSender", "Bool"), "target": ("target", "Int"), "child": ("child", "Int"),
    "bar": ("bar", "Int"), "mutex": ("mutex", "Int"), "owner": ("owner", "Int"), "sem": ("sem", "Int"),
    "granted": ("granted", "Bool"), "capacity": ("capacity", "Int"), "condvar": ("condvar", "Int"),
    "min": ("min", "Int"), "max": ("max", "Int"),
}
AID_FIELDS = ("sender", "receiver", "owner")    # members of type mc::Aid whose INVALID value is modelled as -1
FIELD_ORDER = ["aid", "comm", "mbox", "tag", "sender", "receiver", "timeout", "is_sender", "target", "child", "bar",
               "mutex", "owner", "sem", "granted", "capacity", "condvar", "min", "max"]


def strip_comments(src):
    src = re.sub(r"/\*.*?\*/", " ", src, flags=re.S)
    src = re.sub(r"//[^\n]*", " ", src)
    return src


def norm_hash(text):
    t = re.sub(r"\s+", "", strip_comments(text))
    return hashlib.sha1(t.encode()).hexdigest()[:16], t


def balanced(src, start, open_ch="{", close_ch="}"):
    """src[start] == open_ch; returns index just after the matching close."""
    assert src[start] == open_ch, src[start:start + 30]
    depth = 0
    i = start
    while i < len(src):
        c = src[i]
        if c == '"':
            i += 1
            while src[i] != '"':
                i += 2 if src[i] == "\\" else 1
        elif c == open_ch:
            depth += 1
        elif c == close_ch:
            depth -= 1
            if depth == 0:
                return i + 1
        i += 1
    raise TranslationError("unbalanced braces")


def function_body(src, header_re):
    m = re.search(header_re, src)
    if not m:
        raise TranslationError("function not found: " + header_re)
    b = src.index("{", m.end() - 1)
    e = balanced(src, b)
    return src[b:e]


# ----------------------------------------------------------------------------------------------- tokenizer / parser
TOK = re.compile(r'\s*(?:("(?:[^"\\]|\\.)*")|([A-Za-z_][A-Za-z_0-9]*(?:::[A-Za-z_][A-Za-z_0-9]*)*)|(\d+)|'
                 r'(->|==|!=|&&|\|\||\[\[|\]\]|[!(){}<>*;,:=?.]))')


def tokenize(s):
    out, i = [], 0
    s = s.rstrip()
    while i < len(s):
        m = TOK.match(s, i)
        if not m:
            raise TranslationError("cannot tokenize near: %r" % s[i:i + 40])
        if m.group(1) is not None:
            out.append(("str", m.group(1)))
        elif m.group(2) is not None:
            out.append(("id", m.group(2)))
        elif m.group(3) is not None:
            out.append(("num", m.group(3)))
        else:
            out.append(("op", m.group(4)))
        i = m.end()
    return out


class Parser:
    """C++ subset of the dependency arms -> Lean Bool terms.
    env: name -> ('obj', leanvar, cls)   objects (t1, t2, aliases, `this`, `other`)
    getters: (cls, getter) -> member ;   members are mapped through FIELDS."""

    def __init__(self, toks, env, getters, where, this=None):
        self.t, self.i, self.env, self.getters, self.where = toks, 0, dict(env), getters, where
        self.this = this          # (leanvar, cls) when translating a member function
        self.opt = this is None   # arms yield Option Bool (xbt_die = none); member functions yield Bool
        self.casts = []           # (leanvar, cls) every static_cast seen (checked against the LUT in Lean)

    def err(self, msg):
        ctx = " ".join(v for _, v in self.t[max(0, self.i - 6):self.i + 6])
        raise TranslationError("%s: %s (near `%s`)" % (self.where, msg, ctx))

    def peek(self, k=0):
        return self.t[self.i + k] if self.i + k < len(self.t) else ("eof", "")

    def take(self, val=None, kind=None):
        k, v = self.peek()
        if (val is not None and v != val) or (kind is not None and k != kind):
            self.err("expected %s, got %r" % (val or kind, v))
        self.i += 1
        return v

    def at(self, val):
        return self.peek()[1] == val and self.peek()[0] != "str"

    # ---- statements: returns Lean term of type Option Bool
    def block(self):
        """'{' stmt* '}'  or a single statement; yields a nested if-then-else ending in a return."""
        if self.at("{"):
            self.take("{")
            r = self.stmts(until="}")
            self.take("}")
            return r
        return self.stmts(single=True)

    def stmts(self, until=None, single=False):
        k, v = self.peek()
        if v == "const" and self.peek(1)[1] == "auto":
            # const auto* x = static_cast<const C*>(y);
            self.take("const"); self.take("auto"); self.take("*")
            name = self.take(kind="id")
            self.take("=")
            var, cls = self.obj()
            self.take(";")
            self.env[name] = (var, cls)
            return self.stmts(until, single)
        if v == "if":
            self.take("if"); self.take("(")
            c = self.expr()
            self.take(")")
            if not self.at("return"):
                self.err("only `if (c) return e;` is supported")
            self.take("return")
            e = self.expr()
            self.take(";")
            rest = self.stmts(until, single=False)
            return "(if %s then %s else %s)" % (c, ("some " + e) if self.opt else e, rest)
        if v == "return":
            self.take("return")
            e = self.expr()
            self.take(";")
            if until is not None and not self.at(until):
                self.err("statements after return")
            return ("(some %s)" % e) if self.opt else e
        if v == "xbt_die" and self.opt:
            self.take("xbt_die"); self.take("(")
            while not self.at(")"):
                self.i += 1
            self.take(")"); self.take(";")
            return "none"
        self.err("unsupported statement starting with %r" % v)

    # ---- expressions: Lean terms of type Bool (or Int / Kind for operands of == / !=)
    def expr(self):
        l = self.andx()
        while self.at("||") or self.at("or"):
            self.i += 1
            l = "(%s || %s)" % (l, self.andx())
        return l

    def andx(self):
        l = self.eqx()
        while self.at("&&") or self.at("and"):
            self.i += 1
            l = "(%s && %s)" % (l, self.eqx())
        return l

    def eqx(self):
        l = self.unary()
        if self.at("==") or self.at("!="):
            op = self.take()
            r = self.unary()
            return "(%s %s %s)" % (l, op, r)
        return l

    def unary(self):
        if self.at("!") or self.at("not"):
            self.i += 1
            return "(!%s)" % self.unary()
        return self.primary()

    def primary(self):
        k, v = self.peek()
        if v == "(" and k == "op":
            self.take("(")
            e = self.expr()
            self.take(")")
            return e
        if v in ("true", "false"):
            self.i += 1
            return v
        if k == "id" and re.fullmatch(r"(Transition::)?Type::[A-Z_0-9]+", v):
            self.i += 1
            return "Kind." + v.split("::")[-1]
        if k == "id" and self.this and v.endswith("_") and v not in self.env and v != "static_cast":
            # implicit this->member_
            self.i += 1
            return self.member(self.this[0], self.this[1], v, call=False)
        var, cls = self.obj()
        self.take("->")
        name = self.take(kind="id")
        call = False
        args = None
        if self.at("("):
            self.take("(")
            call = True
            if not self.at(")"):
                args = self.obj()
            self.take(")")
        if name == "depends":
            if not call or args is None:
                self.err("depends(...) needs one object argument")
            if cls == "BarrierTransition":
                return "(barrierDepends %s %s)" % (var, args[0])
            if cls == "Transition":
                return "(baseVirtualDepends %s %s)" % (var, args[0])
            self.err("depends() on unexpected class %s" % cls)
        if args is not None:
            self.err("unexpected call arguments")
        m = self.member(var, cls, name, call)
        if self.at("."):
            # `x->get_sender().has_value()` on an `Aid` member (Aid.hpp: `value_ != INVALID_VALUE`); Base holds `c_val()`, -1 = INVALID
            self.take(".")
            meth = self.take(kind="id")
            self.take("("); self.take(")")
            if meth != "has_value" or m.split(".")[-1] not in AID_FIELDS:
                self.err("only Aid::has_value() is supported on a member, got .%s() on %s" % (meth, m))
            return "(%s != -1)" % m
        return m

    def member(self, var, cls, name, call):
        if call:
            key = (cls, name)
            if key not in self.getters:
                self.err("unknown getter %s::%s()" % key)
            mem = self.getters[key]
        else:
            if not name.endswith("_"):
                self.err("unknown member %s" % name)
            mem = name[:-1]
        if mem == "type":
            return "%s.kind" % var
        if mem not in FIELDS:
            self.err("member %s_ has no field in the Lean structure Base" % mem)
        return "%s.%s" % (var, FIELDS[mem][0])

    def obj(self):
        """t1 | alias | static_cast<const C*>(obj)   ->  (leanvar, class)"""
        k, v = self.peek()
        if v == "static_cast":
            self.take("static_cast"); self.take("<"); self.take("const")
            cls = self.take(kind="id")
            self.take("*"); self.take(">"); self.take("(")
            var, _ = self.obj()
            self.take(")")
            self.casts.append((var, cls))
            return var, cls
        if k == "id" and v in self.env:
            self.i += 1
            return self.env[v]
        self.err("unknown object %r" % v)


# ----------------------------------------------------------------------------------------------- extraction
def parse_getters(hpp_texts):
    """(class, getter) -> member for the trivial inline getters `T get_x() const { return this->x_; }`"""
    res = {}
    for txt in hpp_texts:
        txt = strip_comments(txt)
        for m in re.finditer(r"class\s+(\w+)\s+(?:final\s+)?:\s*public\s+Transition\s*\{", txt):
            b = m.end() - 1
            body = txt[b:balanced(txt, b)]
            for g in re.finditer(r"[\w:]+(?:\s+int)?\s+(\w+)\(\)\s*const\s*\{\s*return\s+(?:this->)?(\w+)_\s*;\s*\}", body):
                res[(m.group(1), g.group(1))] = g.group(2)
    return res


def parse_kind_class(transition_cpp):
    """switch of deserialize_transition: kind -> class constructed"""
    body = function_body(strip_comments(transition_cpp), r"Transition\*\s+deserialize_transition\s*\([^)]*\)\s*\{")
    res = {}
    pending = []
    for m in re.finditer(r"case\s+Transition::Type::(\w+)\s*:|return\s+new\s+(\w+)\s*\(", body):
        if m.group(1):
            pending.append(m.group(1))
        else:
            for k in pending:
                res[k] = m.group(2)
            pending = []
    return res


def split_arms(switch_body):
    """[(labels, token list of the arm body)]"""
    toks = tokenize(switch_body)
    assert toks[0][1] == "{" and toks[-1][1] == "}"
    toks = toks[1:-1]
    arms, i = [], 0
    while i < len(toks):
        labels = []
        while i < len(toks) and toks[i][1] == "case":
            lab = toks[i + 1][1]
            if not lab.startswith("DependencyAction::") or toks[i + 2][1] != ":":
                raise TranslationError("unexpected case label %r" % lab)
            labels.append(lab.split("::")[1])
            i += 3
        if not labels:
            raise TranslationError("switch: expected a case label, got %r" % (toks[i][1],))
        j, depth = i, 0
        while j < len(toks) and not (depth == 0 and toks[j][1] == "case" and toks[j][0] == "id"):
            if toks[j][1] == "{" and toks[j][0] == "op":
                depth += 1
            if toks[j][1] == "}" and toks[j][0] == "op":
                depth -= 1
            j += 1
        arms.append((labels, toks[i:j]))
        i = j
    return arms


def translate(repo, lut_lines):
    """-> (text of Gen.lean, {name: (hash, normalised text)} of the hand-modelled bodies)"""
    tdir = repo + "/src/mc/transition/"
    tcpp = open(tdir + "Transition.cpp").read()
    hpps = {n: open(tdir + n).read() for n in ("Transition.hpp", "TransitionSynchro.hpp", "TransitionComm.hpp",
                                               "TransitionActor.hpp", "TransitionAny.hpp", "TransitionRandom.hpp")}
    any_cpp = open(tdir + "TransitionAny.cpp").read()

    # ---- (a) the table
    types, rows, check = None, {}, None
    for l in lut_lines:
        w = l.split()
        if not w:
            continue
        if w[0] == "TYPES":
            types = w[2:]
            if len(types) != int(w[1]):
                raise TranslationError("TYPES line inconsistent")
        elif w[0] == "ROW":
            rows[int(w[1])] = [int(x) for x in w[2:]]
        elif w[0] == "CHECK":
            check = dict(x.split("=") for x in w[1:])
    if types is None or len(rows) != len(types) or any(len(r) != len(types) for r in rows.values()):
        raise TranslationError("table dump malformed")
    # enum order in the header text must be what the compiler says (regex tie of DESIGN 3.1 `Gen/TransTypes`)
    m = re.search(r"XBT_DECLARE_ENUM_CLASS\(\s*Type\s*,(.*?)\);", strip_comments(hpps["Transition.hpp"]), re.S)
    hdr_types = [x.strip() for x in m.group(1).split(",") if x.strip()] if m else None
    if hdr_types != types:
        raise TranslationError("Transition::Type order: header text %r != compiled %r" % (hdr_types, types))
    m = re.search(r"enum\s+class\s+DependencyAction\s*:\s*uint8_t\s*\{(.*?)\};", strip_comments(tcpp), re.S)
    if not m:
        raise TranslationError("enum class DependencyAction not found")
    actions = [x.strip() for x in m.group(1).split(",") if x.strip()]
    if any("=" in a for a in actions):
        raise TranslationError("DependencyAction has explicit initialisers; numbering rule no longer valid")
    for name, val in (check or {}).items():
        if name not in actions or actions.index(name) != int(val):
            raise TranslationError("DependencyAction numbering: %s is %s for the compiler, %s in the text" % (
                name, val, actions.index(name) if name in actions else None))
    if check is None:
        raise TranslationError("no CHECK line")
    if max(max(r) for r in rows.values()) >= len(actions):
        raise TranslationError("table holds an action number outside the enum")

    # ---- (b) arms
    getters = parse_getters(hpps.values())
    kind_class = parse_kind_class(tcpp)
    dd = function_body(strip_comments(tcpp), r"bool\s+Transition::dispatch_depends\s*\(const Transition\*\s*other\)\s*const\s*\{")
    m = re.search(r"switch\s*\(\s*action\s*\)\s*\{", dd)
    if not m:
        raise TranslationError("switch (action) not found in dispatch_depends")
    sb = m.end() - 1
    se = balanced(dd, sb)
    switch_body = dd[sb:se]
    prelude = dd[:m.start()]
    postlude = dd[se:]
    env = {"t1": ("t1", "Transition"), "t2": ("t2", "Transition")}
    arm_terms, arm_casts, seen = {}, {}, set()
    for labels, toks in split_arms(switch_body):
        p = Parser(toks, env, getters, "arm " + "/".join(labels))
        term = p.block()
        if p.i != len(toks):
            p.err("trailing tokens in arm")
        for lab in labels:
            if lab not in actions or lab in seen:
                raise TranslationError("arm label %s unknown or repeated" % lab)
            seen.add(lab)
            arm_terms[lab] = term
            arm_casts[lab] = p.casts
    missing = [a for a in actions if a not in seen]
    if missing:
        raise TranslationError("actions without an arm in dispatch_depends: %s" % missing)

    # BarrierTransition::depends (called by the EVAL_BARRIER_DEPENDS arm)
    sh = strip_comments(hpps["TransitionSynchro.hpp"])
    m = re.search(r"class\s+BarrierTransition\s+final\s*:\s*public\s+Transition\s*\{", sh)
    cb = sh[m.end() - 1:balanced(sh, m.end() - 1)]
    bd = function_body(cb, r"bool\s+depends\s*\(const Transition\*\s*o\)\s*const\s+override\s*\{")
    p = Parser(tokenize(bd), {"o": ("o", "Transition")}, getters, "BarrierTransition::depends",
               this=("t", "BarrierTransition"))
    barrier_term = p.block()
    barrier_casts = p.casts

    # ---- (c) hand-modelled parts: hashes
    hashes = {}
    hashes["dispatch_depends.prelude"] = norm_hash(prelude)
    hashes["dispatch_depends.postlude"] = norm_hash(postlude)
    hashes["Transition::depends(base virtual)"] = norm_hash(
        re.search(r"virtual\s+bool\s+depends\s*\([^)]*\)\s*const\s*\{[^}]*\}", strip_comments(hpps["Transition.hpp"])).group(0))
    ah = strip_comments(hpps["TransitionAny.hpp"])
    hashes["TestAnyTransition::get_current_transition"] = norm_hash(
        re.search(r"Transition\*\s+get_current_transition\(\)\s*const\s*\{[^}]*\}", ah).group(0))
    hashes["WaitAnyTransition::get_current_transition"] = norm_hash(
        function_body(strip_comments(any_cpp), r"Transition\*\s+WaitAnyTransition::get_current_transition\(\)\s*const\s*\{"))
    hashes["CommWaitTransition::is_enabled"] = norm_hash(
        re.search(r"bool\s+is_enabled\(\)\s*const\s*\{[^}]*\}", strip_comments(hpps["TransitionComm.hpp"])).group(0))
    for k in ("TESTANY", "WAITANY"):
        if kind_class.get(k) != {"TESTANY": "TestAnyTransition", "WAITANY": "WaitAnyTransition"}[k]:
            raise TranslationError("class of %s changed" % k)

    # ---- emit
    classes = sorted(set(kind_class.values()) | {"Transition"})
    o = []
    w = o.append
    w("/- GENERATED by props/C39/gen.py from /repo/src/mc/transition/{Transition.cpp,*.hpp} -- do not edit.")
    w("   The last version under which the proofs were accepted is kept in accepted/Gen.lean for diffing. -/")
    w("namespace SgVerif.C39\n")
    w("/-- `Transition::Type`, in declaration order (the compiler's `to_c_str`, cross-checked with the header text) -/")
    w("inductive Kind where")
    for t in types:
        w("  | %s" % t)
    w("  deriving DecidableEq, Repr, Inhabited\n")
    w("def Kind.toNat : Kind → Nat")
    for i, t in enumerate(types):
        w("  | .%s => %d" % (t, i))
    w("\ndef Kind.all : List Kind := [%s]\n" % ", ".join("." + t for t in types))
    w("def Kind.name : Kind → String")
    for t in types:
        w('  | .%s => "%s"' % (t, t))
    w("\n/-- `enum class DependencyAction` -/")
    w("inductive DepAction where")
    for a in actions:
        w("  | %s" % a)
    w("  deriving DecidableEq, Repr, Inhabited\n")
    w("/-- C++ class a transition of each kind is an instance of (switch of `deserialize_transition`);")
    w("    kinds that `deserialize_transition` rejects have no class -/")
    w("inductive Cls where")
    for c in classes:
        w("  | %s" % c)
    w("  deriving DecidableEq, Repr\n")
    w("def kindClass : Kind → Option Cls")
    for t in types:
        w("  | .%s => %s" % (t, ("some .%s" % kind_class[t]) if t in kind_class else "none"))
    w("")
    for i, t in enumerate(types):
        w("def lutRow_%s : Kind → DepAction" % t)
        for j, u in enumerate(types):
            w("  | .%s => .%s" % (u, actions[rows[i][j]]))
        w("")
    w("/-- the `consteval` `dependency_table`, as compiled -/")
    w("def lut : Kind → Kind → DepAction")
    for t in types:
        w("  | .%s => lutRow_%s" % (t, t))
    w("")
    w("/-- parameters of a non-ANY transition: the union of the private members of the transition classes")
    w("    (`x_` becomes `x`; `Aid` as its `c_val()`, -1 = INVALID) -/")
    w("structure Base where")
    w("  kind : Kind")
    for f in FIELD_ORDER:
        lf, ty = FIELDS[f]
        w("  %s : %s := %s" % (lf, ty, "false" if ty == "Bool" else ("-1" if f in ("sender", "receiver", "owner", "target", "child") else "0")))
    w("  deriving DecidableEq, Repr, Inhabited\n")
    w("/-- `virtual bool Transition::depends(const Transition*) const { return false; }` (hash-tied) -/")
    w("def baseVirtualDepends (_t _o : Base) : Bool := false\n")
    w("/-- `BarrierTransition::depends` (TransitionSynchro.hpp), transliterated -/")
    w("def barrierDepends (t o : Base) : Bool :=\n  %s\n" % barrier_term)
    w("/-- the `switch (action)` of `Transition::dispatch_depends`, arm by arm; `none` = `xbt_die` -/")
    w("def evalAction (a : DepAction) (t1 t2 : Base) : Option Bool :=\n  match a with")
    for a in actions:
        w("  | .%s =>\n      %s" % (a, arm_terms[a]))
    w("")
    w("/-- classes an arm `static_cast`s its first / second operand to -/")
    for who in ("t1", "t2"):
        w("def casts_%s : DepAction → List Cls" % who)
        for a in actions:
            cs = sorted(set(c for v, c in arm_casts[a] if v == who))
            if a == "EVAL_BARRIER_DEPENDS" and who == "t2":
                cs = sorted(set(cs) | set(c for v, c in barrier_casts if v == "o"))
            w("  | .%s => [%s]" % (a, ", ".join("." + c for c in cs)))
        w("")
    w("end SgVerif.C39")
    return "\n".join(o) + "\n", hashes
