"""C39 — declared-independent transitions commute; the dependency relation is symmetric.

Tie to the source (every run):
  translator  lut_dump.cpp (#includes Transition.cpp: the compiler prints the consteval dependency_table) + gen.py
              (switch arms of Transition::dispatch_depends and BarrierTransition::depends transliterated to Lean)
              -> lean/SgVerif/C39/Gen.lean; hand-modelled bodies hash-compared with accepted/hashes.json
  proofs      lean/SgVerif/C39/Props.lean over the generated definitions
  correspondence  harness.cpp runs the real dispatch_depends on synthetic pairs (both directions), the Lean driver
              runs the model's `depends`; monitor = symmetry of the real answers.
The commute part on real kernel states needs the AppSide fingerprint hook (proposed_hook.diff); until it is applied the
commute theorems are tied through `depends` (this check) and the shared Sync semantics only.
"""
import json
import os
import shutil

from vlib.core import SplitMix, LEAN

import importlib.util

_here = os.path.dirname(os.path.abspath(__file__))
_spec = importlib.util.spec_from_file_location("c39_gen", os.path.join(_here, "gen.py"))
gen = importlib.util.module_from_spec(_spec)
_spec.loader.exec_module(gen)

GDIR = os.path.join(LEAN, "SgVerif", "C39")

# serialised fields per kind: (name, domain)
AIDS = [1, 2, 3, 4]
DOM = {
    "aid": AIDS, "aidopt": [-1, -1, 1, 2, 3, 4], "comm": [0, 1, 2, 3], "mbox": [0, 1, 2], "tag": [0, 1, 7],
    "bool": [0, 1], "id": [0, 1, 2], "cap": [-1, 0, 1, 2], "int": [-3, 0, 5],
}
SCHEMA = {
    "RANDOM": ["int", "int"], "ACTOR_JOIN": ["aid", "bool"], "ACTOR_SLEEP": [], "ACTOR_CREATE": ["aid"],
    "ACTOR_EXIT": [], "BARRIER_ASYNC_LOCK": ["id"], "BARRIER_WAIT": ["id"],
    "COMM_ASYNC_RECV": ["comm", "mbox", "tag"], "COMM_ASYNC_SEND": ["comm", "mbox", "tag"],
    "COMM_IPROBE": ["mbox", "bool", "tag"], "COMM_TEST": ["comm", "aidopt", "aidopt", "mbox"],
    "COMM_WAIT": ["bool", "comm", "aidopt", "aidopt", "mbox"],
    "MUTEX_ASYNC_LOCK": ["id", "aidopt"], "MUTEX_TEST": ["id", "aidopt"], "MUTEX_TRYLOCK": ["id", "aidopt"],
    "MUTEX_UNLOCK": ["id", "aidopt"], "MUTEX_WAIT": ["id", "aidopt"], "MUTEX_LOCK_NOMC": ["id", "aidopt"],
    "SEM_ASYNC_LOCK": ["id", "bool", "cap"], "SEM_UNLOCK": ["id", "bool", "cap"], "SEM_WAIT": ["id", "bool", "cap"],
    "SEM_LOCK_NOMC": ["id", "bool", "cap"],
    "CONDVAR_ASYNC_LOCK": ["id", "id"], "CONDVAR_BROADCAST": ["id"], "CONDVAR_SIGNAL": ["id"],
    "CONDVAR_WAIT": ["id", "id", "bool", "bool"], "UNKNOWN": [],
}
GROUPS = [["MUTEX_ASYNC_LOCK", "MUTEX_TEST", "MUTEX_TRYLOCK", "MUTEX_UNLOCK", "MUTEX_WAIT"],
          ["SEM_ASYNC_LOCK", "SEM_UNLOCK", "SEM_WAIT"], ["BARRIER_ASYNC_LOCK", "BARRIER_WAIT"],
          ["COMM_ASYNC_RECV", "COMM_ASYNC_SEND", "COMM_IPROBE", "COMM_TEST", "COMM_WAIT", "TESTANY", "WAITANY"],
          ["CONDVAR_ASYNC_LOCK", "CONDVAR_BROADCAST", "CONDVAR_SIGNAL", "CONDVAR_WAIT", "MUTEX_ASYNC_LOCK",
           "MUTEX_TRYLOCK", "MUTEX_UNLOCK", "MUTEX_WAIT", "MUTEX_TEST"],
          ["ACTOR_JOIN", "ACTOR_CREATE", "ACTOR_EXIT", "ACTOR_SLEEP", "RANDOM", "COMM_WAIT", "MUTEX_UNLOCK"]]
NOMC = ["MUTEX_LOCK_NOMC", "SEM_LOCK_NOMC"]
WELL = [k for k in SCHEMA if k not in NOMC] + ["TESTANY", "WAITANY"]


def gen_fields(rng, kind):
    return [str(rng.choice(DOM[d])) for d in SCHEMA[kind]]


def gen_tr(rng, kind, aid, malformed):
    """-> (text, kind actually compared after unwrapping or None when the checker dies)"""
    if kind in ("TESTANY", "WAITANY"):
        sub = "COMM_TEST" if kind == "TESTANY" else "COMM_WAIT"
        n = rng.range(1, 3)
        members = [gen_fields(rng, sub) for _ in range(n)]
        if kind == "TESTANY":
            ok = n
        else:
            if not malformed and not any(m[2] != "-1" and m[3] != "-1" for m in members):
                members[rng.below(n)][2:4] = [str(rng.choice(AIDS)), str(rng.choice(AIDS))]
            ok = sum(1 for m in members if m[2] != "-1" and m[3] != "-1")
        tc = rng.below(ok) if (ok > 0 and not malformed) else ok + rng.below(2)
        txt = "%s %d %d %d %s" % (kind, aid, tc, n, " ".join(sub + " " + " ".join(m) for m in members))
        return txt, (sub if tc < ok else None)
    return "%s %d 0 %s" % (kind, aid, " ".join(gen_fields(rng, kind))), kind


def gen_queries(rng, n):
    qs = []
    # aborting pairs cost ~0.3 s each (xbt_die resolves a backtrace): about 100 of them whatever the tier
    mal_den = max(33, n // 100)
    for i in range(n):
        malformed = rng.chance(1, mal_den)
        c = rng.below(10)
        if malformed and rng.chance(1, 2):
            k1 = rng.choice(NOMC)
            k2 = rng.choice(WELL)
            if rng.chance(1, 2):
                k1, k2 = k2, k1
        elif c < 6:
            g = rng.choice(GROUPS)
            k1, k2 = rng.choice(g), rng.choice(g)
        else:
            k1, k2 = rng.choice(WELL), rng.choice(WELL)
        a1 = rng.choice(AIDS)
        a2 = rng.choice(AIDS) if rng.chance(1, 12) else rng.choice([a for a in AIDS if a != a1])
        t1, u1 = gen_tr(rng, k1, a1, malformed)
        t2, u2 = gen_tr(rng, k2, a2, malformed)
        cmd = "depd" if rng.chance(1, 3) else "dep"
        qs.append(("%s %s | %s" % (cmd, t1, t2), (u1, u2, a1 == a2)))
    return qs


def run_translator(ctx):
    """-> {type order, rows, action names} or None.  Regenerates Gen.lean; broken tie -> ctx.broken (never silent)."""
    lut = ctx.build_harness("lut_dump.cpp", flags=("-O0",))
    acc_gen = os.path.join(GDIR, "accepted", "Gen.lean")
    cur = os.path.join(GDIR, "Gen.lean")
    table = None
    try:
        if not lut:
            raise gen.TranslationError("lut_dump.cpp does not compile against Transition.cpp any more")
        rc, lines, err = ctx.run_lines([lut], [])
        if rc != 0:
            raise gen.TranslationError("lut_dump failed: " + err[-500:])
        text, hashes = gen.translate(os.environ.get("VERIF_REPO", "/repo"), lines)
        if not os.path.exists(cur) or open(cur).read() != text:
            with open(cur, "w") as fh:
                fh.write(text)
        types = [l.split()[2:] for l in lines if l.startswith("TYPES")][0]
        rows = {int(l.split()[1]): [int(x) for x in l.split()[2:]] for l in lines if l.startswith("ROW")}
        table = {"types": types, "rows": rows}
        acc = json.load(open(os.path.join(GDIR, "accepted", "hashes.json")))
        for name, (h, norm) in hashes.items():
            if acc.get(name, {}).get("hash") != h:
                ctx.broken.append({"kind": "hand-modelled-body-changed", "what": name, "accepted": acc.get(name, {}).get("text", "")[:300],
                                   "now": norm[:300], "meaning": "Model.lean mirrors this body by hand; re-read it, update Model.lean and accepted/hashes.json"})
        ctx.cov["hand_modelled_bodies_hash_checked"] = sorted(hashes)
        if os.path.exists(acc_gen) and open(acc_gen).read() != text:
            import difflib
            d = [l for l in difflib.unified_diff(open(acc_gen).read().split("\n"), text.split("\n"), "accepted/Gen.lean", "Gen.lean", lineterm="", n=0)
                 if not l.startswith("@@")]
            ctx.notes.append("Gen.lean differs from the last accepted copy: " + " ; ".join(d[:12]))
            ctx.cov["gen_diff_vs_accepted"] = d[:40]
    except gen.TranslationError as e:
        ctx.broken.append({"kind": "translator", "error": str(e),
                           "meaning": "the dependency code left the subset the transliterator understands: tie broken"})
        if os.path.exists(acc_gen) and not os.path.exists(cur):
            shutil.copy(acc_gen, cur)       # keep the last accepted model so that the search below can still run
    return table


KEY_BARRIER = "barrier-lock-lock-declared-independent"


def run_barrier_witness(ctx):
    """Replay of the model-level counterexample `barrier_lock_lock_counterexample` on the real implementation:
    witness_barrier.cpp; (a) the recorded path in which P3 locks among the first two makes the program's MC_assert fail,
    the path in which P2 does passes: two orders of declared-independent BARRIER_ASYNC_LOCKs, different outcomes;
    (b) consequence: the reductions that trust the relation (odpor, sdpor) finish with exit 0 on that program."""
    import subprocess
    from vlib import core
    w = ctx.build_harness("witness_barrier.cpp", flags=("-w",))
    if not w:
        return
    env = dict(os.environ, **ctx.sg_env())

    def replay(path):
        p = subprocess.run([w, "--cfg=model-check/replay:" + path], capture_output=True, text=True, timeout=60, env=env, cwd=ctx.work)
        return "assert-fails" if "MC assertion failed" in (p.stdout + p.stderr) else "rc=%d" % p.returncode
    a = replay("1;3;1;2;3;3;1;4;3;4")
    b = replay("1;2;1;3;2;2;1;4;2;4")
    res = {"replay LOCK1;LOCK3 first": a, "replay LOCK1;LOCK2 first": b}
    reds = ["odpor"] if ctx.tier == "quick" else ["odpor", "sdpor"]
    mc = os.path.join(core.SGBUILD, "bin", "simgrid-mc")
    missed = []
    for r in reds:
        try:
            p = subprocess.run([mc, "--cfg=model-check/reduction:" + r, "--log=root.thres:critical", w], capture_output=True,
                               text=True, timeout=240, env=env, cwd=ctx.work)
            rc = p.returncode
        except subprocess.TimeoutExpired:
            rc = "timeout"
        res["simgrid-mc reduction:" + r] = rc
        if rc == 0:
            missed.append(r)
        ctx.cov["evaluations"] += 1
    ctx.cov["barrier_witness"] = res
    ctx.cov["evaluations"] += 2
    # Since the repair the pair is declared DEPENDENT (theorem barrier_lock_lock_counterexample + REGRESSION queries): that the
    # two orders differ (a vs b) is no longer a violation by itself.  What must hold: every reduction finds the failing execution.
    if a == "assert-fails" and b != "assert-fails" and missed:
        ctx.violation("BARRIER_ASYNC_LOCK x BARRIER_ASYNC_LOCK on a barrier that is one short of full: the two orders lead to "
                      "different states (replays differ: %s vs %s) and reductions %s finish with exit 0 on the program although the "
                      "failing execution exists" % (a, b, missed),
                      {"program": "props/C39/witness_barrier.cpp", "replay_failing": "1;3;1;2;3;3;1;4;3;4",
                       "replay_passing": "1;2;1;3;2;2;1;4;2;4", "results": res}, key=KEY_BARRIER)
    elif not (a == "assert-fails" and b != "assert-fails"):
        ctx.broken.append({"kind": "witness-no-longer-replays", "what": "witness_barrier.cpp", "results": res})


KEY_COMMTEST = "comm-test-vs-async-send-recv-unpaired"


def run_commtest_witness(ctx):
    """Replay of `comm_send_test_counterexample`: witness_commtest.cpp.  The two orders of (R's COMM_TEST on its unpaired
    receive, S's COMM_ASYNC_SEND on that mailbox) are replayed out of the checker: path 1;1;2 (test first: assertion holds)
    vs 1;2;1 (send first: the test succeeds, the assertion fails); then the reductions are run on the program."""
    import subprocess
    from vlib import core
    w = ctx.build_harness("witness_commtest.cpp", flags=("-w",))
    if not w:
        return
    env = dict(os.environ, **ctx.sg_env())

    def replay(path):
        p = subprocess.run([w, "--cfg=model-check/replay:" + path], capture_output=True, text=True, timeout=60, env=env, cwd=ctx.work)
        return "assert-fails" if "MC assertion failed" in (p.stdout + p.stderr) else "rc=%d" % p.returncode
    a, b = replay("1;2;1"), replay("1;1;2")
    res = {"replay recv;SEND;TEST": a, "replay recv;TEST;SEND": b}
    mc = os.path.join(core.SGBUILD, "bin", "simgrid-mc")
    missed = []
    for r in (["dpor"] if ctx.tier == "quick" else ["dpor", "sdpor", "odpor", "udpor", "none"]):
        try:
            rc = subprocess.run([mc, "--cfg=model-check/reduction:" + r, "--log=root.thres:critical", w], capture_output=True,
                                text=True, timeout=120, env=env, cwd=ctx.work).returncode
        except subprocess.TimeoutExpired:
            rc = "timeout"
        res["simgrid-mc reduction:" + r] = rc
        if rc == 0:
            missed.append(r)
        ctx.cov["evaluations"] += 1
    ctx.cov["commtest_witness"] = res
    ctx.cov["evaluations"] += 2
    # repaired: the pair is declared dependent (comm_send_test_counterexample + REGRESSION queries); every reduction run here
    # must find the failing execution
    if a == "assert-fails" and b != "assert-fails" and missed:
        ctx.violation("COMM_TEST on an unpaired comm x COMM_ASYNC_SEND on its mailbox: the test result differs in the two orders "
                      "(replays: %s vs %s) and reductions %s finish with exit 0 although the failing execution 1;2;1 exists" % (a, b, missed),
                      {"program": "props/C39/witness_commtest.cpp", "replay_failing": "1;2;1", "replay_passing": "1;1;2",
                       "results": res}, key=KEY_COMMTEST)
    elif not (a == "assert-fails" and b != "assert-fails"):
        ctx.broken.append({"kind": "witness-no-longer-replays", "what": "witness_commtest.cpp", "results": res})


KEY_CONDVAR = "condvar-async-lock-pair-declared-independent"


def run_condvar_witness(ctx):
    """Replay of `condvar_async_lock_pair_counterexample` on the real implementation: witness_condvar.cpp.  The two recorded
    paths differ ONLY by the order of the two adjacent CONDVAR_ASYNC_LOCK (actors 1 and 2, one condvar, two mutexes):
    A's assertion fails when B's comes first, holds otherwise.  Then the reductions are run on the program: they must find
    the failing execution."""
    import subprocess
    from vlib import core
    w = ctx.build_harness("witness_condvar.cpp", flags=("-w",))
    if not w:
        return
    env = dict(os.environ, **ctx.sg_env())
    fail_path = "1;1;1;2;2;2;2;1;3;3;3;3;3;3;3;3;3;3;3;2;2;2;2;1;1;1;1;1"
    pass_path = "1;1;1;2;2;2;1;2;3;3;3;3;3;3;3;3;3;3;3;1;1;1;1;1;2;2;2;2;2"

    def replay(path):
        p = subprocess.run([w, "--cfg=model-check/replay:" + path, "--log=root.thres:critical"], capture_output=True, text=True,
                           timeout=60, env=env, cwd=ctx.work)
        return "assert-fails" if "MC assertion failed" in (p.stdout + p.stderr) else "rc=%d" % p.returncode
    a, b = replay(fail_path), replay(pass_path)
    res = {"replay CAL(2);CAL(1)": a, "replay CAL(1);CAL(2)": b}
    mc = os.path.join(core.SGBUILD, "bin", "simgrid-mc")
    missed = []
    for r in (["dpor"] if ctx.tier == "quick" else ["dpor", "sdpor", "odpor"]):
        try:
            rc = subprocess.run([mc, "--cfg=model-check/reduction:" + r, "--log=root.thres:critical", w], capture_output=True,
                                text=True, timeout=240, env=env, cwd=ctx.work).returncode
        except subprocess.TimeoutExpired:
            rc = "timeout"
        res["simgrid-mc reduction:" + r] = rc
        if rc == 0:
            missed.append(r)
        ctx.cov["evaluations"] += 1
    ctx.cov["condvar_witness"] = res
    ctx.cov["evaluations"] += 2
    if a == "assert-fails" and b != "assert-fails" and missed:
        ctx.violation("CONDVAR_ASYNC_LOCK x CONDVAR_ASYNC_LOCK on one condition variable (two mutexes) is ALWAYS_INDEP but the waiters are "
                      "queued in execution order: the replays that differ only by the order of these two adjacent transitions end "
                      "differently (%s vs %s) and reductions %s finish with exit 0 although the failing execution exists" % (a, b, missed),
                      {"program": "props/C39/witness_condvar.cpp", "replay_failing": fail_path, "replay_passing": pass_path,
                       "results": res}, key=KEY_CONDVAR)
    elif not (a == "assert-fails" and b != "assert-fails"):
        ctx.broken.append({"kind": "witness-no-longer-replays", "what": "witness_condvar.cpp", "results": res})


# Witness pairs of the repaired defects: the real dispatch_depends must answer "dependent" in both directions (and
# "independent" on the control pairs).  A different answer is the old defect back: violation under its old key.
REGRESSION = {
    "dep BARRIER_ASYNC_LOCK 1 0 0 | BARRIER_ASYNC_LOCK 2 0 0": ("1", KEY_BARRIER),
    "dep BARRIER_ASYNC_LOCK 1 0 0 | BARRIER_ASYNC_LOCK 2 0 1": ("0", None),
    "dep BARRIER_WAIT 1 0 0 | BARRIER_WAIT 2 0 0": ("0", None),
    "dep COMM_TEST 1 0 7 -1 1 0 | COMM_ASYNC_SEND 2 0 0 0 0": ("1", KEY_COMMTEST),
    "dep COMM_TEST 1 0 7 1 -1 0 | COMM_ASYNC_RECV 2 0 0 0 0": ("1", KEY_COMMTEST),
    "dep COMM_TEST 1 0 7 -1 1 0 | COMM_ASYNC_SEND 2 0 0 1 0": ("0", None),
    "dep COMM_TEST 1 0 7 3 1 0 | COMM_ASYNC_SEND 2 0 0 0 0": ("0", None),
    "dep ACTOR_CREATE 1 0 3 | RANDOM 3 0 0 1": ("1", "random-indep-of-own-actor-create"),
    "dep ACTOR_CREATE 1 0 3 | RANDOM 2 0 0 1": ("0", None),
}


def run(ctx):
    ctx.cov["rule"] = ("pairs of synthetic transitions drawn from splitmix64(VERIF_SEED): 60% inside one dependency group "
                       "(mutex / sem / barrier / comm incl. TESTANY,WAITANY / condvar+mutex / actor), 40% any two kinds, "
                       "small id domains so that the equality arms take both outcomes, about 100 malformed pairs (NOMC kinds, ANY index "
                       "out of range); each pair is evaluated in both directions on the real dispatch_depends. "
                       "non-trivial = distinct query with different actors that does not abort")
    ctx.assumptions += [
        "commutation on real kernel states is not observed (needs props/C39/proposed_hook.diff): indep_commute is tied to the "
        "implementation through `depends` (this check) and through the Sync-family semantics only",
        "members of TESTANY/WAITANY are COMM_TEST/COMM_WAIT (what the application sends); nested ANY not modelled",
        "kinds hand-listed in the Python generator's SCHEMA are cross-checked by the harness (unread bytes = bad query)"]
    ctx.ensure_simgrid(["simgrid", "simgrid-mc"])
    table = run_translator(ctx)
    ctx.lean_prove()
    drv = ctx.lean_exe()
    h = ctx.build_harness("harness.cpp")
    if not h:
        return
    n = 3000 if ctx.tier == "quick" else 100000
    if ctx.broken:
        n *= 10 if ctx.tier == "quick" else 3
    corpus = [l.strip() for l in open(ctx.pdir + "/corpus.txt") if l.strip() and not l.startswith("#")]
    if ctx.replay and "program" in json.load(open(ctx.replay))["case"]:
        run_barrier_witness(ctx)
        run_commtest_witness(ctx)
        run_condvar_witness(ctx)
        return
    if ctx.replay:
        queries = [(json.load(open(ctx.replay))["case"]["query"], (None, None, False))]
    else:
        queries = [(c, (None, None, False)) for c in corpus + [q for q in REGRESSION if q not in corpus]] + gen_queries(SplitMix(ctx.seed), n)
    rc, out, err = ctx.run_lines([h], [q for q, _ in queries], timeout=1500)
    if rc != 0 or len(out) != len(queries):
        ctx.broken.append({"kind": "harness-run", "rc": rc, "stderr": err[-2000:], "lines": len(out)})
        return
    verdicts = None
    if drv:
        rc, verdicts, err = ctx.run_lines([drv], out)
        if rc != 0 or not verdicts or verdicts[-1] != "END %d" % len(out):
            ctx.broken.append({"kind": "driver-run", "rc": rc, "stderr": err[-2000:]})
            verdicts = None
    seen = set()
    cells, hits = {}, {}
    for i, ((q, (u1, u2, same)), l) in enumerate(zip(queries, out)):
        ctx.cov["evaluations"] += 1
        ans = l.split(" => ")[1].split() if " => " in l else []
        if len(ans) != 2 or any(a.startswith("badquery") for a in ans):
            ctx.broken.append({"kind": "harness-bad-query", "line": l[:300]})
            continue
        # the property's own monitor, evaluated here too so that it does not depend on the Lean driver being buildable
        if ans[0] != ans[1]:
            ctx.violation("dispatch_depends is not symmetric: t1.depends(t2)=%s but t2.depends(t1)=%s" % tuple(ans),
                          {"query": q, "impl": l}, key=None)
            continue
        if q in REGRESSION and ans[0] != REGRESSION[q][0]:
            ctx.violation("witness pair of a repaired defect: dispatch_depends answers %s, expected %s" % (ans[0], REGRESSION[q][0]),
                          {"query": q, "impl": l}, key=REGRESSION[q][1])
            continue
        if u1 and u2 and table:
            ia, ib = sorted((table["types"].index(u1), table["types"].index(u2)))
            cells[(ia, ib)] = cells.get((ia, ib), 0) + 1
            if not same:
                hk = "%d:%s" % (table["rows"][ia][ib], ans[0])
                hits[hk] = hits.get(hk, 0) + 1
        if q not in seen and not same and ans[0] != "die":
            seen.add(q)
            ctx.cov["distinct_nontrivial"] += 1
        if verdicts is None:
            continue
        v = verdicts[i]
        if v == "ok":
            ctx.cov["traces_validated_against_impl"] += 1
        elif v.startswith("MONFAIL"):
            ctx.violation(v, {"query": q, "impl": l, "verdict": v}, key=None)
        else:
            # model and implementation differ though the real relation is symmetric here: the theorems about `depends`
            # (incl. indep_commute) no longer speak about this code.  Broken correspondence.
            if len([b for b in ctx.broken if b.get("kind") == "depends-differs"]) < 5:
                ctx.broken.append({"kind": "depends-differs", "query": q, "impl": l, "verdict": v[:300]})
    if not ctx.replay:
        run_barrier_witness(ctx)
        run_commtest_witness(ctx)
        run_condvar_witness(ctx)
    ctx.cov["samples"] = out[:2] + out[len(corpus) + len(REGRESSION):len(corpus) + len(REGRESSION) + 4]
    if table:
        n_t = len(table["types"])
        reachable = [(i, j) for i in range(n_t) for j in range(i, n_t)
                     if table["types"][i] in SCHEMA and table["types"][j] in SCHEMA]
        ctx.cov["lut_cells_hit"] = "%d of %d upper-triangle cells between constructible kinds" % (
            len([c for c in reachable if c in cells]), len(reachable))
        ctx.cov["action_answer_hits"] = dict(sorted(hits.items()))
