// C39 witness of `condvar_async_lock_pair_counterexample` (finding condvar-async-lock-pair-declared-independent):
// two CONDVAR_ASYNC_LOCK on ONE condition variable (through two different mutexes) are ALWAYS_INDEP in dependency_table,
// but ConditionVariableImpl::acquire_async pushes the issuers on ongoing_acquisitions_ in execution order and signal()
// wakes the front one.
//   A: m0.lock; s0.release; cv.wait(m0); ok = m2.try_lock; MC_assert(ok); cv.notify_one; m0.unlock
//   B: m1.lock; s1.release; cv.wait(m1); m2.try_lock;                     cv.notify_one; m1.unlock
//   C: s0.acquire; s1.acquire; m0.lock; m1.lock; cv.notify_one; m0.unlock; m1.unlock
// C can only take m0 / m1 once A / B have released them inside their CONDVAR_ASYNC_LOCK: both are queued on cv when C
// signals, no signal is lost, nobody deadlocks.  The first one in the queue is woken by C, takes m2 and wakes the other.
// A's assertion fails exactly when B's CONDVAR_ASYNC_LOCK is executed before A's.
#include <simgrid/modelchecker.h>
#include <simgrid/s4u.hpp>
namespace sg4 = simgrid::s4u;
int main(int argc, char* argv[])
{
  sg4::Engine e(&argc, argv);
  auto* zone = e.get_netzone_root();
  auto* h    = zone->add_host("h0", 1e9);
  zone->seal();
  auto m0 = sg4::Mutex::create();
  auto m1 = sg4::Mutex::create();
  auto m2 = sg4::Mutex::create();
  auto s0 = sg4::Semaphore::create(0);
  auto s1 = sg4::Semaphore::create(0);
  auto cv = sg4::ConditionVariable::create();
  h->add_actor("A", [=]() {
    m0->lock();
    s0->release();
    cv->wait(m0);
    bool ok = m2->try_lock();
    MC_assert(ok);
    cv->notify_one();
    m0->unlock();
  });
  h->add_actor("B", [=]() {
    m1->lock();
    s1->release();
    cv->wait(m1);
    m2->try_lock();
    cv->notify_one();
    m1->unlock();
  });
  h->add_actor("C", [=]() {
    s0->acquire();
    s1->acquire();
    m0->lock();
    m1->lock();
    cv->notify_one();
    m0->unlock();
    m1->unlock();
  });
  e.run();
  return 0;
}
