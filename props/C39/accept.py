#!/usr/bin/env python3
"""Refresh lean/SgVerif/C39/accepted/{Gen.lean,hashes.json} from the current /repo.  Run by hand, only after
re-reading the changed C++ bodies and updating Model.lean accordingly:   python3 props/C39/accept.py <lut_dump binary>"""
import json, os, subprocess, sys
here = os.path.dirname(os.path.abspath(__file__))
sys.path.insert(0, here)
import gen
root = os.path.dirname(os.path.dirname(here))
lines = subprocess.run([sys.argv[1]], capture_output=True, text=True, check=True).stdout.split("\n")
text, hashes = gen.translate(os.environ.get("VERIF_REPO", "/repo"), lines)
d = os.path.join(root, "lean", "SgVerif", "C39", "accepted")
os.makedirs(d, exist_ok=True)
open(os.path.join(d, "Gen.lean"), "w").write(text)
json.dump({k: {"hash": h, "text": t} for k, (h, t) in hashes.items()}, open(os.path.join(d, "hashes.json"), "w"), indent=1)
print("accepted copies refreshed in", d)
