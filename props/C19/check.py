"""C19 — update algorithms and solver options give the same timings.
Theorems: lean/SgVerif/C19/Props.lean (Lazy heap date = date at which Full's remains reaches 0; TI inversion = stepping).
Tie: every generated workload is run on the real kernel under the 24 configurations cpu/optim x network/optim x
cpu|network/maxmin-selective-update (invalid ones skipped with a recorded reason); the Lean driver evaluates the property
(all finish dates agree within 1e-9 relative) and, for execs in isolation, compares with the model's date."""
import json
import os
import sys

from vlib.core import SplitMix

sys.path.insert(0, os.path.join(os.path.dirname(os.path.abspath(__file__)), "..", "_shared", "fluid"))
import gen as G  # noqa: E402

# classes of the three defects this check found, all fixed in the library (NOTES.md, known_findings.txt `fixed:` lines,
# props/C19/fix_series): a disagreement is a plain violation, `classify` only names the class when one regresses
KEYS = {"noop-penalty": "lazy-noop-penalty-update-drops-heap-entry",
        "bw-latency": "bandwidth-change-during-latency-phase",
        "ti-suspend": "ti-suspend-resume-priority-stale-remains"}


def configs(ti_ok):
    """[(name, cfg string)] of the valid configurations, {skipped reason: count}"""
    res, skipped = [], {}
    for cpu in ("Lazy", "Full", "TI"):
        for net in ("Lazy", "Full"):
            for cs in ("yes", "no"):
                for ns in ("yes", "no"):
                    why = None
                    if cpu == "Lazy" and cs == "no":
                        why = "cpu Lazy requires cpu/maxmin-selective-update (xbt_assert)"
                    elif net == "Lazy" and ns == "no":
                        why = "network Lazy requires network/maxmin-selective-update (xbt_assert)"
                    elif cpu == "TI" and not ti_ok:
                        why = "TI handles single-core hosts without bounds only"
                    if why:
                        skipped[why] = skipped.get(why, 0) + 1
                        continue
                    name = "%s-%s-%s-%s" % (cpu, net, cs, ns)
                    res.append((name, "cpu/optim:%s,network/optim:%s,cpu/maxmin-selective-update:%s,"
                                      "network/maxmin-selective-update:%s" % (cpu, net, cs, ns)))
    return res, skipped


def iso_case(rng):
    """one exec alone on its host, optional repeating speed profile, started at 0 (profile) or at a random date"""
    speed = rng.choice(G.SPEEDS)
    dur = rng.choice([1.0, 0.5, 3.0, 7.25, 20.0, 0.001, 37.5])
    flops = speed * dur * rng.choice([1.0, 0.5, 1.5])
    prof = G.gen_profile(rng, [1.0, 0.5, 0.25, 0.75, 0.125]) if rng.chance(2, 3) else None   # short periods: wrap-around
    start = 0.0 if prof else G.rnd_time(rng, 4)
    plat = "H h0 %s 1" % G.fx(speed) + (" " + G.prof_tokens(*prof) if prof else "")
    sc = {"plat": [plat], "ops": ["X %s exec e1 h0 %s 0x0p+0 0x1p+0 1" % (G.fx(start), G.fx(flops))],
          "acts": {"e1": ("e", flops, ["h0"])}, "klass": "iso", "feats": set(["iso-profile" if prof else "iso"])}
    pieces = []
    if prof:
        period, pts = prof
        for i, (t, v) in enumerate(pts):
            end = pts[i + 1][0] if i + 1 < len(pts) else period
            pieces.append((end - t, v))
    sc["iso"] = ["ISO", G.hex_to_rat(G.fx(flops)), G.hex_to_rat(G.fx(start)), G.hex_to_rat(G.fx(speed)), str(len(pieces))] + \
                [G.hex_to_rat(G.fx(x)) for pc in pieces for x in pc]
    return sc


def make_cases(rng, n):
    cases = []
    for i in range(n):
        r = rng.fork(i)
        if r.chance(1, 5):
            sc, ti_ok = iso_case(r), True
        else:
            ti_ok = r.chance(1, 2)
            sc = G.gen_scenario(r, klass=r.choice(["execs", "execs", "comms", "mixed", "boundary", "equal"]), ti_ok=ti_ok, no_io=True)
        cfgs, skipped = configs(ti_ok)
        cases.append({"index": i, "klass": sc["klass"], "feats": sorted(sc["feats"]), "acts": list(sc["acts"].keys()),
                      "iso": sc.get("iso", []), "skipped": skipped,
                      "runs": [(name, G.scenario_line(sc, cfg, 0)) for name, cfg in cfgs]})
    return cases


def corpus_cases(pdir):
    """corpus lines: `<ti 0|1> @@ <scenario sections without cfg/sample>`"""
    cases = []
    for l in open(os.path.join(pdir, "corpus.txt")):
        l = l.strip()
        if not l or l.startswith("#"):
            continue
        ti, body = l.split(" @@ ", 1)
        cfgs, skipped = configs(ti.strip() == "1")
        acts = [sec.split()[3] for sec in body.split(" ; ") if sec.split()[2:3] and sec.split()[2] in ("exec", "comm", "io")]
        cases.append({"index": -1, "klass": "corpus", "feats": [], "acts": acts, "iso": [], "skipped": skipped,
                      "runs": [(name, "cfg %s ; sample 0 ; %s" % (cfg, body)) for name, cfg in cfgs]})
    return cases


def tie_case(case):
    """no-margin inputs (DESIGN §4 tie stream): a suspend dated exactly (1e-6 relative) at a finish date of its target under
    some configuration: whether the suspension comes before or after the completion is decided by rounding (Full keeps a
    residue of ~1e-16*cost that then waits for the resume), so only tie-insensitive facts (everything completes) are
    compared.  Only `susp`: the other operations change the date of a residue by nothing measurable (and before its fix
    the TI defect made activities finish exactly at a resume / priority-change date, which must not be mistaken for a
    tie if it ever comes back)."""
    from fractions import Fraction
    ops = {}
    for sec in case["runs"][0][1].split(" ; "):
        t = sec.split()
        if len(t) >= 4 and t[0] == "X" and t[2] == "susp":
            ops.setdefault(t[3], []).append(float.fromhex(t[1]) if "x" in t[1] else float(t[1]))
    for k, a in enumerate(case["acts"]):
        for f in case["fins"]:
            v = float(Fraction(f[k]))
            if v >= 0 and any(abs(v - t) <= 1e-6 * max(1.0, abs(v)) for t in ops.get(a, [])):
                return True
    return False


def finishes(ans, acts):
    """finish date (rational string) of each activity from the E records; -1 when the run crashed or it never completed"""
    t = ans.split()
    f = {}
    for i, x in enumerate(t):
        if x == "E" and i + 4 < len(t):
            f[t[i + 1]] = G.hex_to_rat(t[i + 3]) if t[i + 4] == "DONE" else "-1"
    return [f.get(a, "-1") for a in acts]


def classify(case, names, fins):
    """which (fixed) defect class would explain the disagreement: the class must be present in the workload AND removing
    the configurations it affects must restore agreement"""
    from fractions import Fraction

    def agree(idx, stuck_ok=False):
        for k in range(len(case["acts"])):
            vals = [Fraction(fins[i][k]) for i in idx]
            if stuck_ok and vals and all(v < 0 for v in vals):
                continue          # never completes under any configuration of the group (the Lazy hang)
            if any(v < 0 for v in vals):
                return False
            if vals and max(vals) - min(vals) > Fraction(1, 10 ** 9) * max(1, max(abs(v) for v in vals)):
                return False
        return True
    line = case["runs"][0][1]
    present = set()
    for name, l in case["runs"]:
        for ks in G.witness_classes(l, l.split(" ; ")[0]).values():
            present |= ks
    allidx = list(range(len(names)))
    drop = {"ti-suspend": lambda n: n.startswith("TI-"), "noop-penalty": lambda n: n.startswith("Lazy-")}
    for k in ("ti-suspend", "noop-penalty"):
        if k in present and agree([i for i in allidx if not drop[k](names[i])]):
            return KEYS[k]
    if "bw-latency" in present:
        lz = [i for i in allidx if names[i].split("-")[1] == "Lazy"]
        fu = [i for i in allidx if names[i].split("-")[1] == "Full"]
        for k in (None, "ti-suspend", "noop-penalty"):
            f = (lambda i: True) if k is None else (lambda i, k=k: not drop[k](names[i]))
            if (k is None or k in present) and agree([i for i in lz if f(i)], True) and agree([i for i in fu if f(i)]):
                return KEYS["bw-latency"]
    if "ti-suspend" in present and "noop-penalty" in present and \
            agree([i for i in allidx if not names[i].startswith("TI-") and not names[i].startswith("Lazy-")]):
        return KEYS["noop-penalty"]
    return None


def run(ctx):
    ctx.cov["rule"] = ("one case = one generated platform + timed workload (execs/comms with suspend/resume, bound and priority "
                       "changes, speed and bandwidth profiles; 1 in 5 is an exec in isolation with a model prediction) run under "
                       "every valid configuration of the 24; non-trivial = distinct case with >= 1 activity and >= 2 "
                       "configurations that all completed")
    ctx.assumptions += ["finish dates are compared within 1e-9 relative (tolerance lane): rounding and the sg_precision_timing "
                        "window of the Lazy heap are not modelled",
                        "the rates themselves (LMM solution, selective update) are C15-C17's objects: here only their effect on "
                        "dates is observed"]
    ctx.ensure_simgrid(["simgrid"])
    ctx.lean_prove()
    drv = ctx.lean_exe()
    h = G.build_harness(ctx)
    if not (drv and h):
        return
    n = 25 if ctx.tier == "quick" else 250
    if ctx.broken:
        n *= 10
    if ctx.replay:
        cases = [json.load(open(ctx.replay))["case"]]
    else:
        cases = corpus_cases(ctx.pdir) + make_cases(SplitMix(ctx.seed), n)
    lines = [l for c in cases for _, l in c["runs"]]
    out = G.run_harness(ctx, h, lines, workers=6)
    if out is None:
        return
    pos, dlines = 0, []
    for c in cases:
        c["names"] = [nm for nm, _ in c["runs"]]
        c["fins"], c["impl"] = [], []
        for nm, l in c["runs"]:
            ans = out[pos].split(" =>", 1)[1] if " =>" in out[pos] else ""
            pos += 1
            c["impl"].append(nm + ":" + ans.strip()[-400:])
            c["fins"].append(["-1"] * len(c["acts"]) if "CRASH" in ans else finishes(ans, c["acts"]))
        c["tie"] = tie_case(c)
        dlines.append(" ".join(["c19tie" if c["tie"] else "c19", str(len(c["acts"]))] + c["iso"]) + " => " +
                      " ".join("C %s %s" % (nm, " ".join(f)) for nm, f in zip(c["names"], c["fins"])))
    rc, verdicts, err = ctx.run_lines([drv], dlines, timeout=3000)
    if rc != 0 or not verdicts or verdicts[-1] != "END %d" % len(dlines):
        ctx.broken.append({"kind": "driver-run", "rc": rc, "stderr": err[-2000:], "last": verdicts[-1:] if verdicts else None})
        return
    kinds, feats, skipped, nruns, bykey, pending = {}, {}, {}, 0, {}, []
    for c, v, dl in zip(cases, verdicts, dlines):
        ctx.cov["evaluations"] += 1
        nruns += len(c["runs"])
        kinds[c["klass"]] = kinds.get(c["klass"], 0) + 1
        if c["tie"]:
            kinds["(tie stream)"] = kinds.get("(tie stream)", 0) + 1
        for f in c["feats"]:
            feats[f] = feats.get(f, 0) + 1
        for k, x in c["skipped"].items():
            skipped[k] = skipped.get(k, 0) + x
        if v == "ok":
            ctx.cov["traces_validated_against_impl"] += 1
            if c["acts"] and len(c["runs"]) >= 2:
                ctx.cov["distinct_nontrivial"] += 1
        elif v.startswith("MONFAIL"):
            msg = v.split(" => ", 1)[1] if " => " in v else v
            rec = {k: c[k] for k in ("index", "klass", "feats", "acts", "iso", "skipped", "runs")}
            rec["verdict"] = msg
            rec["finish_dates"] = dict(zip(c["names"], c["fins"]))
            key = classify(c, c["names"], c["fins"])
            bykey[key or "unclassified"] = bykey.get(key or "unclassified", 0) + 1
            pending.append((0 if key is None else 1, msg[:500], rec, key))
        else:
            ctx.broken.append({"kind": "disagree", "verdict": v[:600], "line": dl[:1500]})
    for _, msg, rec, key in sorted(pending, key=lambda x: x[0]):     # unclassified first (only 5 replay files are kept)
        ctx.violation(msg, rec, key=key)
    ctx.cov["samples"] = [c["runs"][0][1] for c in cases[:2] if c["runs"]] + dlines[-1:]
    ctx.cov["distribution"] = kinds
    ctx.cov["features"] = feats
    ctx.cov["runs"] = nruns
    ctx.cov["violations_by_key"] = bykey
    ctx.cov["skipped_configurations"] = skipped
