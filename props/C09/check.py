"""C09 — message queues are exactly-once and FIFO.
Theorems: lean/SgVerif/C09/Props.lean (all histories of iput/iget/cancel on a MessageQueueImpl model).
Tie: trace acceptance — generated actor programs run on the real library through MessageQueue/Mess
(props/_shared/msg/harness.cpp); the Lean driver replays the observed kernel calls on the model, accepts only the
payloads the model matched, compares the final queues, and evaluates the monitors on the log alone."""
import json
import os
import sys

sys.path.insert(0, os.path.join(os.path.dirname(os.path.abspath(__file__)), "..", "_shared", "msg"))
import common  # noqa: E402
from vlib.core import SplitMix  # noqa: E402


# The real blocking MessageQueue::get<T>() hands the kernel a buffer on the getter's stack.  With the defect
# `mess-finish-recopies-payload` a later wait()/test() of the putter writes that dead stack slot again: the outcome
# (nothing / garbage in a local / segfault) depends on the stack layout, so the generator writes blocking gets as
# get_async(&heap_buffer)->wait() — the body of get<T>() — until the fix is in; then set this to True.
REAL_GET = False


def gen_program(rng, idx):
    dur = common.Durations()
    nact = rng.choice([2, 2, 3, 3, 4, 5, 6])
    nq = rng.choice([1, 1, 1, 2, 3])
    style = rng.below(5)       # 0 blocking mostly, 1 async mostly, 2 timeouts, 3 cancel/detach, 4 everything
    hid = [0]
    actors = []
    for a in range(nact):
        ops = []
        mine = []              # open handles: [id, is_get]
        n = rng.range(1, 7)
        for _ in range(n):
            q = rng.below(nq)
            w = {"mput": 3, "mget": 3, "mputa": 3, "mgeta": 3, "mputd": 1, "mwait": 3, "mwaitfor": 1, "mtest": 2,
                 "mcancel": 1, "sleep": 2}
            if style == 0:
                w.update(mput=8, mget=8)
            elif style == 1:
                w.update(mputa=8, mgeta=8, mwait=6)
            elif style == 2:
                w.update(mwaitfor=8, mgeta=6, mputa=5, sleep=4)
            elif style == 3:
                w.update(mcancel=6, mputd=5, mputa=5, mgeta=5)
            if not mine:
                for k in ("mwait", "mwaitfor", "mtest", "mcancel"):
                    w[k] = 0
            kinds = [k for k, v in w.items() for _ in range(v)]
            k = rng.choice(kinds)
            if k == "sleep":
                ops.append("sleep %s" % dur.make(rng.below(3)))
            elif k in ("mput", "mget") and not (rng.chance(1, 12) and (k == "mput" or REAL_GET)):
                # blocking put()/get<T>() written as their bodies, put_async(p)->wait() / get_async(&buf)->wait(): every
                # simcall then has its own call line (the real put()/get<T>() hide the wait behind one line; they are
                # still called now and then)
                hid[0] += 1
                ops.append("%s %d %d%s" % ("mputa" if k == "mput" else "mgeta", q, hid[0], "" if k == "mput" else " 1"))
                ops.append("mwait %d" % hid[0])
            elif k in ("mput", "mputa", "mputd", "mget"):
                hid[0] += 1
                ops.append("%s %d %d" % (k, q, hid[0]))
                if k == "mputa":
                    mine.append(hid[0])
            elif k == "mgeta":
                hid[0] += 1
                ops.append("mgeta %d %d %d" % (q, hid[0], 1 if rng.chance(3, 4) else 0))
                mine.append(hid[0])
            else:
                h = rng.choice(mine)
                if k == "mwaitfor":
                    ops.append("mwaitfor %d %s" % (h, dur.make(rng.below(3))))
                else:
                    ops.append("%s %d" % (k, h))
                if k in ("mwait", "mcancel"):
                    mine.remove(h)
        if rng.chance(1, 2):
            for h in mine:
                ops.append("mwait %d" % h)
        actors.append((a, ops))
    if rng.chance(3, 4):
        # balance puts and gets per queue (detached puts / a last getter) so that most programs can run to completion
        for q in range(nq):
            toks = [op.split() for _, ops in actors for op in ops]
            nput = sum(1 for t in toks if t[0] in ("mput", "mputa", "mputd") and int(t[1]) == q)
            nget = sum(1 for t in toks if t[0] in ("mget", "mgeta") and int(t[1]) == q)
            who = rng.below(len(actors))
            for _ in range(nget - nput):
                hid[0] += 1
                actors[who][1].append("mputd %d %d" % (q, hid[0]))
            for _ in range(nput - nget):
                hid[0] += 1
                actors[who][1].append("mgeta %d %d 1" % (q, hid[0]))
                actors[who][1].append("mwait %d" % hid[0])
    return common.program_line(idx, actors)


KEY_RECOPY = "mess-finish-recopies-payload"


def uses_real_get(program):
    return any(op.split()[:1] == ["mget"] for part in program.split("|")[1:] for op in part.split(";"))


def classify(res, verdict):
    """stable classification of a monitor failure (matched against known_findings.txt)"""
    if "written again" in verdict:
        return KEY_RECOPY
    if uses_real_get(res["program"]):
        # the real get<T>() gives the kernel a stack buffer: the second write lands in a dead frame of the getter
        # (segfault, or a garbled local of the harness)
        return KEY_RECOPY
    return None


def run(ctx):
    ctx.cov["rule"] = ("programs of 2..6 actors over 1..3 message queues (put/put_async/put_init+detach/get/get_async with and "
                       "without buffer/wait/wait_for/test/cancel/sleep) drawn from splitmix64(VERIF_SEED) in 5 styles; "
                       "non-trivial = distinct program in which at least one payload was delivered")
    ctx.assumptions += [
        "with one worker thread the order of the harness's `c` lines in a scheduling round is the order in which maestro "
        "handles the simcalls (actors cancel what they leave open through cancel(), not through the exit path)",
        "queues are independent objects: the model is one MessageQueueImpl, the driver keeps one model per queue",
        "durations are sums of distinct powers of two so no timer fires at the date of another event",
    ]
    ctx.ensure_simgrid(["simgrid"])
    ctx.lean_prove()
    drv = ctx.lean_exe()
    h = common.build(ctx)
    if not (drv and h):
        return
    n = 160 if ctx.tier == "quick" else 1500
    if ctx.broken:
        n *= 10
    corpus = [l.strip() for l in open(ctx.pdir + "/corpus.txt") if l.strip() and not l.startswith("#")]
    if ctx.replay:
        programs = [json.load(open(ctx.replay))["case"]["program"]]
    else:
        rng = SplitMix(ctx.seed)
        programs = corpus + [gen_program(rng.fork(i), i + 1) for i in range(n)]
    res = common.execute(ctx, h, drv, programs)
    if res is None:
        return
    seen = set()
    stats = {"deadlock": 0, "ok": 0, "timeouts": 0, "late_deliveries": 0, "delivered": 0, "cancels": 0, "tests_true": 0,
             "tests_false": 0, "detached": 0}
    for r in res:
        ctx.cov["evaluations"] += 1
        log = r["log"]
        delivered = sum(1 for l in log if (l.startswith("r ") and ("=> ok " in l or "=> true " in l)) or
                        (l.startswith("late ") and not l.endswith("none")))
        stats["delivered"] += delivered
        stats["deadlock" if log[-1].startswith("end => deadlock") else "ok"] += 1
        stats["timeouts"] += sum(1 for l in log if l.endswith("exc timeout"))
        stats["late_deliveries"] += sum(1 for l in log if l.startswith("late ") and not l.endswith("none"))
        stats["cancels"] += sum(1 for l in log if l.startswith("c ") and " mcancel " in l)
        stats["tests_true"] += sum(1 for l in log if " mtest " in l and "=> true" in l)
        stats["tests_false"] += sum(1 for l in log if " mtest " in l and "=> false" in l)
        stats["detached"] += sum(1 for l in log if l.startswith("c ") and " mputd " in l)
        stats["real_blocking_calls"] = stats.get("real_blocking_calls", 0) + sum(
            1 for l in log if l.startswith("c ") and (" mput " in l or " mget " in l))
        stats["rewrites"] = stats.get("rewrites", 0) + sum(1 for l in log if l.startswith("rewrite ") and not l.endswith("none"))
        if delivered and r["program"].split("|", 1)[1] not in seen:
            seen.add(r["program"].split("|", 1)[1])
            ctx.cov["distinct_nontrivial"] += 1
        if not r["bad"]:
            ctx.cov["traces_validated_against_impl"] += 1
            continue
        mon = [(l, v) for l, v in r["bad"] if v.startswith("MONFAIL")]
        case = {"program": r["program"], "log": log, "verdicts": [v for _, v in r["bad"]]}
        if mon:
            ctx.violation(mon[0][1], case, key=classify(r, mon[0][1]))
        elif uses_real_get(r["program"]) and not REAL_GET:
            ctx.violation("garbled run of a program calling the real get<T>(): " + r["bad"][0][1], case,
                          key=classify(r, r["bad"][0][1]))
        else:
            ctx.broken.append({"kind": "correspondence", "program": r["program"], "first": r["bad"][0]})
    ctx.cov["samples"] = [r["program"] for r in res[:2] + res[len(corpus):len(corpus) + 3]]
    ctx.cov["distribution"] = stats
