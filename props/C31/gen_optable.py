#!/usr/bin/env python3
"""C31 translator: src/smpi/mpi/smpi_op.cpp (+ smpi_datatype.cpp/.hpp, private.hpp) -> lean/SgVerif/C31/Gen.lean

What is extracted (and how):
  * every `static void <f>_func(void *a, void *b, int *length, MPI_Datatype * datatype) {...}`: the file is
    macro-expanded with `g++ -E -P` (its #include lines removed, so MPI handles and C type names stay symbolic);
    the expanded body must be exactly  APPLY_BEGIN_OP_LOOP ; (if (datatype_base == (DT)) { loop over T with STMTS } else)* ;
    xbt_die.  STMTS (the expanded MAX_OP, SUM_OP, ... macro) is parsed by a small recursive-descent C expression parser
    into the AST of lean/SgVerif/C31/Ast.lean.  replace_func / no_func: recognised by their exact bodies.
  * `CREATE_MPI_OP(name, func, types)` -> (MPI_<name>, func, [DT_FLAG_*])
  * `CREATE_MPI_DATATYPE(name, id, type, flag)` of smpi_datatype.cpp -> (MPI_<name>, C type, [DT_FLAG_*]); DT_FLAG values
  * the hand-modelled glue (CHECK_OP in private.hpp, Op::apply, PMPI_Reduce_local) is compared with the recorded text.
Anything that does not parse raises TranslationError: the tie is broken, nothing is skipped.
"""
import os
import re
import subprocess
import sys


class TranslationError(Exception):
    pass


INFO = {}      # filled by translate(): python view of the tables (used by check.py's generators)


def norm(s):
    return re.sub(r"\s+", " ", s).strip()


# ---------------------------------------------------------------- expression parser
CAST = "static_cast<std::remove_reference_t<decltype(y[i])>>"
TOK_RE = re.compile(r"\s*(CASTB|[A-Za-z_]\w*|\d+|==|!=|&&|\|\||\+=|\*=|&=|\|=|\^=|[()\[\].?:<=;{}])")


def tokenize(s):
    s = s.replace(CAST, " CASTB ")
    toks, i = [], 0
    while i < len(s):
        if s[i:].strip() == "":
            break
        m = TOK_RE.match(s, i)
        if not m:
            raise TranslationError("cannot tokenize operator body at: %r" % s[i:i + 40])
        toks.append(m.group(1))
        i = m.end()
    return toks


class P:
    def __init__(self, toks):
        self.t, self.i = toks, 0

    def peek(self):
        return self.t[self.i] if self.i < len(self.t) else None

    def eat(self, x=None):
        tok = self.peek()
        if tok is None or (x is not None and tok != x):
            raise TranslationError("expected %r, found %r (tokens %r)" % (x, tok, self.t))
        self.i += 1
        return tok

    # stmts := ( '{' stmts '}' ';'? | expr-stmt ';' )*
    def stmts(self):
        res = []
        while self.peek() not in (None, "}"):
            if self.peek() == "{":
                self.eat("{")
                res += self.stmts()
                self.eat("}")
                if self.peek() == ";":
                    self.eat(";")
            else:
                res.append(self.stmt())
                self.eat(";")
        return res

    AOPS = {"=": "set", "+=": "add", "*=": "mul", "&=": "band", "|=": "bor", "^=": "bxor"}

    def stmt(self):
        lhs = self.ternary()
        op = self.peek()
        if op not in self.AOPS:
            raise TranslationError("statement without assignment operator near %r" % op)
        self.eat()
        rhs = self.ternary()
        return "⟨.%s, %s, %s⟩" % (self.AOPS[op], lhs, rhs)

    def ternary(self):
        c = self.lor()
        if self.peek() == "?":
            self.eat("?")
            t = self.ternary()
            self.eat(":")
            e = self.ternary()
            return "(.cond %s %s %s)" % (c, t, e)
        return c

    def lor(self):
        l = self.land()
        while self.peek() == "||":
            self.eat()
            l = "(.lor %s %s)" % (l, self.land())
        return l

    def land(self):
        l = self.equality()
        while self.peek() == "&&":
            self.eat()
            l = "(.land %s %s)" % (l, self.equality())
        return l

    def equality(self):
        l = self.rel()
        while self.peek() in ("==", "!="):
            op = self.eat()
            l = "(.%s %s %s)" % ("eq" if op == "==" else "ne", l, self.rel())
        return l

    def rel(self):
        l = self.postfix()
        while self.peek() == "<":
            self.eat()
            l = "(.lt %s %s)" % (l, self.postfix())
        return l

    def postfix(self):
        e = self.primary()
        while self.peek() == ".":
            self.eat(".")
            f = self.eat()
            if f not in ("value", "index"):
                raise TranslationError("unknown member .%s" % f)
            e = "(.%s %s)" % (f, e)
        return e

    def primary(self):
        tok = self.eat()
        if tok == "(":
            e = self.ternary()
            self.eat(")")
            return e
        if tok in ("x", "y"):
            self.eat("[")
            self.eat("i")
            self.eat("]")
            return ".a" if tok == "x" else ".b"
        if tok == "CASTB":
            self.eat("(")
            e = self.ternary()
            self.eat(")")
            return "(.castB %s)" % e
        if tok == "bool":
            self.eat("(")
            e = self.ternary()
            self.eat(")")
            return "(.toBool %s)" % e
        raise TranslationError("unexpected token %r in operator body" % tok)


def parse_stmts(src):
    p = P(tokenize(src))
    res = p.stmts()
    if p.peek() is not None:
        raise TranslationError("trailing tokens in operator body: %r" % p.t[p.i:])
    if not res:
        raise TranslationError("empty operator body")
    return res


# ---------------------------------------------------------------- function bodies
BEGIN = ("MPI_Datatype datatype_base = *datatype; while (datatype_base->duplicated_datatype() != MPI_DATATYPE_NULL) "
         "datatype_base = datatype_base->duplicated_datatype();")
CTYPE = r"[A-Za-z_][\w ]*?"
ENTRY_HEAD = re.compile(r"if \(datatype_base == \((\w+)\)\) \{ \{ int i; (" + CTYPE + r")\* x = \((" + CTYPE +
                        r")\*\)\(a\); (" + CTYPE + r")\* y = \((" + CTYPE + r")\*\)\(b\); "
                        r"for\(i = 0; i < \*\(length\); i\+\+\) \{ ")
END_RE = re.compile(r"\{ xbt_die\(\"Failed to apply \" _XBT_STRINGIFY\(\w+\) \" to type %s\", "
                    r"\(\*datatype\)->name\(\)\.c_str\(\)\); \}$")


def match_brace(s, i):
    """s[i-1] was '{' (depth 1): index of the matching '}'"""
    depth = 1
    while i < len(s):
        if s[i] == "{":
            depth += 1
        elif s[i] == "}":
            depth -= 1
            if depth == 0:
                return i
        i += 1
    raise TranslationError("unbalanced braces")


def parse_func(name, body):
    body = norm(body)
    if body == "memcpy(b, a, *length * (*datatype)->size());":
        return ".memcpy"
    if body in ("", "/* obviously a no-op */"):
        return ".nothing"
    if not body.startswith(BEGIN):
        raise TranslationError("%s: body does not start with APPLY_BEGIN_OP_LOOP: %r" % (name, body[:120]))
    s = body[len(BEGIN):].strip()
    entries = []
    while True:
        m = ENTRY_HEAD.match(s)
        if not m:
            break
        dt, t1, t2, t3, t4 = m.groups()
        if not (t1 == t2 == t3 == t4):
            raise TranslationError("%s/%s: APPLY_FUNC uses different element types %r" % (name, dt, m.groups()))
        j = match_brace(s, m.end())
        stmts = parse_stmts(s[m.end():j])
        rest = s[j + 1:].strip()
        if not rest.startswith("} } else"):
            raise TranslationError("%s/%s: unexpected text after loop: %r" % (name, dt, rest[:60]))
        s = rest[len("} } else"):].strip()
        entries.append((dt, norm(t1), stmts))
        INFO.setdefault("rows", {}).setdefault(name, []).append((dt, norm(t1)))
    if not END_RE.match(s):
        raise TranslationError("%s: cannot parse the rest of the if/else chain: %r" % (name, s[:200]))
    if not entries:
        raise TranslationError("%s: no entries" % name)
    seen = set()
    for dt, _, _ in entries:
        # a duplicated handle would make the later entry dead code: report it as untranslatable rather than guess
        if dt in seen:
            raise TranslationError("%s: datatype %s listed twice" % (name, dt))
        seen.add(dt)
    return ".loops [\n" + ",\n".join('    ("%s", "%s", [%s])' % (dt, ty, ", ".join(st)) for dt, ty, st in entries) + "]"


# hand-modelled glue: normalised text the Lean model (Model.lean: checkOp / reduceLocal / opApply) was written from
GLUE = {
    "CHECK_OP": (
        "#define CHECK_OP(num, op, type) { CHECK_MPI_NULL((num), MPI_OP_NULL, MPI_ERR_OP, (op)) "
        "CHECK_ARGS((op == MPI_REPLACE || op == MPI_NO_OP), MPI_ERR_OP, \"%s: param %d op %s cannot be used in non RMA calls\", "
        "__func__, (num), _XBT_STRINGIFY(op)); CHECK_DELETED((num), MPI_ERR_OP, op) if (not op->is_predefined()) "
        "simgrid::smpi::utils::set_current_handle(op); CHECK_ARGS(((op)->allowed_types() && (((op)->allowed_types() & "
        "(type)->flags()) == 0)), MPI_ERR_OP, \"%s: param %d op %s can't be applied to type %s\", __func__, (num), "
        "_XBT_STRINGIFY(op), type->name().c_str()); }"),
    "Op::apply": (
        "void Op::apply(const void* invec, void* inoutvec, const int* len, MPI_Datatype datatype) const { "
        "smpi_switch_data_segment(simgrid::s4u::Actor::self()); if (not smpi_process()->replaying() && *len > 0) { "
        "XBT_DEBUG(\"Applying operation of length %d from %p and from/to %p\", *len, invec, inoutvec); "
        "if (not is_fortran_op_) this->func_(const_cast<void*>(invec), inoutvec, const_cast<int*>(len), &datatype); else{ "
        "int tmp = datatype->c2f(); this->func_(const_cast<void*>(invec), inoutvec, const_cast<int*>(len), "
        "reinterpret_cast<MPI_Datatype*>(&tmp)); } } }"),
    "PMPI_Reduce_local": (
        "int PMPI_Reduce_local(const void* inbuf, void* inoutbuf, int count, MPI_Datatype datatype, MPI_Op op) { "
        "SET_BUF1(inbuf) SET_BUF2(inoutbuf) CHECK_TYPE(4, datatype) CHECK_COUNT(3, count) CHECK_BUFFER(1, inbuf, count, datatype) "
        "CHECK_BUFFER(2, inoutbuf, count, datatype) CHECK_OP(5, op, datatype) const SmpiBenchGuard suspend_bench; "
        "op->apply(inbuf, inoutbuf, &count, datatype); return MPI_SUCCESS; }"),
}


def strip_comments(s):
    s = re.sub(r"/\*.*?\*/", " ", s, flags=re.S)
    return re.sub(r"//[^\n]*", " ", s)


def check_glue(repo):
    priv = open(os.path.join(repo, "src/smpi/include/private.hpp")).read()
    m = re.search(r"#define CHECK_OP\(num, op, type\)\\\n(?:.*\\\n)*.*\n", priv)
    if not m or norm(m.group(0).replace("\\\n", " ")) != GLUE["CHECK_OP"]:
        raise TranslationError("private.hpp: CHECK_OP is not the text the model was written from:\n%s" %
                               (norm(m.group(0).replace("\\\n", " ")) if m else "<not found>"))
    op = strip_comments(open(os.path.join(repo, "src/smpi/mpi/smpi_op.cpp")).read())
    m = re.search(r"void Op::apply\(.*?\n\}\n", op, re.S)
    if not m or norm(m.group(0)) != GLUE["Op::apply"]:
        raise TranslationError("smpi_op.cpp: Op::apply is not the text the model was written from:\n%s" %
                               (norm(m.group(0)) if m else "<not found>"))
    coll = strip_comments(open(os.path.join(repo, "src/smpi/bindings/smpi_pmpi_coll.cpp")).read())
    m = re.search(r"int PMPI_Reduce_local\(.*?\n\}\n", coll, re.S)
    if not m or norm(m.group(0)) != GLUE["PMPI_Reduce_local"]:
        raise TranslationError("smpi_pmpi_coll.cpp: PMPI_Reduce_local is not the text the model was written from:\n%s" %
                               (norm(m.group(0)) if m else "<not found>"))


def flag_list(expr, where):
    expr = norm(expr)
    if expr == "0":
        return []
    fl = [f.strip() for f in expr.split("|")]
    for f in fl:
        if not re.fullmatch(r"DT_FLAG_\w+", f):
            raise TranslationError("%s: cannot parse flag expression %r" % (where, expr))
    return fl


def lean_strs(xs):
    return "[" + ", ".join('"%s"' % x for x in xs) + "]"


def translate(repo="/repo"):
    INFO.clear()
    check_glue(repo)
    src = open(os.path.join(repo, "src/smpi/mpi/smpi_op.cpp")).read()
    src = "\n".join(l for l in src.split("\n") if not re.match(r"\s*#\s*include", l))
    p = subprocess.run(["g++", "-E", "-P", "-x", "c++", "-"], input=src, capture_output=True, text=True)
    if p.returncode != 0:
        raise TranslationError("g++ -E failed: " + p.stderr[-500:])
    exp = strip_comments(p.stdout)
    # ---- functions
    funcs = []
    fre = re.compile(r"static void (\w+)\(void ?\*(?: ?a)?, void ?\*(?: ?b)?, int ?\*(?: ?length)?, MPI_Datatype ?\*(?: ?datatype)?\)\s*\{", re.S)
    pos = 0
    for m in fre.finditer(exp):
        j = match_brace(exp, m.end())
        funcs.append((m.group(1), parse_func(m.group(1), exp[m.end():j])))
    if len(re.findall(r"static void \w+\(", exp)) != len(funcs):
        raise TranslationError("smpi_op.cpp: a static function does not have the MPI_User_function signature")
    # ---- CREATE_MPI_OP
    ops = []
    ore = re.compile(r"SMPI_Op _XBT_CONCAT\(smpi_MPI_, (\w+)\)\(&\((\w+)\), true, true, ([^,]*), _XBT_STRINGIFY\(MPI_(\w+)\)\);")
    for m in ore.finditer(exp):
        if m.group(1) != m.group(4):
            raise TranslationError("CREATE_MPI_OP expansion mismatch")
        ops.append(("MPI_" + m.group(1), m.group(2), flag_list(m.group(3), "CREATE_MPI_OP(%s)" % m.group(1))))
    if len(ops) != exp.count("SMPI_Op ") or not ops:
        raise TranslationError("smpi_op.cpp: cannot parse every CREATE_MPI_OP line")
    fnames = [f for f, _ in funcs]
    for o, f, _ in ops:
        if f not in fnames:
            raise TranslationError("operator %s uses unknown function %s" % (o, f))
    # ---- datatypes
    dsrc = strip_comments(open(os.path.join(repo, "src/smpi/mpi/smpi_datatype.cpp")).read())
    dts = []
    for line in dsrc.split("\n"):
        if line.startswith("CREATE_MPI_DATATYPE("):
            m = re.fullmatch(r"CREATE_MPI_DATATYPE\((\w+), (\d+), ([\w:<> *]+?), ([\w| ]+)\)\s*", line)
            if not m:
                raise TranslationError("smpi_datatype.cpp: cannot parse %r" % line)
            dts.append(("MPI_" + m.group(1), norm(m.group(3)), [f for f in flag_list(m.group(4), line) if f != "DT_FLAG_BASIC"]))
        elif line.startswith("CREATE_MPI_DATATYPE_NULL("):
            m = re.fullmatch(r"CREATE_MPI_DATATYPE_NULL\((\w+), (-?\d+)\)\s*", line)
            if not m:
                raise TranslationError("smpi_datatype.cpp: cannot parse %r" % line)
            dts.append(("MPI_" + m.group(1), "", []))
    m = re.search(r"#define CREATE_MPI_DATATYPE\(name, id, type, flag\)(.*?)\n\n", dsrc, re.S)
    want = ("simgrid::smpi::Datatype _XBT_CONCAT(smpi_MPI_, name)((char*)\"MPI_\"#name, (id), sizeof(type), 0, "
            "sizeof(type), DT_FLAG_BASIC | flag );")
    if not m or norm(m.group(1).replace("\\\n", " ")) != want:
        raise TranslationError("CREATE_MPI_DATATYPE macro changed: %r" % (m and norm(m.group(1).replace("\\\n", " "))))
    hsrc = open(os.path.join(repo, "src/smpi/include/smpi_datatype.hpp")).read()
    flags = [(a, int(b, 16)) for a, b in re.findall(r"constexpr unsigned (DT_FLAG_\w+)\s*=\s*(0x[0-9a-fA-F]+);", hsrc)]
    m = re.search(r"constexpr unsigned DT_FLAG_BASIC =\s*\(([^)]*)\);", hsrc)
    if not m or not flags:
        raise TranslationError("smpi_datatype.hpp: DT_FLAG_* not found")
    basic = flag_list(m.group(1), "DT_FLAG_BASIC")
    # pair structs of smpi_datatype.hpp: struct name { T value; U index; };
    structs = re.findall(r"struct (\w+) \{\s*([\w ]+?) value;\s*([\w ]+?) index;\s*\};", hsrc)
    INFO.update({"ops": ops, "dts": dts, "flags": dict(flags), "basic": basic,
                 "structs": {a: (norm(b), norm(c)) for a, b, c in structs},
                 "kinds": {f: ("loops" if b.startswith(".loops") else b[1:]) for f, b in funcs}})
    out = ["-- GENERATED by props/C31/gen_optable.py from /repo/src/smpi/mpi/smpi_op.cpp, smpi_datatype.cpp, smpi_datatype.hpp",
           "-- (do not edit; regenerated on every ./check C31)",
           "import SgVerif.C31.Ast", "namespace SgVerif.C31.Gen", "open SgVerif.C31", "",
           "def flagValues : List (String × Nat) := [" + ", ".join('("%s", %d)' % f for f in flags) + "]", "",
           "def basicFlags : List String := " + lean_strs(basic), "",
           "def pairStructs : List (String × String × String) := [" +
           ", ".join('("%s", "%s", "%s")' % (a, norm(b), norm(c)) for a, b, c in structs) + "]", "",
           "def datatypes : List DtDecl := [\n" + ",\n".join('  ⟨"%s", "%s", %s⟩' % (n, t, lean_strs(f)) for n, t, f in dts) + "]", "",
           "def ops : List OpDecl := [\n" + ",\n".join('  ⟨"%s", "%s", %s⟩' % (n, f, lean_strs(fl)) for n, f, fl in ops) + "]", ""]
    for f, body in funcs:
        out.append("def %s : FuncBody := %s\n" % (f, body))
    out.append("def funcs : List (String × FuncBody) := [" + ", ".join('("%s", %s)' % (f, f) for f, _ in funcs) + "]")
    out += ["", "end SgVerif.C31.Gen", ""]
    return "\n".join(out)


def main():
    here = os.path.dirname(os.path.abspath(__file__))
    root = os.path.dirname(os.path.dirname(here))
    dst = os.path.join(root, "lean", "SgVerif", "C31", "Gen.lean")
    txt = translate(os.environ.get("VERIF_REPO", "/repo"))
    if not os.path.exists(dst) or open(dst).read() != txt:
        open(dst, "w").write(txt)
    print("wrote", dst, len(txt), "bytes")


if __name__ == "__main__":
    try:
        main()
    except TranslationError as e:
        print("TRANSLATION-ERROR:", e, file=sys.stderr)
        sys.exit(3)
