/* C31 harness (C++ so that the MPI_CXX_* handles exist): runs the REAL SMPI reduction operators (MPI_Reduce_local, MPI_Allreduce) under smpirun.
 * argv[1] = case file (every rank reads it); rank 0 prints `<query> => <answer>` lines.
 *   size <DT>                                        => <MPI_Type_size>
 *   rl <OP> <DT> <ndup> <count> <hexA|-> <hexB|->    => ok <hexB'|-> | errop | errtype | err<n> | guard
 *   ar <OP> <DT> <np> <count> <hex rank0> ... <hex rank np-1>  => ok <hex result rank0> ... | errop | err<n>
 * buffers are raw bytes: count * MPI_Type_size bytes each (the typed encoding is done by the generator and the driver).
 * An (op, datatype) pair that passes CHECK_OP but has no entry in the operator function makes SMPI xbt_die: the
 * process aborts after the lines printed so far (the check restarts after that case). */
#include <mpi.h>
#include <stdio.h>
#include <stdlib.h>
#include <string.h>

/* smpi.h misspells these three declarations (smpi_MPI_MPI_CXX_FLOAT_COMPLEX, ..._DOULE_...), so the MPI_CXX_*_COMPLEX
 * macros do not compile in a C++ program; the objects exist in libsimgrid (CREATE_MPI_DATATYPE in smpi_datatype.cpp) */
extern SMPI_Datatype smpi_MPI_CXX_FLOAT_COMPLEX;
extern SMPI_Datatype smpi_MPI_CXX_DOUBLE_COMPLEX;
extern SMPI_Datatype smpi_MPI_CXX_LONG_DOUBLE_COMPLEX;

#define DT(n) {#n, 0}
struct named { const char* name; MPI_Datatype dt; };
static struct named dts[80];
static int ndts = 0;
static void add_dt(const char* n, MPI_Datatype d) { dts[ndts].name = n; dts[ndts].dt = d; ndts++; }
#define ADD(n) add_dt(#n, n)
static void init_dts(void)
{
  ADD(MPI_DOUBLE); ADD(MPI_INT); ADD(MPI_CHAR); ADD(MPI_SHORT); ADD(MPI_LONG); ADD(MPI_FLOAT); ADD(MPI_BYTE);
  ADD(MPI_LONG_LONG); ADD(MPI_SIGNED_CHAR); ADD(MPI_UNSIGNED_CHAR); ADD(MPI_UNSIGNED_SHORT); ADD(MPI_UNSIGNED);
  ADD(MPI_UNSIGNED_LONG); ADD(MPI_UNSIGNED_LONG_LONG); ADD(MPI_LONG_DOUBLE); ADD(MPI_WCHAR); ADD(MPI_C_BOOL);
  ADD(MPI_INT8_T); ADD(MPI_INT16_T); ADD(MPI_INT32_T); ADD(MPI_INT64_T); ADD(MPI_UINT8_T); ADD(MPI_UINT16_T);
  ADD(MPI_UINT32_T); ADD(MPI_UINT64_T); ADD(MPI_C_FLOAT_COMPLEX); ADD(MPI_C_DOUBLE_COMPLEX);
  ADD(MPI_C_LONG_DOUBLE_COMPLEX); ADD(MPI_AINT); ADD(MPI_OFFSET); ADD(MPI_FLOAT_INT); ADD(MPI_LONG_INT);
  ADD(MPI_DOUBLE_INT); ADD(MPI_SHORT_INT); ADD(MPI_2INT); ADD(MPI_2FLOAT); ADD(MPI_2DOUBLE); ADD(MPI_2LONG);
  ADD(MPI_REAL); ADD(MPI_REAL4); ADD(MPI_REAL8); ADD(MPI_REAL16); ADD(MPI_COMPLEX8); ADD(MPI_COMPLEX16);
  ADD(MPI_COMPLEX32); ADD(MPI_INTEGER1); ADD(MPI_INTEGER2); ADD(MPI_INTEGER4); ADD(MPI_INTEGER8); ADD(MPI_INTEGER16);
  ADD(MPI_LONG_DOUBLE_INT); ADD(MPI_CXX_BOOL); ADD(MPI_CXX_FLOAT_COMPLEX); ADD(MPI_CXX_DOUBLE_COMPLEX);
  ADD(MPI_CXX_LONG_DOUBLE_COMPLEX); ADD(MPI_PACKED); ADD(MPI_COUNT); ADD(MPI_DATATYPE_NULL);
}
static int find_dt(const char* n, MPI_Datatype* d)
{
  for (int i = 0; i < ndts; i++)
    if (strcmp(dts[i].name, n) == 0) { *d = dts[i].dt; return 1; }
  return 0;
}
static int find_op(const char* n, MPI_Op* o)
{
#define OP(x) if (strcmp(n, #x) == 0) { *o = x; return 1; }
  OP(MPI_MAX) OP(MPI_MIN) OP(MPI_SUM) OP(MPI_PROD) OP(MPI_LAND) OP(MPI_LOR) OP(MPI_LXOR) OP(MPI_BAND) OP(MPI_BOR)
  OP(MPI_BXOR) OP(MPI_MAXLOC) OP(MPI_MINLOC) OP(MPI_REPLACE) OP(MPI_NO_OP)
  return 0;
}
static int hexval(char c) { return c <= '9' ? c - '0' : (c | 32) - 'a' + 10; }
static void unhex(const char* s, unsigned char* out, size_t n)
{
  if (s[0] == '-') return;
  for (size_t i = 0; i < n && s[2 * i] && s[2 * i + 1]; i++)
    out[i] = (unsigned char)(hexval(s[2 * i]) * 16 + hexval(s[2 * i + 1]));
}
static void puthex(const unsigned char* b, size_t n)
{
  if (n == 0) { printf(" -"); return; }
  putchar(' ');
  for (size_t i = 0; i < n; i++) printf("%02x", b[i]);
}
static void puterr(int rc)
{
  if (rc == MPI_ERR_OP) printf(" errop");
  else if (rc == MPI_ERR_TYPE) printf(" errtype");
  else printf(" err%d", rc);
}
#define GUARD 32

int main(int argc, char** argv)
{
  MPI_Init(&argc, &argv);
  int rank, wsize;
  MPI_Comm_rank(MPI_COMM_WORLD, &rank);
  MPI_Comm_size(MPI_COMM_WORLD, &wsize);
  MPI_Comm_set_errhandler(MPI_COMM_WORLD, MPI_ERRORS_RETURN);
  init_dts();
  MPI_Comm sub[17];
  for (int k = 1; k <= wsize && k <= 16; k++) {
    MPI_Comm_split(MPI_COMM_WORLD, rank < k ? 0 : MPI_UNDEFINED, rank, &sub[k]);
    if (rank < k) MPI_Comm_set_errhandler(sub[k], MPI_ERRORS_RETURN);
  }
  FILE* f = fopen(argv[1], "r");
  if (!f) { fprintf(stderr, "cannot open %s\n", argv[1]); MPI_Abort(MPI_COMM_WORLD, 2); }
  size_t cap = 1 << 20;
  char* line = (char*)malloc(cap);
  while (fgets(line, (int)cap, f)) {
    size_t L = strlen(line);
    while (L > 0 && (line[L - 1] == '\n' || line[L - 1] == '\r')) line[--L] = 0;
    if (L == 0) continue;
    char* copy = strdup(line);
    char* tok[64];
    int nt = 0;
    for (char* p = strtok(copy, " "); p && nt < 64; p = strtok(NULL, " ")) tok[nt++] = p;
    if (rank == 0) printf("%s =>", line);
    if (strcmp(tok[0], "size") == 0 && nt == 2) {
      MPI_Datatype d;
      if (rank == 0) {
        if (!find_dt(tok[1], &d)) printf(" unknown-name");
        else { int s = -1; MPI_Type_size(d, &s); printf(" %d", s); }
      }
    } else if (strcmp(tok[0], "rl") == 0 && nt == 7) {
      if (rank == 0) {
        MPI_Datatype d; MPI_Op o;
        if (!find_dt(tok[2], &d) || !find_op(tok[1], &o)) printf(" unknown-name");
        else {
          int ndup = atoi(tok[3]), count = atoi(tok[4]), sz = 0;
          MPI_Type_size(d, &sz);
          MPI_Datatype chain[8]; MPI_Datatype cur = d;
          for (int k = 0; k < ndup && k < 8; k++) { MPI_Type_dup(cur, &chain[k]); cur = chain[k]; }
          size_t n = (size_t)count * (size_t)sz;
          unsigned char* a = (unsigned char*)malloc(n + GUARD); unsigned char* b = (unsigned char*)malloc(n + GUARD);
          memset(a, 0, n + GUARD); memset(b, 0, n + GUARD);
          memset(b + n, 0xA5, GUARD); memset(a + n, 0x5A, GUARD);
          unhex(tok[5], a, n); unhex(tok[6], b, n);
          fflush(stdout);
          int rc = MPI_Reduce_local(a, b, count, cur, o);
          int guard_ok = 1;
          for (int k = 0; k < GUARD; k++) if (b[n + k] != 0xA5 || a[n + k] != 0x5A) guard_ok = 0;
          if (!guard_ok) printf(" guard");
          else if (rc == MPI_SUCCESS) { printf(" ok"); puthex(b, n); }
          else puterr(rc);
          for (int k = ndup - 1; k >= 0; k--) MPI_Type_free(&chain[k]);
          free(a); free(b);
        }
      }
    } else if (strcmp(tok[0], "ar") == 0 && nt >= 6) {
      int np = atoi(tok[3]), count = atoi(tok[4]);
      MPI_Datatype d; MPI_Op o;
      int known = find_dt(tok[2], &d) && find_op(tok[1], &o) && np >= 1 && np <= wsize && np <= 16 && nt == 5 + np;
      if (!known) { if (rank == 0) printf(" unknown-name"); }
      else if (rank < np) {
        int sz = 0;
        MPI_Type_size(d, &sz);
        size_t n = (size_t)count * (size_t)sz;
        unsigned char* a = (unsigned char*)malloc(n + GUARD); unsigned char* b = (unsigned char*)malloc(n + GUARD);
        memset(a, 0, n + GUARD); memset(b, 0xEE, n + GUARD);
        unhex(tok[5 + rank], a, n);
        int rc = MPI_Allreduce(a, b, count, d, o, sub[np]);
        int allrc = 0;
        int myrc = rc;
        /* collect return codes and results on rank 0 (plain byte gather, no reduction involved) */
        int* rcs = (int*)malloc(sizeof(int) * np);
        MPI_Gather(&myrc, 1, MPI_INT, rcs, 1, MPI_INT, 0, sub[np]);
        unsigned char* all = (unsigned char*)malloc(n * np + 1);
        MPI_Gather(b, (int)n, MPI_BYTE, all, (int)n, MPI_BYTE, 0, sub[np]);
        if (rank == 0) {
          for (int k = 0; k < np; k++) if (rcs[k] != MPI_SUCCESS) allrc = rcs[k];
          if (allrc != 0) puterr(allrc);
          else { printf(" ok"); for (int k = 0; k < np; k++) puthex(all + (size_t)k * n, n); }
        }
        free(a); free(b); free(rcs); free(all);
      }
    } else if (rank == 0) printf(" bad-query");
    if (rank == 0) { printf("\n"); fflush(stdout); }
    free(copy);
  }
  fclose(f);
  MPI_Finalize();
  return 0;
}
