// C11 harness: interpreter of generated actor-lifecycle programs through the public S4U API.
// stdin: one program per line; each runs in a forked child (one Engine per process).
//   prog <k> | <ops of actor 0> | <ops of actor 1> | ...      actor 0 is created from main at t=0, actor c by `cr:c`
//   ops (durations and dates in units of 2^-10 s):
//     sl:d  sleep_for(d)          cr:c  create actor c (each actor on its own host)
//     ki:b  kill actor b          ka    kill_all              ex   this_actor::exit()
//     jo:b:T  join b with timeout T (T = -1: none)            da   daemonize self
//     kt:b:T  set_kill_time(T) on actor b (absolute date)     su:b / re:b  suspend / resume actor b
//     oe:g  on_exit registration of tag g on self             yi   yield        lg  nothing (log line only)
//   an op whose target actor was not created yet is skipped (marker `n`).
// stdout: `<program> => <tokens>`, one token per log line, in the order produced:
//     <actor>.<opidx>@<clock %a>[n]      the actor is about to run that op (n: skipped, no such actor yet)
//     <actor>.J<opidx>@<clock>           join returned
//     <actor>.X<tag>@<clock>             on_exit callback (tag E is registered by every actor when it starts)
//     END@<clock>                        Engine::run returned
#include <simgrid/s4u.hpp>
#include <cstdarg>
#include <cstdio>
#include <fcntl.h>
#include <iostream>
#include <sstream>
#include <string>
#include <sys/wait.h>
#include <unistd.h>
#include <vector>
namespace sg4 = simgrid::s4u;

struct Op {
  std::string k;
  long a = 0, b = 0;
};
static std::vector<std::vector<Op>> progs;
static std::vector<sg4::ActorPtr> handle;
static std::vector<sg4::Host*> hosts;
static std::string out;

static void emit(const char* fmt, ...)
{
  char buf[256];
  va_list ap;
  va_start(ap, fmt);
  vsnprintf(buf, sizeof buf, fmt, ap);
  va_end(ap);
  out += " ";
  out += buf;
}
static double now()
{
  return sg4::Engine::get_clock();
}
static std::vector<std::string> split(const std::string& s, char sep)
{
  std::vector<std::string> r;
  std::string cur;
  for (char ch : s)
    if (ch == sep) {
      r.push_back(cur);
      cur.clear();
    } else
      cur += ch;
  r.push_back(cur);
  return r;
}

static void actor_main(int me)
{
  sg4::this_actor::on_exit([me](bool) { emit("%d.XE@%a", me, now()); });
  const auto& ops = progs[me];
  for (size_t i = 0; i < ops.size(); i++) {
    const Op& o = ops[i];
    bool targeted = o.k == "ki" || o.k == "jo" || o.k == "kt" || o.k == "su" || o.k == "re";
    if (targeted && handle[o.a] == nullptr) {
      emit("%d.%zu@%an", me, i, now());
      continue;
    }
    emit("%d.%zu@%a", me, i, now());
    if (o.k == "sl")
      sg4::this_actor::sleep_for((double)o.a / 1024.0);
    else if (o.k == "cr") {
      int c     = (int)o.a;
      handle[c] = hosts[c]->add_actor("a" + std::to_string(c), [c]() { actor_main(c); });
    } else if (o.k == "ki")
      handle[o.a]->kill();
    else if (o.k == "ka")
      sg4::Actor::kill_all();
    else if (o.k == "ex")
      sg4::this_actor::exit();
    else if (o.k == "jo") {
      if (o.b < 0)
        handle[o.a]->join();
      else
        handle[o.a]->join((double)o.b / 1024.0);
      emit("%d.J%zu@%a", me, i, now());
    } else if (o.k == "da")
      sg4::Actor::self()->daemonize();
    else if (o.k == "kt")
      handle[o.a]->set_kill_time((double)o.b / 1024.0);
    else if (o.k == "su")
      handle[o.a]->suspend();
    else if (o.k == "re")
      handle[o.a]->resume();
    else if (o.k == "oe") {
      long tag = o.a;
      sg4::this_actor::on_exit([me, tag](bool) { emit("%d.X%ld@%a", me, tag, now()); });
    } else if (o.k == "yi")
      sg4::this_actor::yield();
  }
}

static int run_case(const std::string& line)
{
  auto parts = split(line, '|');
  std::istringstream hd(parts[0]);
  std::string word;
  int k;
  hd >> word >> k;
  progs.assign(k, {});
  for (int i = 0; i < k && i + 1 < (int)parts.size(); i++) {
    std::istringstream in(parts[i + 1]);
    std::string tok;
    while (in >> tok) {
      auto p = split(tok, ':');
      Op o;
      o.k = p[0];
      if (p.size() > 1)
        o.a = std::stol(p[1]);
      if (p.size() > 2)
        o.b = std::stol(p[2]);
      progs[i].push_back(o);
    }
  }
  int argc            = 2;
  const char* argv0[] = {"c11", "--log=root.thres:critical", nullptr};
  char** argv         = const_cast<char**>(argv0);
  sg4::Engine e(&argc, argv);
  auto* zone = e.get_netzone_root();
  handle.assign(k, nullptr);
  for (int i = 0; i < k; i++)
    hosts.push_back(zone->add_host("h" + std::to_string(i), 1048576.0));
  zone->seal();
  handle[0] = hosts[0]->add_actor("a0", []() { actor_main(0); });
  e.run();
  emit("END@%a", now());
  printf("%s\n", out.c_str());
  fflush(stdout);
  return 0;
}

int main()
{
  std::string line;
  while (std::getline(std::cin, line)) {
    if (line.empty())
      continue;
    int fd[2];
    if (pipe(fd) != 0)
      return 3;
    fflush(stdout);
    pid_t pid = fork();
    if (pid == 0) {
      close(fd[0]);
      dup2(fd[1], 1);
      int devnull = open("/dev/null", 1);
      dup2(devnull, 2);
      alarm(20);
      int rc = run_case(line);
      fflush(stdout);
      _exit(rc);
    }
    close(fd[1]);
    std::string res;
    char buf[4096];
    ssize_t n;
    while ((n = read(fd[0], buf, sizeof buf)) > 0)
      res.append(buf, n);
    close(fd[0]);
    int status = 0;
    waitpid(pid, &status, 0);
    while (not res.empty() && res.back() == '\n')
      res.pop_back();
    if (WIFSIGNALED(status))
      printf("%s => signal%d\n", line.c_str(), WTERMSIG(status));
    else if (WEXITSTATUS(status) != 0)
      printf("%s => exit%d\n", line.c_str(), WEXITSTATUS(status));
    else
      printf("%s =>%s\n", line.c_str(), res.c_str());
    fflush(stdout);
  }
  return 0;
}
