"""C11 — actor lifecycle semantics (join, on_exit, daemons, kill time, suspend/resume).
Theorems: lean/SgVerif/C11/Props.lean.  Tie: generated lifecycle programs run through the public S4U API by
props/C11/harness.cpp; the Lean driver replays the log on the model (same-date order taken from the log) and evaluates
the five monitors of the property on the log alone."""
import json
from fractions import Fraction
from vlib.core import SplitMix

GRID = [256, 512, 1024, 1536, 2048, 3072]


def dur(rng):
    k = rng.below(6)
    if k <= 3:
        return rng.choice(GRID)          # coincidences on purpose (timeout == termination date, kill == wake-up, ...)
    if k == 4:
        return 64 * rng.range(1, 64)
    return rng.range(1, 5000)


def gen(rng, idx):
    cls = rng.below(8)
    k = rng.range(1, 6)
    if cls == 0:
        k = max(k, 3)
    parent = [None] + [rng.below(c) for c in range(1, k)]
    progs = []
    for a in range(k):
        n = rng.range(1, 9)
        ops, tag, kt = [], 1, False
        for _ in range(n):
            r = rng.below(24)
            b = rng.below(k)
            if r <= 6:
                ops.append("sl:%d" % dur(rng))
            elif r <= 8:
                ops.append("jo:%d:%d" % (b if b != a else (a + 1) % k, rng.choice([-1, -1] + GRID + [dur(rng)])) if k > 1 else "lg")
            elif r <= 10:
                ops.append("ki:%d" % b)
            elif r == 11:
                ops.append("ka" if rng.chance(1, 2) else "ex")
            elif r <= 13:
                ops.append("su:%d" % b)
            elif r <= 15:
                ops.append("re:%d" % b)
            elif r <= 17:
                ops.append("oe:%d" % tag); tag += 1
            elif r == 18 and not kt:
                ops.append("kt:%d:%d" % (a, rng.choice([0] + GRID + [dur(rng)]))); kt = True
            elif r == 19:
                ops.append("yi")
            elif r == 20 and a > 0:
                ops.append("da")
            else:
                ops.append("lg")
        progs.append(ops)
    # class-specific plants
    if cls == 0 and k >= 3:       # daemons blocked in a sleep when the last regular actor ends; on_exit order by pid
        for a in range(1, k):
            if rng.chance(2, 3):
                progs[a] = ["da", "oe:1", "sl:%d" % (20000 + dur(rng))] + progs[a][:2]
    if cls == 1 and k >= 2:       # join on an already dead actor / timeout equal to the termination date
        d = rng.choice(GRID)
        progs[1] = ["sl:%d" % d]
        progs[0] = [o for o in progs[0] if not o.startswith("ki") and o != "ka"] + ["jo:1:%d" % d, "sl:%d" % (2 * d), "jo:1:-1", "jo:1:0"]
    if cls == 2 and k >= 2:       # kill of a suspended actor; resume of a non-suspended one
        progs[0] += ["su:1", "sl:%d" % dur(rng), "ki:1", "re:1"]
    if cls == 3 and k >= 2:       # actor killed while its child is joining it
        progs[1] = ["jo:%d:-1" % parent[1], "lg"] + progs[1][:3]
    # every child is created once, by its parent
    for c in range(1, k):
        p = parent[c]
        pos = rng.range(0, min(len(progs[p]), 4))
        progs[p].insert(pos, "cr:%d" % c)
    line = "prog %d | %s" % (k, " | ".join(" ".join(p) for p in progs))
    return {"line": line, "class": cls, "k": k}


def canon(line):
    if " =>" not in line:
        return line
    q, a = line.split(" =>", 1)
    toks = []
    for t in a.split():
        if "@" in t:
            h, r = t.rsplit("@", 1)
            n = ""
            if r.endswith("n"):
                r, n = r[:-1], "n"
            try:
                f = Fraction(float.fromhex(r))
                t = "%s@%d/%d%s" % (h.replace(".XE", ".X0"), f.numerator, f.denominator, n)
            except ValueError:
                pass
        toks.append(t)
    return q + " => " + " ".join(toks)


def run(ctx):
    ctx.cov["rule"] = ("generated lifecycle programs (splitmix64(VERIF_SEED)): 1..6 actors, 1..12 ops each among sleep, "
                       "create, kill, kill_all, exit, join(+timeout), daemonize, set_kill_time, suspend, resume, on_exit, "
                       "yield; durations on a coarse dyadic grid so that dates coincide; 4 planted classes; non-trivial = "
                       "distinct program whose log has at least two actors and one of: a join return, an on_exit tag other "
                       "than the built-in one, a suspend, a daemon")
    ctx.assumptions += ["dates are exact (dyadic durations, sleeps only)",
                        "the order of log lines that carry the same date is taken from the implementation; a killed "
                        "actor's last slice may or may not have had its simcall handled (both accepted)",
                        "host failures / auto-restart are out of scope"]
    ctx.ensure_simgrid(["simgrid"])
    ctx.lean_prove()
    drv = ctx.lean_exe()
    h = ctx.build_harness("harness.cpp")
    if not (drv and h):
        return
    quick = ctx.tier == "quick"
    n = 220 if quick else 3000
    if ctx.broken:
        n *= 10
    corpus = [l.strip() for l in open(ctx.pdir + "/corpus.txt") if l.strip() and not l.startswith("#")]
    cases = [{"line": l, "class": "corpus"} for l in corpus]
    if ctx.replay:
        cases = [json.load(open(ctx.replay))["case"]["gen"]]
    else:
        rng = SplitMix(ctx.seed)
        cases += [gen(rng.fork(i), i) for i in range(n)]
    lines = [c["line"] for c in cases]
    from concurrent.futures import ThreadPoolExecutor
    W = 4 if quick else 6
    chunks = [lines[i::W] for i in range(W)]
    with ThreadPoolExecutor(W) as ex:
        res = list(ex.map(lambda ch: ctx.run_lines([h], ch, timeout=3000) if ch else (0, [], ""), chunks))
    out = [None] * len(lines)
    for w, (rc, o, err) in enumerate(res):
        if rc != 0 or len(o) != len(chunks[w]):
            ctx.broken.append({"kind": "harness-run", "rc": rc, "stderr": err[-2000:], "lines": len(o)})
            return
        out[w::W] = o
    out = [canon(l) for l in out]
    rc, verdicts, err = ctx.run_lines([drv], out, timeout=3000)
    if rc != 0 or not verdicts or verdicts[-1] != "END %d" % len(out):
        ctx.broken.append({"kind": "driver-run", "rc": rc, "stderr": err[-2000:], "tail": verdicts[-2:]})
        return
    classes, feats, seen = {}, {"join_returns": 0, "user_on_exit": 0, "suspends": 0, "daemons": 0, "abnormal": 0}, set()
    for c, l, v in zip(cases, out, verdicts):
        ctx.cov["evaluations"] += 1
        classes[str(c["class"])] = classes.get(str(c["class"]), 0) + 1
        ans = l.split(" => ", 1)[1] if " => " in l else ""
        toks = ans.split()
        if not ans.endswith(tuple("0123456789")) or "END@" not in ans:
            feats["abnormal"] += 1
        actors = set(t.split(".")[0] for t in toks if "." in t.split("@")[0])
        fj = any(".J" in t for t in toks)
        fx = any(".X" in t and ".X0@" not in t for t in toks)
        fs = " su:" in c["line"]
        fd = " da" in c["line"]
        feats["join_returns"] += fj
        feats["user_on_exit"] += fx
        feats["suspends"] += fs
        feats["daemons"] += fd
        if v == "ok":
            ctx.cov["traces_validated_against_impl"] += 1
            if c["line"] not in seen and len(actors) >= 2 and (fj or fx or fs or fd):
                seen.add(c["line"])
                ctx.cov["distinct_nontrivial"] += 1
        elif v.startswith("MONFAIL"):
            ctx.violation(v, {"gen": c, "impl": l, "verdict": v}, key=None)
        else:
            ctx.broken.append({"kind": "correspondence", "case": c["line"][:600], "impl": l[-900:], "verdict": v[:600]})
    ctx.cov["distribution"] = {"classes": classes, "features": feats}
    ctx.cov["samples"] = [o[:400] for o in out[:2] + out[len(corpus):len(corpus) + 2]]
