"""C26 — structured topologies follow their routing algorithms (torus, star, fat tree, dragonfly; loopback/limiter).
Theorems: lean/SgVerif/C26/Props.lean.  Tie: every zone of the enumerated domain is built through the real C++ API in
harness.cpp, Host::route_to link NAMES are printed for ALL node pairs, the Lean driver recomputes every route from the
model (as link names, compared exactly) and evaluates the spec predicates (monitors) on the implementation's names."""
import json
import math
import os
from concurrent.futures import ThreadPoolExecutor

from vlib.core import SplitMix

KEY_DF_CHASSIS = "dragonfly-same-group-green-hop-resets-chassis"
KEY_DF_GROUPS = "dragonfly-groups-exceed-routers"


def torus_shapes(maxd, maxn):
    res = []

    def rec(pref, p):
        if pref:
            res.append(tuple(pref))
        if len(pref) == maxd:
            return
        for d in range(1, maxn // p + 1):
            rec(pref + [d], p * d)
    rec([], 1)
    return res


def gen_torus(rng, tier):
    """valid shapes: at most one dimension of size 1 (two unit dimensions make create_torus_links declare the link
    `<zone>_link_from_i_to_i` twice: the zone is refused with 'declared several times'; a few of those go in the
    malformed stream)."""
    allsh = torus_shapes(5, 64)
    valid = [s for s in allsh if s.count(1) <= 1]
    degenerate = [s for s in allsh if s.count(1) >= 2]
    zones, malformed = [], []
    combos = [(0, 0), (1, 0), (0, 1), (1, 1)]
    if tier == "thorough":
        for s in valid:
            for lb, lim in combos:
                zones.append("T %s %d %d S" % (",".join(map(str, s)), lb, lim))
            if math.prod(s) <= 16:
                zones.append("T %s 1 1 H" % ",".join(map(str, s)))
        exhaustive = True
    else:
        small = [s for s in valid if math.prod(s) <= 16]
        big = [s for s in valid if math.prod(s) > 16]
        for s in small:
            for lb, lim in combos:
                zones.append("T %s %d %d S" % (",".join(map(str, s)), lb, lim))
        for s in small:
            if math.prod(s) <= 8:
                zones.append("T %s %d %d H" % (",".join(map(str, s)), rng.below(2), rng.below(2)))
        # seeded sample of the larger shapes, planted classes first: even sizes (tie at d/2), 5 dims, non powers of two
        planted = [(64,), (8, 8), (4, 4, 4), (2, 2, 2, 2, 2), (2, 2, 2, 2, 4), (6, 10), (3, 7, 3), (5, 12), (2, 31), (1, 64),
                   (9, 7), (2, 3, 2, 5), (63,), (4, 3, 5)]
        for s in planted:
            lb, lim = rng.choice(combos)
            zones.append("T %s %d %d S" % (",".join(map(str, s)), lb, lim))
        for _ in range(16):
            s = rng.choice(big)
            lb, lim = rng.choice(combos)
            zones.append("T %s %d %d S" % (",".join(map(str, s)), lb, lim))
        exhaustive = False
    for _ in range(2):
        s = rng.choice(degenerate)
        malformed.append("T %s %d %d S" % (",".join(map(str, s)), rng.below(2), rng.below(2)))
    return zones, malformed, exhaustive


def gen_fattree(rng, tier):
    """levels 1..3, down fan-outs 1..3, up fan-outs 1..2, parallel links 1..2 per level; `pre` > 0 builds another fat
    tree first in the same process (the static leaf-position / link-id counters then start at `pre`)."""
    from itertools import product
    zones = []
    for lv in (1, 2, 3):
        cfgs = list(product(product((1, 2, 3), repeat=lv), product((1, 2), repeat=lv), product((1, 2), repeat=lv)))
        if tier != "thorough" and lv == 3:
            cfgs = [rng.choice(cfgs) for _ in range(40)] + [((3, 2, 3), (1, 2, 2), (2, 1, 2)), ((2, 3, 2), (2, 1, 2), (1, 2, 2)),
                                                            ((3, 3, 3), (2, 2, 2), (2, 2, 2)), ((2, 2, 2), (1, 2, 2), (1, 2, 1))]
        for dn, up, ct in cfgs:
            combos = [(0, 0), (1, 0), (0, 1), (1, 1)] if (tier == "thorough" or lv < 3) else [(rng.below(2), rng.below(2))]
            for lb, lim in combos:
                sp = "S" if rng.below(4) else "H"
                pre = 0 if rng.below(3) else rng.range(1, 5)
                zones.append("F %d %s %s %s %d %d %s %d" % (lv, ",".join(map(str, dn)), ",".join(map(str, up)),
                                                           ",".join(map(str, ct)), lb, lim, sp, pre))
    return zones


def gen_dragonfly(rng, tier):
    """all (groups, chassis, routers, nodes) in 1..3; groups <= routers is the documented limitation (blue links of group
    n hang on router n of chassis 0); groups > routers goes to the malformed stream."""
    zones, malformed = [], []
    for g in (1, 2, 3):
        for c in (1, 2, 3):
            for r in (1, 2, 3):
                for n in (1, 2, 3):
                    combos = [(0, 0), (1, 0), (0, 1), (1, 1)] if (tier == "thorough" or g * c * r * n <= 12) else [(rng.below(2), rng.below(2))]
                    for lb, lim in combos:
                        sps = ["S", "H"] if tier == "thorough" else [rng.choice(["S", "S", "H"])]
                        for sp in sps:
                            z = "D %d,%d %d,%d %d,%d %d %d %d %s" % (g, rng.range(1, 3), c, rng.range(1, 3), r, rng.range(1, 3), n, lb, lim, sp)
                            if g <= r:
                                zones.append(z)
                            elif (lb, lim) == combos[0] and sp == sps[0] and (tier == "thorough" or n == 1 and (c == 1 or g == 3)):
                                malformed.append(z)
    return zones, malformed


def gen_star(rng, n):
    zones = []
    for _ in range(n):
        nh = rng.range(1, 5)
        specs = []
        for i in range(nh):
            def links():
                k = rng.below(5)
                if k == 0:
                    return "e"
                pool = ["a", "b", "c", "d", "A", "B", "A!", "B!"]
                return ",".join(rng.choice(pool) for _ in range(rng.range(1, 4)))
            kind = rng.below(8)
            if kind == 0:
                spec = "-:-:-:0"                       # nothing configured: do_seal adds empty up/down
            elif kind == 1:
                spec = "%s:-:%s:1" % (links(), "-" if rng.below(2) else "a,b")       # symmetrical: down = reversed back-route
            else:
                spec = "%s:%s:%s:0" % (links(), links(), "-" if rng.below(3) else rng.choice(["a", "c,c", "A,b", "d,A!"]))
            specs.append(spec)
        zones.append("S %d %s" % (nh, " ".join(specs)))
    return zones


NTOK = {"T": 5, "F": 9, "D": 8}


def zone_of(line):
    """`<zone description> [counters] <src> => ...` -> the zone description as it was sent to the harness"""
    q = line.split(" =>", 1)[0].split()
    if q[0] == "S":
        return " ".join(q[:2 + int(q[1])])
    return " ".join(q[:NTOK[q[0]]])


def df_class(zone, src, dst):
    """classification of a dragonfly monitor failure by the minimal witness class"""
    t = zone.split()
    g, c, r, n = [int(t[i].split(",")[0]) for i in (1, 2, 3)] + [int(t[4])]
    if g > r:
        return KEY_DF_GROUPS

    def coords(i):
        return (i // (c * r * n), (i % (c * r * n)) // (r * n), (i % (r * n)) // n)
    a, b = coords(src), coords(dst)
    if a[0] == b[0] and a[1] != 0 and a[2] != b[2]:
        return KEY_DF_CHASSIS
    return None


def run(ctx):
    ctx.cov["rule"] = ("zones enumerated from the property's domain: torus shapes <=5 dims/<=64 nodes (quick: all shapes <=16 "
                       "nodes x {+-loopback} x {+-limiter} + planted/seeded larger shapes; thorough: ALL shapes x 4 combos), "
                       "fat trees 1..3 levels with down fan-outs 1..3, up fan-outs 1..2, 1..2 parallel links (thorough: all; "
                       "quick: all <=2 levels + sample), dragonflies 1..3 x 1..3 x 1..3 x 1..3 (all), star zones with random "
                       "up/down/loopback lists; ALL (src,dst) pairs of every zone; one evaluation = one (zone, src) line with the "
                       "routes to every dst; non-trivial = distinct (zone, src, dst) pairs with src != dst")
    ctx.assumptions += [
        "netpoint ids of the leaves are 0..n-1 (true for zones built by the API/XML: hosts are created first)",
        "link names identify links (Link::get_name of Host::route_to); latencies are not compared here",
        "torus: theorems are about the hop sequence (which node, which dimension, which direction); the position arithmetic of "
        "private_links_ (node_pos + offsets, try_emplace) is modelled as written and validated by the exhaustive correspondence, not proved",
        "fat tree / dragonfly: tables (labels, ports, link ids) are modelled as written and validated by correspondence; theorems are "
        "about the control flow on coordinates",
    ]
    ctx.ensure_simgrid(["simgrid"])
    ctx.lean_prove()
    drv = ctx.lean_exe()
    h = ctx.build_harness("harness.cpp", flags=("-Wno-deprecated-declarations",))
    if not (drv and h):
        return
    rng = SplitMix(ctx.seed)
    corpus = [l.strip() for l in open(ctx.pdir + "/corpus.txt") if l.strip() and not l.startswith("#")]
    if ctx.replay:
        zones = [json.load(open(ctx.replay))["case"]["zone"]]
        malformed, exhaustive = [], False
    else:
        tz, tmal, exhaustive = gen_torus(rng.fork(1), ctx.tier)
        fz = gen_fattree(rng.fork(2), ctx.tier)
        dz, dmal = gen_dragonfly(rng.fork(3), ctx.tier)
        sz = gen_star(rng.fork(4), 150 if ctx.tier == "quick" else 3000)
        zones = corpus + sz + dz + fz + tz
        malformed = tmal + dmal
        if ctx.broken:
            zones += gen_star(rng.fork(5), 1500)      # search mode
    kinds = {"T": 0, "F": 0, "D": 0, "S": 0}
    for z in zones:
        kinds[z[0]] += 1

    # ---- run: batches of zones, harness | driver, in parallel
    batches, cur, w = [], [], 0
    for z in zones:
        t = z.split()
        wz = 1
        if t[0] == "T":
            wz = math.prod(int(x) for x in t[1].split(",")) ** 2
        cur.append(z)
        w += max(wz, 50)
        if w > 120000:
            batches.append(cur)
            cur, w = [], 0
    if cur:
        batches.append(cur)

    def work(batch):
        rc, out, err = ctx.run_lines([h, "--log=root.thres:critical"], batch, timeout=3000)
        if rc != 0:
            # a zone killed the in-process run: redo the batch with one forked child per zone (crash isolation)
            rc, out, err = ctx.run_lines([h, "--log=root.thres:critical", "--fork"], batch, timeout=3000)
        if rc != 0:
            return {"err": {"kind": "harness-run", "rc": rc, "stderr": err[-1500:]}}
        special = [l for l in out if " - => " in l]
        normal = [l for l in out if " - => " not in l]
        rc, verdicts, err = ctx.run_lines([drv], normal, timeout=3000)
        if rc != 0 or not verdicts or verdicts[-1] != "END %d" % len(normal):
            return {"err": {"kind": "driver-run", "rc": rc, "stderr": err[-1500:]}}
        res = {"lines": len(normal), "ok": 0, "bad": [], "special": special, "pairs": 0, "samples": normal[:1], "seen": set()}
        for l, v in zip(normal, verdicts):
            res["pairs"] += max(l.count(" |") - 1, 0)
            res["seen"].add(zone_of(l))
            if v == "ok":
                res["ok"] += 1
            else:
                res["bad"].append((l if len(l) < 4000 else l[:4000], v))
        return res

    with ThreadPoolExecutor(max_workers=8) as ex:
        results = list(ex.map(work, batches))
    seen = set()
    for r in results:
        if "err" in r:
            ctx.broken.append(r["err"])
            continue
        ctx.cov["evaluations"] += r["lines"]
        ctx.cov["traces_validated_against_impl"] += r["ok"]
        ctx.cov["distinct_nontrivial"] += r["pairs"]
        seen |= r["seen"]
        if len(ctx.cov["samples"]) < 6:
            ctx.cov["samples"] += [s[:300] for s in r["samples"]]
        for l, v in r["bad"]:
            zone = zone_of(l)
            src = int(l.split(" =>", 1)[0].split()[-1])
            case = {"zone": zone, "src": src, "impl": l[:3000], "verdict": v[:600]}
            if v.startswith("MONFAIL"):
                key = None
                if zone.startswith("D "):
                    try:
                        dst = int(v.split("dst=", 1)[1].split()[0])
                        key = df_class(zone, src, dst)
                    except (IndexError, ValueError):
                        pass
                ctx.violation("route does not follow the topology's routing algorithm: " + v[:300], case, key=key)
            elif v.startswith("DISAGREE"):
                # the spec predicates hold on the implementation's route but it is not the route SimGrid's own algorithm
                # (as modelled, branch by branch) defines: broken correspondence, searched further below
                ctx.broken.append({"kind": "route-differs-from-model", "zone": zone, "src": src, "verdict": v[:600]})
            else:
                ctx.broken.append({"kind": "driver-badline", "line": l[:300], "verdict": v[:300]})
        for l in r["special"]:
            zone = l.split(" - => ")[0]
            what = l.split(" - => ")[1]
            seen.add(zone)
            if zone.startswith("S ") and what.startswith("CRASH 6"):
                # xbt_assert "no link UP/DOWN": legitimate iff some configured host lacks an up or a down list
                specs = zone.split()[2:]
                if any((s.split(":")[0] == "-") != (s.split(":")[1] == "-") and s.split(":")[3] == "0" or
                       (s.split(":")[0] == "-" and s.split(":")[1] == "-" and s.split(":")[2] != "-") for s in specs):
                    continue
            ctx.violation("zone of the property's domain cannot be built / routed: " + l[:300], {"zone": zone, "what": what},
                          key=KEY_DF_GROUPS if zone.startswith("D ") else None)
    missing = [z for z in zones if z not in seen]
    if missing:
        ctx.broken.append({"kind": "zones-without-output", "n": len(missing), "first": missing[:3]})

    # ---- malformed stream: zones outside what the code supports must be refused (or are a known finding), never routed wrongly silently
    mal_out = {}
    if malformed:
        rc, out, err = ctx.run_lines([h, "--log=root.thres:critical", "--fork"], malformed, timeout=3000)
        normal = [l for l in out if " - => " not in l]
        rc2, verdicts, err2 = ctx.run_lines([drv], normal, timeout=3000)
        bad_zones = {}
        for l in out:
            if " - => " in l:
                mal_out[l.split(" - => ")[0]] = l.split(" - => ")[1]
        for l, v in zip(normal, verdicts):
            if v != "ok":
                bad_zones.setdefault(zone_of(l), v)
        for z in malformed:
            what = mal_out.get(z)
            if z.startswith("T "):
                # two unit dimensions: refused at construction ("declared several times"); anything else is fine too if routes are right
                if what is None and z in bad_zones:
                    ctx.violation("degenerate torus routed wrongly: " + bad_zones[z][:200], {"zone": z}, key=None)
            else:
                if what == "REJECTED":
                    continue            # (after the proposed fix) refused with invalid_argument
                if what is not None or z in bad_zones:
                    ctx.violation("dragonfly with more groups than routers per chassis is accepted, then reads link arrays out of "
                                  "bounds: " + (what or bad_zones[z])[:200], {"zone": z, "what": what or bad_zones[z][:300]}, key=KEY_DF_GROUPS)
    ctx.cov["malformed"] = {"zones": len(malformed), "refused_or_crashed": len(mal_out)}
    ctx.cov["distribution"] = kinds
    ctx.cov["exhaustive"] = bool(exhaustive and not ctx.replay)
    ctx.cov["exhaustive_note"] = ("thorough: every torus shape <=5 dims/<=64 nodes that can be built (<=1 unit dimension) x +-loopback x "
                                  "+-limiter, every dragonfly 1..3^4 with groups<=routers x 4 x 2 policies, every fat tree <=3 levels with "
                                  "down<=3, up<=2, count<=2 x 4; all node pairs")
